package an

import (
	"go/ast"
	"go/token"
	"go/types"
)

// PerTrip counts, for every way through one iteration of the loop body, how many statements count(stmt) accepts:
// the result is the set of totals over the paths that end the iteration normally (fall off the end of the body or
// `continue`). Paths that leave the loop (break, return, goto, panic) are not counted. ok is false when the body
// contains a construct the walk does not follow with a counted statement inside it (a nested loop, switch, select,
// labelled statement or function literal): the caller must then treat the count as unknown.
func PerTrip(info *types.Info, body *ast.BlockStmt, count func(ast.Stmt) bool) (totals map[int]bool, ok bool) {
	totals = map[int]bool{}
	ok = true
	containsCounted := func(n ast.Node) bool {
		hit := false
		ast.Inspect(n, func(m ast.Node) bool {
			if s, isStmt := m.(ast.Stmt); isStmt && count(s) {
				hit = true
			}
			return !hit
		})
		return hit
	}
	// walk returns the set of counts with which control falls out of the statement list, given the counts it enters with
	var walkList func(list []ast.Stmt, in map[int]bool) map[int]bool
	var walk func(s ast.Stmt, in map[int]bool) map[int]bool
	walkList = func(list []ast.Stmt, in map[int]bool) map[int]bool {
		cur := in
		for _, s := range list {
			if len(cur) == 0 {
				break
			}
			cur = walk(s, cur)
		}
		return cur
	}
	walk = func(s ast.Stmt, in map[int]bool) map[int]bool {
		if count(s) {
			out := map[int]bool{}
			for n := range in {
				out[n+1] = true
			}
			return out
		}
		switch x := s.(type) {
		case *ast.BlockStmt:
			return walkList(x.List, in)
		case *ast.IfStmt:
			cur := in
			if x.Init != nil {
				cur = walk(x.Init, cur)
			}
			out := map[int]bool{}
			for n := range walkList(x.Body.List, cur) {
				out[n] = true
			}
			if x.Else != nil {
				for n := range walk(x.Else, cur) {
					out[n] = true
				}
			} else {
				for n := range cur {
					out[n] = true
				}
			}
			return out
		case *ast.BranchStmt:
			if x.Tok == token.CONTINUE && x.Label == nil {
				for n := range in {
					totals[n] = true
				}
			} else if x.Tok == token.CONTINUE || x.Tok == token.GOTO || x.Tok == token.FALLTHROUGH {
				ok = false
			}
			return map[int]bool{}
		case *ast.ReturnStmt:
			return map[int]bool{}
		case *ast.ExprStmt:
			if call, isCall := x.X.(*ast.CallExpr); isCall {
				if id, isId := call.Fun.(*ast.Ident); isId && id.Name == "panic" {
					if _, isB := info.ObjectOf(id).(*types.Builtin); isB {
						return map[int]bool{}
					}
				}
			}
			return in
		case *ast.ForStmt, *ast.RangeStmt, *ast.SwitchStmt, *ast.TypeSwitchStmt, *ast.SelectStmt, *ast.LabeledStmt:
			// an inner `continue`/`break` belongs to the inner statement; a counted statement inside is not followed
			if containsCounted(x) {
				ok = false
			}
			esc := false
			ast.Inspect(x, func(m ast.Node) bool {
				if b, isB := m.(*ast.BranchStmt); isB && b.Label != nil {
					esc = true
				}
				return !esc
			})
			if esc {
				ok = false
			}
			return in
		default:
			if containsCounted(s) {
				ok = false
			}
			return in
		}
	}
	for n := range walkList(body.List, map[int]bool{0: true}) {
		totals[n] = true
	}
	return totals, ok
}
