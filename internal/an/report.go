package an

import (
	"fmt"
	"sort"
	"strings"
)

type Status int

const (
	OK Status = iota
	Violation
	Undecided // no verdict: broken check (exit 2), never a VIOLATION line
)

func (s Status) String() string { return [...]string{"ok", "VIOLATION", "UNDECIDED"}[s] }

// Obligation is one decided instance of a rule.
type Obligation struct {
	Rule      string `json:"rule"`      // e.g. C03-P1
	Construct string `json:"construct"` // function + site description, no line numbers
	Status    string `json:"status"`
	Pos       string `json:"pos,omitempty"`
	Detail    string `json:"detail,omitempty"`
	status    Status
}

func (o *Obligation) Key() string { return o.Rule + " " + o.Construct }

// St is the decided status.
func (o *Obligation) St() Status { return o.status }

// Discharge marks an obligation that failed under one reading of the code as holding under an equivalent one.
func (o *Obligation) Discharge(detail string) {
	o.status = OK
	o.Status = OK.String()
	o.Detail = detail
}

type Report struct {
	Property    string
	Obligations []*Obligation
	Notes       []string
	Clauses     map[string]string // rule id -> what it decides
	clauseOrder []string
}

func NewReport(prop string) *Report { return &Report{Property: prop, Clauses: map[string]string{}} }

func (r *Report) Clause(id, text string) {
	if _, ok := r.Clauses[id]; !ok {
		r.clauseOrder = append(r.clauseOrder, id)
	}
	r.Clauses[id] = text
}

func (r *Report) ClauseOrder() []string { return r.clauseOrder }

func (r *Report) add(rule, construct string, st Status, pos, detail string) *Obligation {
	// disambiguate repeated constructs with an ordinal
	base := construct
	n := 1
	for {
		dup := false
		for _, o := range r.Obligations {
			if o.Rule == rule && o.Construct == construct {
				dup = true
				break
			}
		}
		if !dup {
			break
		}
		n++
		construct = fmt.Sprintf("%s #%d", base, n)
	}
	o := &Obligation{Rule: rule, Construct: construct, Status: st.String(), Pos: pos, Detail: detail, status: st}
	r.Obligations = append(r.Obligations, o)
	return o
}

func (r *Report) Ok(rule, construct, pos, detail string) { r.add(rule, construct, OK, pos, detail) }
func (r *Report) Bad(rule, construct, pos, detail string) {
	r.add(rule, construct, Violation, pos, detail)
}
func (r *Report) Unknown(rule, construct, pos, detail string) {
	r.add(rule, construct, Undecided, pos, detail)
}
func (r *Report) Note(format string, a ...interface{}) {
	r.Notes = append(r.Notes, fmt.Sprintf(format, a...))
}

// Check records ok/violation from a boolean.
func (r *Report) Check(rule, construct, pos string, ok bool, detail string) {
	if ok {
		r.Ok(rule, construct, pos, detail)
	} else {
		r.Bad(rule, construct, pos, detail)
	}
}

// Min fails the check (undecided) when a rule matched fewer instances than confirmed by hand.
func (r *Report) Min(rule string, got, want int, what string) {
	// A universally quantified rule is vacuous only when it matches nothing. Fewer instances than were counted by
	// hand when the table was written (two identical branches merged into one, a duplicate block extracted into a
	// helper) is reported as a note: every remaining instance is still decided.
	if got == 0 && want > 0 {
		r.Unknown(rule, "instance count: "+what, "", fmt.Sprintf("matched 0 instances, %d when the rule table was written: the rule would pass vacuously", want))
	} else if got < want {
		r.Note("%s %s: %d instance(s), %d when the rule table was written", rule, what, got, want)
	}
}

func (r *Report) Count(st Status) int {
	n := 0
	for _, o := range r.Obligations {
		if o.status == st {
			n++
		}
	}
	return n
}

func (r *Report) ByStatus(st Status) []*Obligation {
	var out []*Obligation
	for _, o := range r.Obligations {
		if o.status == st {
			out = append(out, o)
		}
	}
	sort.SliceStable(out, func(i, j int) bool { return out[i].Key() < out[j].Key() })
	return out
}

func (r *Report) RuleCount(prefix string) int {
	n := 0
	for _, o := range r.Obligations {
		if strings.HasPrefix(o.Rule, prefix) {
			n++
		}
	}
	return n
}
