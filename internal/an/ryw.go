package an

import (
	"go/ast"
	"go/token"
	"go/types"
	"sort"
	"strings"

	"golang.org/x/tools/go/types/typeutil"

	"verif/internal/load"
)

// Effects computes, for every function of one package, whether it (transitively through static
// callees of the same package) reaches a call whose qualified callee name matches one of the base
// patterns. The fixpoint is over the package-local static call graph.
func (w *World) Effects(pkgShort string, base func(callee string) bool) map[string]bool {
	direct := map[string]bool{}
	calls := map[string][]string{}
	for _, fn := range w.P.Funcs() {
		if load.ShortPkg(fn.Pkg.PkgPath) != pkgShort || fn.Decl.Body == nil {
			continue
		}
		info := fn.Pkg.TypesInfo
		ast.Inspect(fn.Decl.Body, func(n ast.Node) bool {
			call, ok := n.(*ast.CallExpr)
			if !ok {
				return true
			}
			if f, ok := typeutil.Callee(info, call).(*types.Func); ok {
				q := load.QualName(f)
				if base(q) {
					direct[fn.Name] = true
				}
				if w.P.FuncOf(f) != nil {
					calls[fn.Name] = append(calls[fn.Name], w.P.FuncOf(f).Name)
				}
			}
			return true
		})
	}
	for changed := true; changed; {
		changed = false
		for f, cs := range calls {
			if direct[f] {
				continue
			}
			for _, c := range cs {
				if direct[c] {
					direct[f] = true
					changed = true
					break
				}
			}
		}
	}
	return direct
}

// LoopInfo describes a loop over a slice-typed variable.
type LoopInfo struct {
	Stmt     ast.Stmt // *ast.ForStmt or *ast.RangeStmt
	Body     *ast.BlockStmt
	Over     types.Object // the slice being iterated
	OverExpr ast.Expr
	Pos      token.Pos
}

// SliceLoops finds `for range X` and `for i := ..; i < len(X); ..` loops where X is a variable of
// slice type (parameter or local); closures excluded.
func SliceLoops(body *ast.BlockStmt, info *types.Info) []*LoopInfo {
	var out []*LoopInfo
	sliceVar := func(e ast.Expr) types.Object {
		id, ok := ast.Unparen(e).(*ast.Ident)
		if !ok {
			return nil
		}
		o := info.ObjectOf(id)
		if o == nil {
			return nil
		}
		if _, ok := o.Type().Underlying().(*types.Slice); !ok {
			return nil
		}
		return o
	}
	ast.Inspect(body, func(n ast.Node) bool {
		switch x := n.(type) {
		case *ast.FuncLit:
			return false
		case *ast.RangeStmt:
			if o := sliceVar(x.X); o != nil {
				out = append(out, &LoopInfo{Stmt: x, Body: x.Body, Over: o, OverExpr: x.X, Pos: x.For})
			}
		case *ast.ForStmt:
			if x.Cond == nil {
				return true
			}
			// i < len(X) (possibly i+1 < len(X))
			var over types.Object
			var oe ast.Expr
			ast.Inspect(x.Cond, func(c ast.Node) bool {
				call, ok := c.(*ast.CallExpr)
				if !ok || len(call.Args) != 1 {
					return true
				}
				if id, ok := call.Fun.(*ast.Ident); ok && id.Name == "len" {
					if o := sliceVar(call.Args[0]); o != nil {
						over, oe = o, call.Args[0]
					}
				}
				return true
			})
			if over != nil {
				out = append(out, &LoopInfo{Stmt: x, Body: x.Body, Over: over, OverExpr: oe, Pos: x.For})
			}
		}
		return true
	})
	return out
}

// CallsIn lists the qualified callee names of the calls inside a node (closures included: they run
// as part of the loop body when invoked there).
func CallsIn(n ast.Node, info *types.Info, p *load.Program) []string {
	var out []string
	ast.Inspect(n, func(c ast.Node) bool {
		call, ok := c.(*ast.CallExpr)
		if !ok {
			return true
		}
		if f, ok := typeutil.Callee(info, call).(*types.Func); ok {
			if src := p.FuncOf(f); src != nil {
				out = append(out, src.Name)
			} else {
				out = append(out, load.QualName(f))
			}
		}
		return true
	})
	return out
}

// Accumulators returns the integer locals declared outside the loop that the loop body increments
// or adds to.
func Accumulators(loop *LoopInfo, info *types.Info) []types.Object {
	seen := map[types.Object]bool{}
	var out []types.Object
	add := func(e ast.Expr) {
		id, ok := ast.Unparen(e).(*ast.Ident)
		if !ok {
			return
		}
		o := info.ObjectOf(id)
		v, ok := o.(*types.Var)
		if !ok || v.IsField() {
			return
		}
		if b, ok := v.Type().Underlying().(*types.Basic); !ok || b.Info()&types.IsInteger == 0 {
			return
		}
		if loop.Stmt.Pos() <= v.Pos() && v.Pos() < loop.Stmt.End() {
			return // declared inside the loop (induction variable, temporaries)
		}
		if !seen[o] {
			seen[o] = true
			out = append(out, o)
		}
	}
	ast.Inspect(loop.Body, func(n ast.Node) bool {
		switch x := n.(type) {
		case *ast.IncDecStmt:
			if x.Tok == token.INC || x.Tok == token.DEC {
				add(x.X)
			}
		case *ast.AssignStmt:
			if x.Tok == token.ADD_ASSIGN || x.Tok == token.SUB_ASSIGN {
				for _, l := range x.Lhs {
					add(l)
				}
			}
		}
		return true
	})
	sort.Slice(out, func(i, j int) bool { return out[i].Pos() < out[j].Pos() })
	return out
}

// UsedAfter reports how a variable is used after the loop inside the function body: as an argument
// of a call (callee names returned) or in a return statement.
func UsedAfter(v types.Object, after token.Pos, body *ast.BlockStmt, info *types.Info) (callees []string, returned bool) {
	mentions := func(n ast.Node) bool {
		found := false
		ast.Inspect(n, func(c ast.Node) bool {
			if id, ok := c.(*ast.Ident); ok && info.ObjectOf(id) == v {
				found = true
			}
			return !found
		})
		return found
	}
	ast.Inspect(body, func(n ast.Node) bool {
		if n == nil || n.End() <= after {
			return n != nil && n.End() > after || n == body
		}
		switch x := n.(type) {
		case *ast.CallExpr:
			if x.Pos() < after {
				return true
			}
			for _, a := range x.Args {
				if mentions(a) {
					if f, ok := typeutil.Callee(info, x).(*types.Func); ok {
						callees = append(callees, load.QualName(f))
					}
				}
			}
		case *ast.ReturnStmt:
			if x.Pos() >= after {
				for _, r := range x.Results {
					if mentions(r) {
						returned = true
					}
				}
			}
		}
		return true
	})
	return
}

// HasDedupe looks for the "seen" idiom inside a loop body: a map whose key expression mentions the
// loop element (an index into the iterated slice, or the range value variable) is tested for
// membership (comma-ok lookup or lookup compared/branched on) and updated.
func HasDedupe(loop *LoopInfo, info *types.Info) bool {
	elemVars := map[types.Object]bool{}
	if rs, ok := loop.Stmt.(*ast.RangeStmt); ok && rs.Value != nil {
		if id, ok := rs.Value.(*ast.Ident); ok {
			elemVars[info.ObjectOf(id)] = true
		}
	}
	// locals assigned from the element inside the body count as the element too (member := args[i].Member)
	mentionsElem := func(e ast.Node) bool {
		found := false
		ast.Inspect(e, func(c ast.Node) bool {
			switch x := c.(type) {
			case *ast.Ident:
				if elemVars[info.ObjectOf(x)] {
					found = true
				}
			case *ast.IndexExpr:
				if id, ok := ast.Unparen(x.X).(*ast.Ident); ok && info.ObjectOf(id) == loop.Over {
					found = true
				}
			}
			return !found
		})
		return found
	}
	for changed := true; changed; {
		changed = false
		ast.Inspect(loop.Body, func(n ast.Node) bool {
			as, ok := n.(*ast.AssignStmt)
			if !ok || len(as.Lhs) != len(as.Rhs) {
				return true
			}
			for i, l := range as.Lhs {
				id, ok := l.(*ast.Ident)
				if !ok {
					continue
				}
				o := info.ObjectOf(id)
				if o != nil && !elemVars[o] && mentionsElem(as.Rhs[i]) {
					elemVars[o] = true
					changed = true
				}
			}
			return true
		})
	}
	lookups := map[types.Object]bool{}
	inserts := map[types.Object]bool{}
	mapOf := func(ix *ast.IndexExpr) types.Object {
		id, ok := ast.Unparen(ix.X).(*ast.Ident)
		if !ok {
			return nil
		}
		o := info.ObjectOf(id)
		if o == nil {
			return nil
		}
		if _, ok := o.Type().Underlying().(*types.Map); !ok {
			return nil
		}
		if !mentionsElem(ix.Index) {
			return nil
		}
		return o
	}
	ast.Inspect(loop.Body, func(n ast.Node) bool {
		switch x := n.(type) {
		case *ast.AssignStmt:
			for _, l := range x.Lhs {
				if ix, ok := l.(*ast.IndexExpr); ok {
					if m := mapOf(ix); m != nil {
						inserts[m] = true
					}
				}
			}
			for _, r := range x.Rhs {
				if ix, ok := ast.Unparen(r).(*ast.IndexExpr); ok {
					if m := mapOf(ix); m != nil {
						lookups[m] = true
					}
				}
			}
		case *ast.IfStmt:
			ast.Inspect(x.Cond, func(c ast.Node) bool {
				if ix, ok := c.(*ast.IndexExpr); ok {
					if m := mapOf(ix); m != nil {
						lookups[m] = true
					}
				}
				return true
			})
		}
		return true
	})
	for m := range lookups {
		if inserts[m] {
			return true
		}
	}
	return false
}

// IsDedupeHelper: the function takes a slice and returns a slice of the same type, and its body keeps
// a map keyed by the elements of that parameter which is both updated and consulted (the shape of
// "keep one occurrence of each element").
func (w *World) IsDedupeHelper(fn *load.Func) bool {
	if fn == nil || fn.Decl.Body == nil {
		return false
	}
	info := fn.Pkg.TypesInfo
	sig := fn.Obj.Type().(*types.Signature)
	if sig.Results().Len() < 1 || sig.Params().Len() < 1 {
		return false
	}
	if !types.Identical(sig.Results().At(0).Type(), sig.Params().At(0).Type()) {
		return false
	}
	param := sig.Params().At(0)
	if _, ok := param.Type().Underlying().(*types.Slice); !ok {
		return false
	}
	elemVars := map[types.Object]bool{}
	mentionsElem := func(e ast.Node) bool {
		found := false
		ast.Inspect(e, func(c ast.Node) bool {
			switch x := c.(type) {
			case *ast.Ident:
				if elemVars[info.ObjectOf(x)] {
					found = true
				}
			case *ast.IndexExpr:
				if id, ok := ast.Unparen(x.X).(*ast.Ident); ok && info.ObjectOf(id) == param {
					found = true
				}
			}
			return !found
		})
		return found
	}
	ast.Inspect(fn.Decl.Body, func(n ast.Node) bool {
		if rs, ok := n.(*ast.RangeStmt); ok && rs.Value != nil {
			if id, ok := ast.Unparen(rs.X).(*ast.Ident); ok && info.ObjectOf(id) == param {
				if v, ok := rs.Value.(*ast.Ident); ok {
					elemVars[info.ObjectOf(v)] = true
				}
			}
		}
		return true
	})
	lookups, inserts := map[types.Object]bool{}, map[types.Object]bool{}
	mapOf := func(ix *ast.IndexExpr) types.Object {
		id, ok := ast.Unparen(ix.X).(*ast.Ident)
		if !ok {
			return nil
		}
		o := info.ObjectOf(id)
		if o == nil {
			return nil
		}
		if _, ok := o.Type().Underlying().(*types.Map); !ok || !mentionsElem(ix.Index) {
			return nil
		}
		return o
	}
	ast.Inspect(fn.Decl.Body, func(n ast.Node) bool {
		switch x := n.(type) {
		case *ast.AssignStmt:
			lhs := map[ast.Expr]bool{}
			for _, l := range x.Lhs {
				if ix, ok := l.(*ast.IndexExpr); ok {
					if m := mapOf(ix); m != nil {
						inserts[m] = true
						lhs[ix] = true
					}
				}
			}
			for _, r := range x.Rhs {
				ast.Inspect(r, func(c ast.Node) bool {
					if ix, ok := c.(*ast.IndexExpr); ok {
						if m := mapOf(ix); m != nil {
							lookups[m] = true
						}
					}
					return true
				})
			}
		case *ast.IfStmt:
			ast.Inspect(x.Cond, func(c ast.Node) bool {
				if ix, ok := c.(*ast.IndexExpr); ok {
					if m := mapOf(ix); m != nil {
						lookups[m] = true
					}
				}
				return true
			})
		}
		return true
	})
	for m := range lookups {
		if inserts[m] {
			return true
		}
	}
	return false
}

// DedupedAtEntry: the iterated slice variable is (re)assigned, before the loop, from a call to a
// dedupe helper applied to it or to a parameter.
func (w *World) DedupedBefore(fn *load.Func, loop *LoopInfo) bool {
	info := fn.Pkg.TypesInfo
	ok := false
	ast.Inspect(fn.Decl.Body, func(n ast.Node) bool {
		as, isAs := n.(*ast.AssignStmt)
		if !isAs || as.Pos() >= loop.Pos {
			return true
		}
		for i, l := range as.Lhs {
			id, isID := l.(*ast.Ident)
			if !isID || info.ObjectOf(id) != loop.Over || i >= len(as.Rhs) {
				continue
			}
			if call, isCall := ast.Unparen(as.Rhs[i]).(*ast.CallExpr); isCall {
				if f, isF := typeutil.Callee(info, call).(*types.Func); isF && w.IsDedupeHelper(w.P.FuncOf(f)) {
					ok = true
				}
			}
		}
		return true
	})
	return ok
}

var _ = strings.Contains
