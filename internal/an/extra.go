package an

import (
	"fmt"
	"go/ast"
	"go/types"
	"strings"

	"verif/internal/flow"
)

// LocalStore matches assignments to the local variable with the given source name.
func LocalStore(name string) M {
	return M{kind: flow.SStore, index: -1, desc: "assignment to local " + name}.Where("", func(u *Unit, s *flow.Site) bool {
		id, ok := ast.Unparen(s.LHS).(*ast.Ident)
		if !ok {
			return false
		}
		if b := u.C.BaseName(u.Info().ObjectOf(id)); b != "" {
			if b != name {
				return false
			}
		} else if id.Name != name {
			return false
		}
		v, isVar := u.Info().ObjectOf(id).(*types.Var)
		return isVar && !v.IsField() && v.Pkg() != nil && v.Parent() != v.Pkg().Scope()
	})
}

// StoreValues: every site matching m stores one of the allowed canonical values.
func (r *Report) StoreValues(rule string, u *Unit, m M, allowed []string, min int) {
	sites := u.Match(m)
	if min > 0 {
		r.Min(rule, len(sites), min, u.Name+": "+m.Desc())
	}
	for _, s := range sites {
		got := "<inc/dec>"
		if s.RHS != nil {
			got = u.C.Term(s.RHS)
		} else if s.Tuple != nil {
			got = fmt.Sprintf("TUPLE %s #%d", u.C.Term(s.Tuple), s.TupleIdx)
		}
		ok := false
		for _, a := range allowed {
			if a == got || flowGlob(a, got) {
				ok = true
			}
		}
		construct := fmt.Sprintf("%s: %s stores one of {%s}", u.Name, m.Desc(), strings.Join(allowed, " ; "))
		r.Check(rule, construct, u.Pos(s.Pos), ok, "stored value: "+got)
	}
}

func flowGlob(pat, s string) bool {
	if !strings.Contains(pat, "_") {
		return false
	}
	// reuse the rule-formula wildcard: compare as atoms
	g := flow.AtomKey(pat)
	pc := flow.AtomKey(s)
	out, bad := flow.Unify(g, pc)
	return bad == "" && out.Key == s
}

type Dir int

const (
	Equiv       Dir = iota
	ActualImpliesWant     // the code's formula may be stronger
	WantImpliesActual     // the code's formula may be weaker
)

// ReturnFormula: the function has exactly one return statement with one boolean result whose
// formula relates to want as requested.
func (r *Report) ReturnFormula(rule string, u *Unit, want string, dir Dir) {
	construct := fmt.Sprintf("%s: returned condition vs %s", u.Name, want)
	var rets []*flow.Site
	for _, s := range u.Sites {
		if s.Kind == flow.SReturn && s.Block.Reachable() {
			rets = append(rets, s)
		}
	}
	var got *flow.F
	if len(rets) == 1 && len(rets[0].Ret.Results) == 1 {
		got = u.C.Formula(flow.FromExpr(rets[0].Ret.Results[0]))
	} else {
		// guard clauses, nested ifs: the condition under which true is returned
		var why string
		if got, why = u.TruthFormula(); got == nil {
			r.Unknown(rule, construct, "", fmt.Sprintf("%d return(s): %s", len(rets), why))
			return
		}
	}
	w := u.W.Parse(want)
	ok, detail := true, "returned: "+got.String()
	if dir == Equiv || dir == ActualImpliesWant {
		if res := flow.Implies(got, w); !res.Holds || res.Undecided != "" {
			ok = false
			detail += "; returned condition does not imply the expected one; row: " + counterString(res.Counter) + res.Undecided
		}
	}
	if dir == Equiv || dir == WantImpliesActual {
		if res := flow.Implies(w, got); !res.Holds || res.Undecided != "" {
			ok = false
			detail += "; expected condition does not imply the returned one; row: " + counterString(res.Counter) + res.Undecided
		}
	}
	r.Check(rule, construct, u.Pos(rets[0].Pos), ok, detail)
}

// ReturnTerm: the single return's i-th result prints as one of the allowed canonical terms.
func (r *Report) ReturnTerm(rule string, u *Unit, idx int, allowed ...string) {
	construct := fmt.Sprintf("%s: returns %s", u.Name, strings.Join(allowed, " | "))
	n := 0
	for _, s := range u.Sites {
		if s.Kind != flow.SReturn || !s.Block.Reachable() {
			continue
		}
		n++
		if idx >= len(s.Ret.Results) {
			r.Unknown(rule, construct, u.Pos(s.Pos), "return has too few results")
			continue
		}
		got := u.C.Term(s.Ret.Results[idx])
		ok := false
		for _, a := range allowed {
			if a == got {
				ok = true
			}
		}
		r.Check(rule, construct, u.Pos(s.Pos), ok, "returned: "+got)
	}
	if n == 0 {
		r.Unknown(rule, construct, "", "no return statement")
	}
}

// ReturnClass describes one accepted shape of a return statement.
type ReturnClass struct {
	Name   string
	Match  func(u *Unit, s *flow.Site) bool
	Guard  string // required path condition ("" = none)
}

// LastResultCall: the last result is a call to one of the callees.
func LastResultCall(names ...string) func(u *Unit, s *flow.Site) bool {
	return func(u *Unit, s *flow.Site) bool {
		if len(s.Ret.Results) == 0 {
			return false
		}
		call, ok := ast.Unparen(s.Ret.Results[len(s.Ret.Results)-1]).(*ast.CallExpr)
		if !ok {
			return false
		}
		for _, cs := range u.Sites {
			if cs.Kind == flow.SCall && cs.Call == call {
				for _, n := range names {
					if globOK(n, CalleeName(cs)) {
						return true
					}
				}
			}
		}
		return false
	}
}

func LastResultNil(u *Unit, s *flow.Site) bool {
	if len(s.Ret.Results) == 0 {
		return true
	}
	id, ok := ast.Unparen(s.Ret.Results[len(s.Ret.Results)-1]).(*ast.Ident)
	return ok && id.Name == "nil"
}

func ErrorReturn(u *Unit, s *flow.Site) bool { return u.isErrorReturn(s) }

// Returns: every return of u falls in one of the classes (first match wins) and satisfies its guard.
func (r *Report) Returns(rule string, u *Unit, classes []ReturnClass, min int) {
	n := 0
	for _, s := range u.Sites {
		if s.Kind != flow.SReturn || !s.Block.Reachable() {
			continue
		}
		n++
		matched := false
		for _, c := range classes {
			if !c.Match(u, s) {
				continue
			}
			matched = true
			construct := fmt.Sprintf("%s: return [%s]", u.Name, c.Name)
			if c.Guard == "" {
				r.Ok(rule, construct, u.Pos(s.Pos), u.SiteString(s))
			} else {
				r.GuardSite(rule, u, s, u.W.Parse(c.Guard), c.Guard)
			}
			break
		}
		if !matched {
			r.Bad(rule, fmt.Sprintf("%s: return of unrecognised shape", u.Name), u.Pos(s.Pos), u.SiteString(s)+"; pc = "+u.SitePC(s).String())
		}
	}
	r.Min(rule, n, max(min, 1), u.Name+": return statements")
}

// ArgTerm returns the canonical term of the i-th argument of a call site.
func (u *Unit) ArgTerm(s *flow.Site, i int) string {
	if s.Call == nil || i >= len(s.Call.Args) {
		return "<none>"
	}
	return u.C.Term(s.Call.Args[i])
}

// ArgValues: the i-th argument of every call matching m is one of the allowed canonical terms.
func (r *Report) ArgValues(rule string, u *Unit, m M, i int, allowed []string, min int) {
	sites := u.Match(m)
	r.Min(rule, len(sites), max(min, 1), u.Name+": "+m.Desc())
	for _, s := range sites {
		got := u.ArgTerm(s, i)
		ok := false
		for _, a := range allowed {
			if a == got || flowGlob(a, got) {
				ok = true
			}
		}
		r.Check(rule, fmt.Sprintf("%s: argument %d of %s is one of {%s}", u.Name, i, m.Desc(), strings.Join(allowed, " ; ")), u.Pos(s.Pos), ok, "argument: "+got)
	}
}

// Require: the unit must contain at least one site matching m (a required effect). Its absence is a
// violation of the rule, not a broken anchor: the function resolved, the effect is gone.
func (r *Report) Require(rule string, u *Unit, m M, why string) bool {
	n := len(u.Match(m))
	r.Check(rule, fmt.Sprintf("%s: contains %s", u.Name, m.Desc()), "", n > 0, why)
	return n > 0
}
