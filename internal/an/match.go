package an

import (
	"go/ast"
	"path"
	"strings"

	"verif/internal/flow"
)

// M selects sites inside one unit.
type M struct {
	kind    flow.SiteKind
	callees []string // qualified callee names; path.Match globs allowed
	field   string   // qualified field name for stores
	index   int      // stores: -1 any, 0 plain field store, 1 element store base[i] = v
	term    string   // glob on the canonical channel / LHS term
	desc    string
	pred    func(u *Unit, s *flow.Site) bool
	incDefer bool
	succ     *Success // ORDER/FOLLOW: evidence required for this alternative (overrides the rule default)
}

// Ok requires, when the matcher is used as a predecessor, that the call's result was tested as given.
func (m M) Ok(s Success) M {
	m.succ = &s
	switch s {
	case NilErr:
		m.desc += " (error result tested nil)"
	case IsTrue:
		m.desc += " (result tested true)"
	case IsFalse:
		m.desc += " (result tested false)"
	}
	return m
}

func (m M) Desc() string { return m.desc }

// Call matches calls (not deferred, not `go`) to any of the named callees.
func Call(names ...string) M {
	return M{kind: flow.SCall, callees: names, desc: "call " + strings.Join(names, "|")}
}

// AnyCall matches calls including deferred and go calls.
func AnyCall(names ...string) M {
	m := Call(names...)
	m.incDefer = true
	return m
}

// DynCall matches a dynamic call whose function expression has the given canonical term (glob).
func DynCall(term string) M {
	return M{kind: flow.SCall, term: term, desc: "dynamic call " + term}
}

func Store(field string) M {
	return M{kind: flow.SStore, field: field, index: -1, desc: "store " + field}
}
func StorePlain(field string) M {
	return M{kind: flow.SStore, field: field, index: 0, desc: "store " + field}
}
func StoreElem(field string) M {
	return M{kind: flow.SStore, field: field, index: 1, desc: "element store " + field + "[..]"}
}
func StoreTerm(glob string) M {
	return M{kind: flow.SStore, term: glob, index: -1, desc: "store to " + glob}
}
func Send(chanGlob string) M { return M{kind: flow.SSend, term: chanGlob, desc: "send on " + chanGlob} }
func Recv(chanGlob string) M { return M{kind: flow.SRecv, term: chanGlob, desc: "receive from " + chanGlob} }
// Range matches the per-iteration head of range statements.
func (M) Range() M { return M{kind: flow.SRange, desc: "range statement"} }

func Return() M             { return M{kind: flow.SReturn, desc: "return"} }

// Edge is a pseudo-site usable as an ORDER predecessor: a branch edge whose condition (as evaluated
// when the branch was taken) implies the formula.
func Edge(formula string) M { return M{kind: edgeKind, term: formula, desc: "branch where " + formula} }

const edgeKind flow.SiteKind = 100

func (m M) Where(desc string, p func(u *Unit, s *flow.Site) bool) M {
	old := m.pred
	m.pred = func(u *Unit, s *flow.Site) bool { return (old == nil || old(u, s)) && p(u, s) }
	m.desc += " where " + desc
	return m
}

func globOK(pat, s string) bool {
	if pat == s {
		return true
	}
	if strings.ContainsAny(pat, "*?[") {
		ok, _ := path.Match(pat, s)
		return ok
	}
	return false
}

// termGlob: `_` wildcard as in rule formulas plus '*' globbing without the '/' restriction.
func termGlob(pat, s string) bool {
	if pat == s {
		return true
	}
	if strings.Contains(pat, "*") {
		parts := strings.Split(pat, "*")
		pos := 0
		for i, p := range parts {
			j := strings.Index(s[pos:], p)
			if j < 0 || (i == 0 && j != 0) {
				return false
			}
			pos += j + len(p)
		}
		return strings.HasSuffix(pat, "*") || pos == len(s)
	}
	return false
}

func (u *Unit) matches(m M, s *flow.Site) bool {
	if s.Kind != m.kind {
		return false
	}
	if !s.Block.Reachable() {
		return false
	}
	switch m.kind {
	case flow.SCall:
		if (s.Deferred || s.Go) && !m.incDefer {
			return false
		}
		if len(m.callees) > 0 {
			n := CalleeName(s)
			ok := false
			for _, c := range m.callees {
				if globOK(c, n) {
					ok = true
					break
				}
			}
			if !ok {
				return false
			}
		}
		if m.term != "" {
			if s.Callee != nil || s.Builtin != "" {
				return false
			}
			if !termGlob(m.term, u.C.Term(s.Call.Fun)) {
				return false
			}
		}
	case flow.SStore:
		if m.field != "" {
			if s.Field == nil || u.W.FieldNames[s.Field] != m.field {
				return false
			}
			if m.index == 0 && s.Index || m.index == 1 && !s.Index {
				return false
			}
		}
		if m.term != "" && !termGlob(m.term, u.C.Term(s.LHS)) {
			return false
		}
	case flow.SSend, flow.SRecv:
		if m.term != "" && !termGlob(m.term, u.C.Term(s.Chan)) {
			return false
		}
	}
	if m.pred != nil && !m.pred(u, s) {
		return false
	}
	return true
}

// Match lists the reachable sites of the unit selected by m, in source order.
func (u *Unit) Match(m M) []*flow.Site {
	var out []*flow.Site
	for _, s := range u.Sites {
		if u.matches(m, s) {
			out = append(out, s)
		}
	}
	return out
}

// SiteString renders a site for reports.
func (u *Unit) SiteString(s *flow.Site) string {
	switch s.Kind {
	case flow.SCall:
		n := CalleeName(s)
		if n == "" || n == "." {
			n = "dyn:" + u.C.Term(s.Call.Fun)
		}
		pre := ""
		if s.Deferred {
			pre = "defer "
		}
		if s.Go {
			pre = "go "
		}
		return pre + "call " + n
	case flow.SStore:
		f := ""
		if s.Field != nil {
			f = " [" + u.W.FieldNames[s.Field] + "]"
		}
		r := ""
		if s.RHS != nil {
			r = " = " + u.C.Term(s.RHS)
		}
		l := u.C.Term(s.LHS)
		if id, ok := s.LHS.(*ast.Ident); ok {
			l = id.Name
		}
		return "store " + l + f + r
	case flow.SSend:
		return "send " + u.C.Term(s.Chan)
	case flow.SRecv:
		return "recv " + u.C.Term(s.Chan)
	case flow.SReturn:
		var rs []string
		for _, r := range s.Ret.Results {
			rs = append(rs, u.C.Term(r))
		}
		return "return " + strings.Join(rs, ", ")
	case flow.SRange:
		return "range " + u.C.Term(s.Rng.X)
	}
	return "?"
}

var _ = ast.Inspect
