package an

import "go/token"

const tokEQL = token.EQL
