package an

import (
	"fmt"
	"go/ast"
	"go/token"
	"go/types"
	"sort"
	"strings"

	"golang.org/x/tools/go/types/typeutil"

	"verif/internal/flow"
	"verif/internal/load"
)

// Dep is a dependence set: bit 0 = a nondeterminism source (local clock, random numbers, process
// identity); bit 1 = the receiver; bit 2+i = parameter i of the function being summarised.
type Dep uint64

const SRC Dep = 1

func paramBit(i int) Dep {
	if i+2 >= 63 {
		return 0
	}
	return 1 << uint(i+2)
}

const recvBit Dep = 2

// FnSummary is the context-independent effect of a function, relative to its own parameters.
type FnSummary struct {
	Res     []Dep  // what each result depends on
	Sink    Dep    // dependences that reach stored data / a decision controlling a store, inside the function or its callees
	Writes  bool   // puts something into a write batch (transitively)
	SinkWhy string // how SRC got into Sink (first witness)
	ResWhy  string // how SRC got into a result (first witness)
}

// ClockFlow computes summaries for the module functions reachable from the given entry units.
type ClockFlow struct {
	W        *World
	Sum      map[string]*FnSummary
	FieldSRC map[*types.Var]string // fields that were assigned a SRC-dependent value, with witness
	Cuts     []string              // go statements not followed
	Sources  map[string]bool       // source call sites seen ("fn at pos")
	Skip     map[string]string     // functions not followed, with the reason
	reach    map[string]*Unit
	impls    map[string][]string // interface method qualified name -> implementing module methods
	changed  bool
}

// IsSource: calls whose result differs between replicas / executions.
func IsSource(q string) bool {
	switch q {
	case "time.Now", "time.Since", "time.Until", "os.Getpid", "os.Hostname", "os.Getppid", "runtime.NumGoroutine", "time.Time.Sub":
		return q != "time.Time.Sub"
	}
	return strings.HasPrefix(q, "math/rand.") || strings.HasPrefix(q, "crypto/rand.")
}

func isSinkCall(q string) bool {
	switch q {
	case "engine.WriteBatch.Put", "engine.WriteBatch.Delete", "engine.WriteBatch.Merge", "engine.WriteBatch.DeleteRange":
		return true
	}
	return false
}

func (cf *ClockFlow) sum(name string) *FnSummary {
	s := cf.Sum[name]
	if s == nil {
		s = &FnSummary{}
		cf.Sum[name] = s
	}
	return s
}

// implementations of an interface method among module types
func (cf *ClockFlow) implsOf(f *types.Func) []string {
	q := load.QualName(f)
	if v, ok := cf.impls[q]; ok {
		return v
	}
	var out []string
	sig := f.Type().(*types.Signature)
	if sig.Recv() != nil {
		if iface, ok := sig.Recv().Type().Underlying().(*types.Interface); ok {
			for _, pkg := range cf.W.P.Pkgs {
				sc := pkg.Types.Scope()
				for _, n := range sc.Names() {
					tn, ok := sc.Lookup(n).(*types.TypeName)
					if !ok {
						continue
					}
					for _, t := range []types.Type{tn.Type(), types.NewPointer(tn.Type())} {
						if _, isIface := tn.Type().Underlying().(*types.Interface); isIface {
							continue
						}
						if types.Implements(t, iface) {
							ms := types.NewMethodSet(t)
							if sel := ms.Lookup(f.Pkg(), f.Name()); sel != nil {
								if m, ok := sel.Obj().(*types.Func); ok {
									if src := cf.W.P.FuncOf(m); src != nil {
										out = append(out, src.Name)
									}
								}
							}
						}
					}
				}
			}
		}
	}
	out = uniqSorted(out)
	cf.impls[q] = out
	return out
}

// Run analyses the entry units and everything they reach to a fixpoint.
func (cf *ClockFlow) Run(entries []*Unit) {
	cf.Sum = map[string]*FnSummary{}
	cf.FieldSRC = map[*types.Var]string{}
	cf.Sources = map[string]bool{}
	cf.reach = map[string]*Unit{}
	cf.impls = map[string][]string{}
	var order []string
	var visit func(u *Unit)
	visit = func(u *Unit) {
		if u == nil || cf.reach[u.Name] != nil {
			return
		}
		cf.reach[u.Name] = u
		for _, s := range u.allCallSites() {
			if s.Go {
				cf.Cuts = append(cf.Cuts, u.Name+" at "+u.Pos(s.Pos))
				continue
			}
			for _, callee := range cf.calleesOf(s) {
				cu, err := cf.W.Unit(callee)
				if err == nil {
					visit(cu)
				}
			}
		}
		order = append(order, u.Name) // post-order: callees first
	}
	for _, e := range entries {
		visit(e)
	}
	for iter := 0; iter < 30; iter++ {
		cf.changed = false
		for _, name := range order {
			cf.analyse(cf.reach[name])
		}
		if !cf.changed {
			break
		}
	}
	cf.Cuts = uniqSorted(cf.Cuts)
}

func (cf *ClockFlow) Reached() int { return len(cf.reach) }

// allCallSites: call sites of the unit and of the function literals nested in it.
func (u *Unit) allCallSites() []*flow.Site {
	var out []*flow.Site
	for _, uu := range append([]*Unit{u}, u.Lits()...) {
		for _, s := range uu.Sites {
			if s.Kind == flow.SCall {
				out = append(out, s)
			}
		}
	}
	return out
}

func (cf *ClockFlow) calleesOf(s *flow.Site) []string {
	if s.Callee == nil {
		return nil
	}
	var out []string
	if src := cf.W.P.FuncOf(s.Callee); src != nil && src.Decl.Body != nil {
		out = []string{src.Name}
	} else {
		out = cf.implsOf(s.Callee)
	}
	var kept []string
	for _, n := range out {
		if _, skip := cf.Skip[n]; !skip {
			kept = append(kept, n)
		}
	}
	return kept
}

type fnState struct {
	cf   *ClockFlow
	u    *Unit // the declared function
	cur  *Unit // the unit (function or literal) whose statements are being visited
	vars map[types.Object]Dep
	sum  *FnSummary
}

func (st *fnState) info() *types.Info { return st.u.Info() }

func (st *fnState) rootVar(e ast.Expr) types.Object {
	for {
		e = ast.Unparen(e)
		switch x := e.(type) {
		case *ast.Ident:
			return st.info().ObjectOf(x)
		case *ast.SelectorExpr:
			if id, ok := x.X.(*ast.Ident); ok {
				if _, isPkg := st.info().ObjectOf(id).(*types.PkgName); isPkg {
					return st.info().ObjectOf(x.Sel)
				}
			}
			e = x.X
		case *ast.IndexExpr:
			e = x.X
		case *ast.StarExpr:
			e = x.X
		case *ast.SliceExpr:
			e = x.X
		case *ast.CallExpr, *ast.TypeAssertExpr:
			return nil
		default:
			return nil
		}
	}
}

// deps of an expression under the current variable facts.
func (st *fnState) deps(e ast.Expr) Dep {
	if e == nil {
		return 0
	}
	info := st.info()
	var d Dep
	switch x := ast.Unparen(e).(type) {
	case *ast.Ident:
		if o := info.ObjectOf(x); o != nil {
			d |= st.vars[o]
		}
	case *ast.SelectorExpr:
		if sel := info.Selections[x]; sel != nil {
			if sel.Kind() == types.FieldVal {
				if f, ok := sel.Obj().(*types.Var); ok {
					if _, t := st.cf.FieldSRC[f]; t {
						d |= SRC
					}
				}
			}
			d |= st.deps(x.X)
		} else if o := info.ObjectOf(x.Sel); o != nil {
			d |= st.vars[o] // package-level variable
		}
	case *ast.CallExpr:
		rs := st.call(x, 0)
		for _, r := range rs {
			d |= r
		}
	case *ast.BinaryExpr:
		d |= st.deps(x.X) | st.deps(x.Y)
	case *ast.UnaryExpr:
		d |= st.deps(x.X)
	case *ast.StarExpr:
		d |= st.deps(x.X)
	case *ast.IndexExpr:
		d |= st.deps(x.X) | st.deps(x.Index)
	case *ast.SliceExpr:
		d |= st.deps(x.X) | st.deps(x.Low) | st.deps(x.High) | st.deps(x.Max)
	case *ast.TypeAssertExpr:
		d |= st.deps(x.X)
	case *ast.CompositeLit:
		for _, el := range x.Elts {
			if kv, ok := el.(*ast.KeyValueExpr); ok {
				d |= st.deps(kv.Value)
			} else {
				d |= st.deps(el)
			}
		}
	case *ast.KeyValueExpr:
		d |= st.deps(x.Value)
	case *ast.FuncLit:
		// a closure value: what it captures is handled when its body is visited
	}
	return d
}

// call evaluates a call expression: returns the dependences of its results and records sink effects.
func (st *fnState) call(x *ast.CallExpr, region Dep) []Dep {
	info := st.info()
	if tv, ok := info.Types[x.Fun]; ok && tv.IsType() {
		if len(x.Args) == 1 {
			return []Dep{st.deps(x.Args[0])}
		}
		return []Dep{0}
	}
	var argd []Dep
	var all Dep
	for _, a := range x.Args {
		d := st.deps(a)
		argd = append(argd, d)
		all |= d
	}
	var recv Dep
	if se, ok := ast.Unparen(x.Fun).(*ast.SelectorExpr); ok {
		if sel := info.Selections[se]; sel != nil {
			recv = st.deps(se.X)
		}
	}
	nres := 1
	if t, ok := info.TypeOf(x).(*types.Tuple); ok {
		nres = t.Len()
	}
	out := make([]Dep, nres)
	callee := typeutil.Callee(info, x)
	f, _ := callee.(*types.Func)
	if f == nil {
		// builtin or dynamic call: results depend on the arguments (and the function value)
		d := all | st.deps(x.Fun)
		if b, ok := callee.(*types.Builtin); ok && (b.Name() == "len" || b.Name() == "cap") {
			d = all
		}
		for i := range out {
			out[i] = d
		}
		return out
	}
	q := load.QualName(f)
	if IsSource(q) {
		st.cf.Sources[q+" in "+st.u.Name+" at "+st.u.Pos(x.Lparen)] = true
		for i := range out {
			out[i] = SRC | all | recv
		}
		return out
	}
	if isSinkCall(q) {
		d := all | region
		st.addSink(d, fmt.Sprintf("%s(%s) at %s", q, st.u.C.Term(x.Args[0]), st.u.Pos(x.Lparen)))
		st.setWrites()
		return out
	}
	if q == "pkg/wait.Wait.Trigger" && len(x.Args) == 2 {
		// the reply handed to the waiting client
		st.addSink(argd[1]|region, "reply via "+q+" at "+st.u.Pos(x.Lparen))
		return out
	}
	targets := []string{}
	if src := st.cf.W.P.FuncOf(f); src != nil && src.Decl.Body != nil {
		targets = append(targets, src.Name)
	} else {
		targets = st.cf.implsOf(f)
	}
	if len(targets) > 0 {
		var kept []string
		for _, t := range targets {
			if _, skip := st.cf.Skip[t]; !skip {
				kept = append(kept, t)
			}
		}
		if len(kept) == 0 {
			return out // excluded from the analysed scope (listed in the evidence)
		}
		targets = kept
	}
	if len(targets) == 0 {
		// outside the module: results depend on receiver and arguments
		for i := range out {
			out[i] = all | recv
		}
		return out
	}
	sig := f.Type().(*types.Signature)
	mapDep := func(d Dep) Dep {
		var r Dep
		if d&SRC != 0 {
			r |= SRC
		}
		if d&recvBit != 0 {
			r |= recv
		}
		for i := 0; i < sig.Params().Len(); i++ {
			if d&paramBit(i) == 0 {
				continue
			}
			if sig.Variadic() && i == sig.Params().Len()-1 {
				for j := i; j < len(argd); j++ {
					r |= argd[j]
				}
			} else if i < len(argd) {
				r |= argd[i]
			}
		}
		return r
	}
	for _, t := range targets {
		cs := st.cf.Sum[t]
		if cs == nil {
			continue
		}
		for i := range out {
			if i < len(cs.Res) {
				d := mapDep(cs.Res[i])
				if d&SRC != 0 && cs.Res[i]&SRC != 0 && out[i]&SRC == 0 && st.sum.ResWhy == "" {
					// remember the deepest witness for diagnostics
				}
				out[i] |= d
			}
		}
		if cs.Writes {
			st.setWrites()
			if region != 0 {
				st.addSink(region, fmt.Sprintf("decision controlling the write in %s called at %s", t, st.u.Pos(x.Lparen)))
			}
		}
		if cs.Sink != 0 {
			d := mapDep(cs.Sink)
			why := fmt.Sprintf("%s called at %s", t, st.u.Pos(x.Lparen))
			if cs.Sink&SRC != 0 {
				why += " <- " + cs.SinkWhy
			} else {
				why += " (argument reaches: " + cs.SinkWhy + ")"
			}
			st.addSink(d, why)
		}
	}
	return out
}

func (st *fnState) addSink(d Dep, why string) {
	if d&^st.sum.Sink != 0 {
		if d&SRC != 0 && st.sum.Sink&SRC == 0 {
			st.sum.SinkWhy = why
		} else if st.sum.SinkWhy == "" {
			st.sum.SinkWhy = why
		}
		st.sum.Sink |= d
		st.cf.changed = true
	}
}

func (st *fnState) setWrites() {
	if !st.sum.Writes {
		st.sum.Writes = true
		st.cf.changed = true
	}
}

func (st *fnState) assign(lhs ast.Expr, d Dep, why string) {
	lhs = ast.Unparen(lhs)
	if id, ok := lhs.(*ast.Ident); ok && id.Name == "_" {
		return
	}
	root := st.rootVar(lhs)
	if root != nil {
		if d&^st.vars[root] != 0 {
			st.vars[root] |= d
			st.cf.changed = true
		}
	}
	// a SRC-dependent value stored into a field of something that outlives the call
	if d&SRC != 0 {
		if se, ok := lhs.(*ast.SelectorExpr); ok {
			if sel := st.info().Selections[se]; sel != nil && sel.Kind() == types.FieldVal {
				if f, ok := sel.Obj().(*types.Var); ok {
					if _, done := st.cf.FieldSRC[f]; !done {
						st.cf.FieldSRC[f] = why
						st.cf.changed = true
					}
				}
			}
		}
	}
}

// analyse recomputes the summary of one declared function (its literals are visited inline).
func (cf *ClockFlow) analyse(u *Unit) {
	if u == nil || u.Lit != nil {
		return
	}
	sum := cf.sum(u.Name)
	sig := u.Fn.Obj.Type().(*types.Signature)
	if len(sum.Res) != sig.Results().Len() {
		sum.Res = make([]Dep, sig.Results().Len())
	}
	st := &fnState{cf: cf, u: u, vars: map[types.Object]Dep{}, sum: sum}
	if sig.Recv() != nil && u.Fn.Decl.Recv != nil {
		for _, f := range u.Fn.Decl.Recv.List {
			for _, n := range f.Names {
				st.vars[u.Info().ObjectOf(n)] = recvBit
			}
		}
	}
	for i := 0; i < sig.Params().Len(); i++ {
		if o := paramObj(u, i); o != nil {
			st.vars[o] = paramBit(i)
		}
	}
	units := append([]*Unit{u}, u.Lits()...)
	for pass := 0; pass < 8; pass++ {
		before := len(st.vars)
		var total Dep
		for _, v := range st.vars {
			total += v
		}
		for _, cu := range units {
			st.cur = cu
			st.visitUnit(cu, cu == u)
		}
		var after Dep
		for _, v := range st.vars {
			after += v
		}
		if len(st.vars) == before && after == total {
			break
		}
	}
}

// regionDeps: dependences of the branch conditions that control the block.
func (st *fnState) regionDeps(cu *Unit, b *flow.Block) Dep {
	var d Dep
	for _, dom := range cu.G.Dominators(b) {
		if dom.EdgeCond != nil {
			d |= st.formulaDeps(dom.EdgeCond)
		}
		// the body of a range loop runs as often as the ranged value dictates
		if dom.Kind == "range.body" {
			for _, e := range dom.Preds {
				for _, p := range e.From.Preds {
					for _, n := range p.From.Nodes {
						if rh, ok := n.(*flow.RangeHead); ok {
							d |= st.deps(rh.Stmt.X)
						}
					}
				}
			}
		}
	}
	return d
}

func (st *fnState) formulaDeps(f *flow.F) Dep {
	var d Dep
	if f.Op == flow.OpAtom {
		if f.Expr != nil {
			d |= st.deps(f.Expr)
		}
		for _, n := range f.OpqNodes {
			if as, ok := n.(*ast.AssignStmt); ok && len(as.Rhs) == 1 {
				d |= st.deps(as.Rhs[0])
			}
		}
		return d
	}
	for _, k := range f.Kids {
		d |= st.formulaDeps(k)
	}
	return d
}

func (st *fnState) visitUnit(cu *Unit, isDecl bool) {
	info := st.info()
	for _, b := range cu.G.Blocks {
		if !b.Reachable() {
			continue
		}
		region := st.regionDeps(cu, b)
		for _, n := range b.Nodes {
			switch x := n.(type) {
			case *ast.AssignStmt:
				if len(x.Lhs) == len(x.Rhs) {
					for i := range x.Lhs {
						d := st.exprDeps(x.Rhs[i], region) | region
						if x.Tok != token.ASSIGN && x.Tok != token.DEFINE {
							d |= st.deps(x.Lhs[i])
						}
						st.assign(x.Lhs[i], d, st.u.Name+" at "+st.u.Pos(x.Pos()))
					}
				} else if len(x.Rhs) == 1 {
					var rs []Dep
					switch r := ast.Unparen(x.Rhs[0]).(type) {
					case *ast.CallExpr:
						rs = st.call(r, region)
					default:
						d := st.deps(r)
						rs = make([]Dep, len(x.Lhs))
						for i := range rs {
							rs[i] = d
						}
					}
					for i := range x.Lhs {
						var d Dep
						if i < len(rs) {
							d = rs[i]
						}
						st.assign(x.Lhs[i], d|region, st.u.Name+" at "+st.u.Pos(x.Pos()))
					}
				}
			case *ast.ValueSpec:
				for i, id := range x.Names {
					var d Dep
					if len(x.Values) == len(x.Names) {
						d = st.exprDeps(x.Values[i], region)
					} else if len(x.Values) == 1 {
						if c, ok := ast.Unparen(x.Values[0]).(*ast.CallExpr); ok {
							rs := st.call(c, region)
							if i < len(rs) {
								d = rs[i]
							}
						}
					}
					st.assign(id, d|region, st.u.Name+" at "+st.u.Pos(x.Pos()))
				}
			case *ast.IncDecStmt:
				st.assign(x.X, region, "")
			case *ast.ExprStmt:
				st.exprDeps(x.X, region)
			case *ast.SendStmt:
				st.exprDeps(x.Value, region)
			case *ast.DeferStmt:
				st.exprDeps(x.Call, region)
			case *ast.GoStmt:
				// not followed: what a spawned goroutine does is not part of applying the entry
			case *ast.ReturnStmt:
				if !isDecl {
					for _, r := range x.Results {
						st.exprDeps(r, region)
					}
					continue
				}
				if len(x.Results) == len(st.sum.Res) {
					for i, r := range x.Results {
						st.addRes(i, st.exprDeps(r, region)|region, x.Pos())
					}
				} else if len(x.Results) == 1 {
					if c, ok := ast.Unparen(x.Results[0]).(*ast.CallExpr); ok {
						rs := st.call(c, region)
						for i := range st.sum.Res {
							if i < len(rs) {
								st.addRes(i, rs[i]|region, x.Pos())
							}
						}
					}
				} else if len(x.Results) == 0 && st.u.Type.Results != nil {
					i := 0
					for _, f := range st.u.Type.Results.List {
						for _, nm := range f.Names {
							st.addRes(i, st.vars[info.ObjectOf(nm)]|region, x.Pos())
							i++
						}
					}
				}
			case *flow.RangeHead:
				d := st.deps(x.Stmt.X)
				if x.Stmt.Key != nil {
					st.assign(x.Stmt.Key, d|region, "")
				}
				if x.Stmt.Value != nil {
					st.assign(x.Stmt.Value, d|region, "")
				}
			case ast.Expr:
				st.exprDeps(x, region) // a condition: evaluate calls inside it for their effects
			}
		}
	}
}

// exprDeps evaluates an expression for dependences and for the sink effects of the calls inside it.
func (st *fnState) exprDeps(e ast.Expr, region Dep) Dep {
	if e == nil {
		return 0
	}
	var d Dep
	// calls nested anywhere inside: evaluate with the region so that their sink effects are recorded
	ast.Inspect(e, func(n ast.Node) bool {
		switch x := n.(type) {
		case *ast.FuncLit:
			return false
		case *ast.CallExpr:
			for _, r := range st.call(x, region) {
				_ = r
			}
		}
		return true
	})
	d = st.deps(e)
	return d
}

func (st *fnState) addRes(i int, d Dep, pos token.Pos) {
	if i >= len(st.sum.Res) {
		return
	}
	if d&^st.sum.Res[i] != 0 {
		if d&SRC != 0 && st.sum.Res[i]&SRC == 0 && st.sum.ResWhy == "" {
			st.sum.ResWhy = st.u.Name + " returns a clock-dependent value at " + st.u.Pos(pos)
		}
		st.sum.Res[i] |= d
		st.cf.changed = true
	}
}

// SortedSources lists the source call sites encountered.
func (cf *ClockFlow) SortedSources() []string {
	var out []string
	for s := range cf.Sources {
		out = append(out, s)
	}
	sort.Strings(out)
	return out
}

// ReachedNames lists the analysed functions.
func (cf *ClockFlow) ReachedNames() []string {
	var out []string
	for n, u := range cf.reach {
		if u.Lit == nil {
			out = append(out, n)
		}
	}
	sort.Strings(out)
	return out
}

// MapRangeIdiom classifies the body of a range-over-map loop. Order-insensitive idioms: the body only
// (a) stores into / deletes from maps, (b) accumulates with += / ++ / |=, (c) appends to a slice that is
// sorted before the function goes on, (d) calls functions without write effect whose results are
// unused or only feed (a)-(c), (e) breaks/returns without depending on which element came first
// (only when the body has no effect at all). Anything that writes to a batch, builds a reply or
// assigns plain variables from the element is order-dependent.
func MapRangeIdiom(u *Unit, rs *ast.RangeStmt, cf *ClockFlow) (string, bool) {
	info := u.Info()
	problems := []string{}
	appended := map[types.Object]bool{}
	var keyVar types.Object
	if id, ok := rs.Key.(*ast.Ident); ok && id.Name != "_" {
		keyVar = info.ObjectOf(id)
	}
	mentionsKey := func(call *ast.CallExpr) bool {
		found := false
		for _, a := range call.Args {
			ast.Inspect(a, func(m ast.Node) bool {
				if id, ok := m.(*ast.Ident); ok && keyVar != nil && info.ObjectOf(id) == keyVar {
					found = true
				}
				return !found
			})
		}
		return found
	}
	// a variable whose only uses after the loop are arguments of logging / metrics calls
	benignOnly := func(o types.Object) bool {
		ok := true
		var stack []ast.Node
		ast.Inspect(u.Body, func(n ast.Node) bool {
			if n == nil {
				stack = stack[:len(stack)-1]
				return true
			}
			if id, isID := n.(*ast.Ident); isID && info.Uses[id] == o && id.Pos() >= rs.End() {
				benign := false
				for i := len(stack) - 1; i >= 0; i-- {
					if call, isCall := stack[i].(*ast.CallExpr); isCall {
						if f, isF := typeutil.Callee(info, call).(*types.Func); isF && f.Pkg() != nil {
							p := f.Pkg().Path()
							if strings.HasSuffix(p, "/slow") || strings.HasSuffix(p, "/metric") || strings.HasSuffix(p, "/common") && strings.Contains(load.QualName(f), "Logger") {
								benign = true
							}
						}
						break
					}
				}
				if !benign {
					ok = false
				}
			}
			stack = append(stack, n)
			return true
		})
		return ok
	}
	hasBreak := false
	var assigned []types.Object
	ast.Inspect(rs.Body, func(n ast.Node) bool {
		switch x := n.(type) {
		case *ast.FuncLit:
			return false
		case *ast.AssignStmt:
			for i, l := range x.Lhs {
				l = ast.Unparen(l)
				if ix, ok := l.(*ast.IndexExpr); ok {
					if t := info.TypeOf(ix.X); t != nil {
						if _, isMap := t.Underlying().(*types.Map); isMap {
							continue // store into a map
						}
					}
				}
				if x.Tok == token.ADD_ASSIGN || x.Tok == token.OR_ASSIGN || x.Tok == token.SUB_ASSIGN {
					if t := info.TypeOf(l); t != nil {
						if b, ok := t.Underlying().(*types.Basic); ok && b.Info()&types.IsNumeric != 0 {
							continue // commutative accumulation on numbers
						}
					}
				}
				if id, ok := l.(*ast.Ident); ok {
					o := info.ObjectOf(id)
					if x.Tok == token.DEFINE || (o != nil && rs.Body.Pos() <= o.Pos() && o.Pos() < rs.Body.End()) {
						continue // a variable local to one iteration
					}
					if i < len(x.Rhs) {
						if call, ok := ast.Unparen(x.Rhs[i]).(*ast.CallExpr); ok {
							if fid, ok := call.Fun.(*ast.Ident); ok && fid.Name == "append" && len(call.Args) > 0 {
								if aid, ok := ast.Unparen(call.Args[0]).(*ast.Ident); ok && info.ObjectOf(aid) == o {
									appended[o] = true
									continue
								}
							}
						}
					}
					if id.Name == "_" {
						continue
					}
					if o != nil {
						assigned = append(assigned, o)
						continue
					}
				}
				problems = append(problems, "assigns "+u.C.Term(l)+" from an element")
			}
		case *ast.IncDecStmt:
			// counting is commutative
		case *ast.CallExpr:
			if f, ok := typeutil.Callee(info, x).(*types.Func); ok {
				q := load.QualName(f)
				if isSinkCall(q) && !mentionsKey(x) {
					problems = append(problems, "writes to the batch in iteration order ("+q+")")
				}
				for _, t := range cf.calleeNames(f) {
					if s := cf.Sum[t]; s != nil && s.Writes && !mentionsKey(x) {
						// a write keyed by the map key touches a distinct key per iteration: the final state
						// does not depend on the order
						problems = append(problems, "calls "+t+" (writes to the batch) in iteration order")
					}
				}
				if q == "pkg/wait.Wait.Trigger" {
					// replies to distinct request ids: order is not observable by any single client
				}
			}
		case *ast.ReturnStmt:
			if len(x.Results) > 0 {
				problems = append(problems, "returns from inside the iteration")
			}
		case *ast.BranchStmt:
			if x.Tok == token.BREAK {
				hasBreak = true
			}
		}
		return true
	})
	for _, o := range assigned {
		if !benignOnly(o) {
			problems = append(problems, "assigns "+o.Name()+" from an element and uses it beyond logging/metrics")
		}
	}
	if hasBreak && (len(problems) > 0 || len(assigned) == 0 && len(appended) > 0) {
		problems = append(problems, "breaks out of the iteration (which element was first matters)")
	}
	// appended slices must be sorted after the loop
	for o := range appended {
		sorted := false
		ast.Inspect(u.Body, func(n ast.Node) bool {
			call, ok := n.(*ast.CallExpr)
			if !ok || call.Pos() < rs.End() {
				return true
			}
			if f, ok := typeutil.Callee(info, call).(*types.Func); ok && f.Pkg() != nil && f.Pkg().Path() == "sort" {
				for _, a := range call.Args {
					ast.Inspect(a, func(m ast.Node) bool {
						if id, ok := m.(*ast.Ident); ok && info.ObjectOf(id) == o {
							sorted = true
						}
						return true
					})
				}
			}
			return true
		})
		if !sorted {
			problems = append(problems, "appends to "+o.Name()+" in iteration order without sorting it afterwards")
		}
	}
	if len(problems) == 0 {
		return "order-insensitive: map stores, commutative accumulation, per-iteration locals, sorted appends only", true
	}
	return strings.Join(uniqSorted(problems), "; "), false
}

func (cf *ClockFlow) calleeNames(f *types.Func) []string {
	if src := cf.W.P.FuncOf(f); src != nil && src.Decl.Body != nil {
		return []string{src.Name}
	}
	return cf.implsOf(f)
}
