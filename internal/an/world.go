// Package an holds the shared analyses (ORDER, FOLLOW, GUARD, WRITERS, ...) and the reporting
// discipline: every obligation is keyed by rule + construct, never by line.
package an

import (
	"os"
	"fmt"
	"go/ast"
	"go/token"
	"go/types"
	"sort"
	"strings"

	"golang.org/x/tools/go/types/typeutil"

	"verif/internal/flow"
	"verif/internal/load"
)

type World struct {
	P          *load.Program
	units      map[string]*Unit
	FieldNames map[*types.Var]string // struct field -> "pkg.Type.Field"
	consts     map[string]string     // "pkgname.Const" -> exact value
	obsMemo    map[*types.Func]int   // 1 observer, 2 not
	detMemo    map[*types.Func]bool
	predMemo   map[*types.Func]*predFormula
	exprMemo   map[*types.Func]*ast.FuncDecl
	wrMemo     map[*types.Func]wrSummary
	InlinePreds bool // second reading: boolean helper calls stand for their bodies (see inline.go)
	SpliceKnown bool // second reading: helpers the rule tables know are read in place of their calls too
	siteRel     *flow.Site // while set: observer-defined locals are decided relative to this site of siteRelUnit
	siteRelUnit *Unit
	obsUse     map[types.Object]bool
	obsSite    map[siteKey]bool
	obsDef     map[ast.Expr]bool
	Vocab      VocabSnapshot         // local signatures recorded when the rule tables were written (nil: none)
	Renamed    []string              // renamed locals recognised in this run
	Spliced    []string              // helper functions read in place of their calls in this run
	NoSplice   bool
	vocabFuncs map[string]bool
}

// Unit is one analysable function body: a declaration or a function literal inside one.
type Unit struct {
	W     *World
	Name  string
	Fn    *load.Func
	Lit   *ast.FuncLit
	Body  *ast.BlockStmt
	Type  *ast.FuncType
	G     *flow.Graph
	C     *flow.Canon
	Sites []*flow.Site
	pc    map[*flow.Block]*flow.F
	fps   map[*flow.Block]*footprint
	edgeLit     map[*flow.Block]edgeLiteral
	litAssigned map[litPos][]string
	litCopy     map[litPos][][2]string
	inEmptyForNil bool
}

func NewWorld(p *load.Program) *World {
	w := &World{P: p, units: map[string]*Unit{}, FieldNames: map[*types.Var]string{}, consts: map[string]string{}}
	for _, pkg := range p.Pkgs {
		sc := pkg.Types.Scope()
		for _, n := range sc.Names() {
			switch o := sc.Lookup(n).(type) {
			case *types.Const:
				v := o.Val().ExactString()
				w.consts[pkg.Types.Name()+"."+n] = v
			case *types.TypeName:
				if st, ok := o.Type().Underlying().(*types.Struct); ok {
					w.indexStruct(load.ShortPkg(pkg.PkgPath)+"."+n, st, 0)
				}
			}
		}
	}
	return w
}

func (w *World) indexStruct(prefix string, st *types.Struct, depth int) {
	for i := 0; i < st.NumFields(); i++ {
		f := st.Field(i)
		if _, ok := w.FieldNames[f]; !ok {
			w.FieldNames[f] = prefix + "." + f.Name()
		}
		// anonymous struct-typed fields
		if inner, ok := f.Type().(*types.Struct); ok && depth < 3 {
			w.indexStruct(prefix+"."+f.Name(), inner, depth+1)
		}
	}
}

func (w *World) Const(key string) string { return w.consts[key] }

// Parse parses a rule formula.
func (w *World) Parse(src string) *flow.F { return flow.MustParse(src, w.Const) }

// NoReturn: panic, os.Exit, log.Fatal*/Panic*, and methods named Panic*/Fatal* on logger types.
// These are assertion failures in this code base; treating them as no-return is what makes
// `if bad { logger.Panicf(...) }` a guard for what follows.
func (w *World) noReturn(info *types.Info) flow.NoReturnFunc {
	return func(call *ast.CallExpr) bool {
		switch c := typeutil.Callee(info, call).(type) {
		case *types.Builtin:
			return c.Name() == "panic"
		case *types.Func:
			n := c.Name()
			if c.Pkg() != nil && c.Pkg().Path() == "os" && n == "Exit" {
				return true
			}
			switch n {
			case "Panic", "Panicf", "Panicln", "Fatal", "Fatalf", "Fatalln":
				sig := c.Type().(*types.Signature)
				if sig.Recv() != nil {
					return true
				}
				if c.Pkg() != nil && (c.Pkg().Path() == "log" || strings.HasSuffix(c.Pkg().Path(), "glog")) {
					return true
				}
			}
		}
		return false
	}
}

// Unit returns the analysed body of a declared function.
func (w *World) Unit(name string) (*Unit, error) {
	if u, ok := w.units[name]; ok {
		return u, nil
	}
	fn := w.P.Func(name)
	if fn == nil {
		return nil, fmt.Errorf("anchor %s does not resolve to a function of the module", name)
	}
	if fn.Decl.Body == nil {
		return nil, fmt.Errorf("anchor %s has no body", name)
	}
	u := w.build(name, fn, nil, fn.Decl.Recv, fn.Decl.Type, fn.Decl.Body, nil)
	w.units[name] = u
	return u, nil
}

func (w *World) build(name string, fn *load.Func, lit *ast.FuncLit, recv *ast.FieldList, ft *ast.FuncType, body *ast.BlockStmt, outer *flow.Canon) *Unit {
	info := fn.Pkg.TypesInfo
	u := &Unit{W: w, Name: name, Fn: fn, Lit: lit, Body: body, Type: ft, pc: map[*flow.Block]*flow.F{}}
	u.G = flow.BuildWith(body, flow.BuildOpts{NoReturn: w.noReturn(info), Inline: w.inliner(fn, false), RangeCond: func(rs *ast.RangeStmt) ast.Expr {
		// for i := range X / for i, v := range X over a slice, array or string: i < len(X) inside the body
		id, ok := rs.Key.(*ast.Ident)
		if !ok || id.Name == "_" {
			return nil
		}
		t := info.TypeOf(rs.X)
		if t == nil {
			return nil
		}
		switch x := t.Underlying().(type) {
		case *types.Slice, *types.Array:
		case *types.Basic:
			if x.Info()&types.IsString == 0 {
				return nil
			}
		default:
			return nil
		}
		return &ast.BinaryExpr{X: id, Op: token.LSS, OpPos: rs.For, Y: &ast.CallExpr{Fun: &ast.Ident{Name: "len", NamePos: rs.For}, Lparen: rs.For, Args: []ast.Expr{rs.X}, Rparen: rs.For}}
	}})
	var alias map[types.Object]flow.LocalAlias
	if outer == nil && w.Vocab != nil {
		alias = w.aliasesFor(name, info, recv, ft, body, u.G.Inlined)
	}
	u.C = flow.NewCanonAliased(info, fn.Pkg.Types, recv, ft, body, outer, alias)
	if len(u.G.Inlined) > 0 {
		u.C.AddInlined(body, u.G.Inlined, nil)
		for _, ic := range u.G.Inlined {
			w.Spliced = append(w.Spliced, name+" <- "+ic.Decl.Name.Name)
		}
	}
	u.C.ObsOK = func(o types.Object, def ast.Expr, use *ast.Ident) bool { return w.obsExpandOK(u, o, def, use) }
	if w.InlinePreds {
		u.C.Inline = func(call *ast.CallExpr) *flow.F { return w.inlineCall(u, call) }
	}
	u.C.InlineExpr = func(call *ast.CallExpr) *ast.FuncDecl { return w.exprHelper(fn, call) }
	u.Sites = flow.CollectSites(u.G, info)
	return u
}

// Lits returns the function literals directly or indirectly nested in the unit, in source order.
func (u *Unit) Lits() []*Unit {
	var out []*Unit
	i := 0
	var visit func(n ast.Node, outer *Unit)
	visit = func(n ast.Node, outer *Unit) {
		ast.Inspect(n, func(c ast.Node) bool {
			if fl, ok := c.(*ast.FuncLit); ok {
				i++
				name := fmt.Sprintf("%s$lit%d", u.Name, i)
				lu, ok := u.W.units[name]
				if !ok {
					lu = u.W.build(name, u.Fn, fl, nil, fl.Type, fl.Body, outer.C)
					u.W.units[name] = lu
				}
				out = append(out, lu)
				visit(fl.Body, lu)
				return false
			}
			return true
		})
	}
	visit(u.Body, u)
	return out
}

// LitWith returns the innermost function literal of fn that contains a call matching m.
func (w *World) LitWith(fnName string, m M) (*Unit, error) {
	u, err := w.Unit(fnName)
	if err != nil {
		return nil, err
	}
	var found []*Unit
	for _, l := range u.Lits() {
		if len(l.Match(m)) > 0 {
			found = append(found, l)
		}
	}
	if len(found) == 0 {
		return nil, fmt.Errorf("no function literal in %s contains %s", fnName, m.Desc())
	}
	if len(found) > 1 {
		return nil, fmt.Errorf("%d function literals in %s contain %s", len(found), fnName, m.Desc())
	}
	return found[0], nil
}

func (u *Unit) Info() *types.Info { return u.Fn.Pkg.TypesInfo }

// SitePC is the path condition of a site: the conjunction of the conditions of all dominating
// edges whose operands cannot have changed on the way (a conjunct is dropped, which only weakens the
// condition, when a local variable or field access path it reads is assigned between the branch and
// the site), plus the short-circuit context of a site inside a condition.
func (u *Unit) SitePC(s *flow.Site) *flow.F { return u.sitePC(s, false) }

// BlockEntryPC is the path condition as of entry to the site's basic block: assignments made in the
// straight-line code of that block before the site do not invalidate conjuncts (the condition "held
// when control entered the block", which is what a guard on an effect means).
func (u *Unit) BlockEntryPC(s *flow.Site) *flow.F { return u.sitePC(s, true) }

func (u *Unit) sitePC(s *flow.Site, atEntry bool) *flow.F {
	if !s.Block.Reachable() {
		return flow.False()
	}
	if atEntry {
		s = &flow.Site{Kind: s.Kind, Block: s.Block, NodeIdx: -1, Ctx: nil}
	}
	stale := map[*flow.Block]bool{}
	cond := func(e *flow.Block) *flow.F {
		if e.EdgeCond == nil {
			return flow.True()
		}
		st, ok := stale[e]
		if !ok {
			st = u.staleBetween(e, s)
			stale[e] = st
		}
		if st {
			return flow.True()
		}
		return u.edgeFormula(e)
	}
	// region(d, b): disjunction over the forward paths d -> b of the conjunction of their edge
	// conditions; back edges are not followed (see DESIGN.md, path conditions).
	type key struct{ d, b *flow.Block }
	memo := map[key]*flow.F{}
	budget := 4000
	var region func(d, b *flow.Block) *flow.F
	region = func(d, b *flow.Block) *flow.F {
		if b == d {
			return flow.True()
		}
		k := key{d, b}
		if f, ok := memo[k]; ok {
			return f
		}
		memo[k] = flow.True() // cycle guard (weaker)
		budget--
		if budget < 0 {
			return flow.True()
		}
		var alts []*flow.F
		for _, e := range b.Preds {
			p := e.From
			if !p.Reachable() || u.G.Dominates(b, p) { // back edge
				continue
			}
			if !u.G.Dominates(d, p) {
				alts = append(alts, flow.True())
				continue
			}
			alts = append(alts, flow.And(region(d, p), cond(b)))
		}
		var f *flow.F
		if len(alts) == 0 {
			f = flow.True()
		} else {
			f = flow.Simplify(flow.Or(alts...))
		}
		memo[k] = f
		return f
	}
	var parts []*flow.F
	doms := u.G.Dominators(s.Block)
	for i := 1; i < len(doms); i++ {
		parts = append(parts, region(doms[i-1], doms[i]))
	}
	pc := flow.Simplify(flow.And(parts...))
	if s.Ctx != nil && s.Ctx.Op != flow.OpTrue {
		pc = flow.And(pc, u.C.Formula(s.Ctx))
	}
	return pc
}

func (u *Unit) edgeFormula(b *flow.Block) *flow.F {
	if f, ok := u.pc[b]; ok {
		return f
	}
	f := u.C.Formula(b.EdgeCond)
	u.pc[b] = f
	return f
}

type footprint struct {
	vars  map[types.Object]bool
	paths map[string]bool
	recvs map[string]map[string]bool // receivers of method calls in the condition -> methods called
}

// staleBetween: some store on a path from edge block e to site s (not re-entering e) writes a local
// variable or an access path read by e's condition.
func (u *Unit) staleBetween(e *flow.Block, s *flow.Site) bool {
	fp, ok := u.fps[e]
	if !ok {
		v, p := u.C.Footprint(e.EdgeCond)
		fp = &footprint{v, p, u.C.MethodReceivers(e.EdgeCond)}
		if u.fps == nil {
			u.fps = map[*flow.Block]*footprint{}
		}
		u.fps[e] = fp
	}
	if len(fp.vars) == 0 && len(fp.paths) == 0 && len(fp.recvs) == 0 {
		return false
	}
	// forward reachability from e (without re-entering e), backward from s.Block (without passing e)
	fwd := map[*flow.Block]bool{}
	var f func(b *flow.Block)
	f = func(b *flow.Block) {
		for _, ed := range b.Succs {
			if ed.To != e && !fwd[ed.To] {
				fwd[ed.To] = true
				f(ed.To)
			}
		}
	}
	f(e)
	bwd := map[*flow.Block]bool{}
	var g func(b *flow.Block)
	g = func(b *flow.Block) {
		for _, ed := range b.Preds {
			if ed.From != e && !bwd[ed.From] {
				bwd[ed.From] = true
				g(ed.From)
			}
		}
	}
	g(s.Block)
	for _, st := range u.Sites {
		if st.Kind == flow.SCall && len(fp.recvs) > 0 && st.Call != nil && !st.Deferred {
			// a method call on an object whose observer result the condition tested: it.Valid() tested, then it.Seek()
			sel, ok := ast.Unparen(st.Call.Fun).(*ast.SelectorExpr)
			if !ok {
				continue
			}
			if sl := u.Info().Selections[sel]; sl == nil || sl.Kind() != types.MethodVal {
				continue
			}
			ms := fp.recvs[u.C.Term(sel.X)]
			if ms == nil || ms[sel.Sel.Name] {
				continue
			}
			if f, isF := u.Info().ObjectOf(sel.Sel).(*types.Func); isF && u.W.observer(f, 0) {
				continue
			}
			if st == s {
				continue
			}
			btw := false
			if st.Block == s.Block {
				if st.NodeIdx < s.NodeIdx || (st.NodeIdx == s.NodeIdx && st.SameBlockBefore(s)) {
					btw = fwd[st.Block] || st.Block == e
				} else if bwd[st.Block] && fwd[st.Block] {
					btw = true
				}
			} else if fwd[st.Block] && bwd[st.Block] {
				btw = true
			}
			if btw {
				return true
			}
			continue
		}
		if st.Kind != flow.SStore && st.Kind != flow.SRange {
			continue
		}
		between := false
		if st.Block == s.Block {
			// earlier in the same block, or anywhere in it when the block lies on a cycle avoiding e
			if st.NodeIdx < s.NodeIdx || (st.NodeIdx == s.NodeIdx && st != s && st.SameBlockBefore(s)) {
				between = fwd[st.Block] || st.Block == e
			} else if bwd[st.Block] && fwd[st.Block] {
				between = true
			}
		} else if fwd[st.Block] && bwd[st.Block] {
			between = true
		}
		if !between {
			continue
		}
		if st.Kind == flow.SRange {
			for _, kv := range []ast.Expr{st.Rng.Key, st.Rng.Value} {
				if id, ok := kv.(*ast.Ident); ok && fp.vars[u.Info().ObjectOf(id)] {
					return true
				}
			}
			continue
		}
		if root, inside := u.C.RootVar(st.LHS); root != nil && inside && fp.vars[root] {
			return true
		}
		if _, isIdent := ast.Unparen(st.LHS).(*ast.Ident); !isIdent {
			t := u.C.Term(st.LHS)
			// `if m == nil { m = make(map[K]V) }`: a nil map or slice replaced by an empty one keeps every test of its
			// length (and nothing but its length is read from it by the condition when the only path mentioned is m itself)
			if u.emptyForNil(st, t) && onlyLenOf(u, e, t) {
				continue
			}
			for p := range fp.paths {
				if p == t || strings.HasPrefix(p, t+".") || strings.HasPrefix(p, t+"[") {
					return true
				}
			}
		}
	}
	return false
}

// emptyForNil: the store assigns a freshly made empty map/slice (make without a length, or with length 0) to t on a path
// where t == nil is known.
func (u *Unit) emptyForNil(st *flow.Site, t string) bool {
	if st.RHS == nil {
		return false
	}
	call, ok := ast.Unparen(st.RHS).(*ast.CallExpr)
	if !ok {
		return false
	}
	if id, isId := call.Fun.(*ast.Ident); !isId || id.Name != "make" {
		return false
	}
	if len(call.Args) >= 2 && u.C.ConstOf(call.Args[1]) != "0" {
		if _, isMap := u.Info().TypeOf(call.Args[0]).Underlying().(*types.Map); !isMap {
			return false
		}
	}
	if u.inEmptyForNil {
		return false
	}
	u.inEmptyForNil = true
	defer func() { u.inEmptyForNil = false }()
	pc := u.SitePC(st)
	r := flow.Implies(pc, flow.MakeCmp(token.EQL, t, "nil", "", "nil"))
	return r.Holds && r.Undecided == ""
}

// onlyLenOf: the raw condition of edge e mentions the access path t only as the operand of len().
func onlyLenOf(u *Unit, e *flow.Block, t string) bool {
	ok := true
	var walk func(f *flow.F)
	walk = func(f *flow.F) {
		if f == nil || !ok {
			return
		}
		if f.Op == flow.OpAtom && f.Expr != nil {
			var visit func(n ast.Node, underLen bool)
			visit = func(n ast.Node, underLen bool) {
				ast.Inspect(n, func(m ast.Node) bool {
					if m == n {
						return true
					}
					switch x := m.(type) {
					case *ast.CallExpr:
						if id, isId := x.Fun.(*ast.Ident); isId && id.Name == "len" && len(x.Args) == 1 {
							if u.C.Term(x.Args[0]) == t {
								return false // fine: len(t)
							}
						}
					case *ast.SelectorExpr, *ast.IndexExpr:
						if tt := u.C.Term(x.(ast.Expr)); tt == t || strings.HasPrefix(tt, t+".") || strings.HasPrefix(tt, t+"[") {
							ok = false
							return false
						}
					}
					return ok
				})
			}
			visit(&ast.ParenExpr{X: f.Expr}, false)
		}
		for _, k := range f.Kids {
			walk(k)
		}
	}
	walk(e.EdgeCond)
	return ok
}

func (u *Unit) Pos(p token.Pos) string { return u.W.P.Pos(p) }

// CalleeName is the rule-table name of a call site's callee ("" for dynamic calls).
func CalleeName(s *flow.Site) string {
	if s.Builtin != "" {
		return "builtin." + s.Builtin
	}
	return load.QualName(s.Callee)
}

// SortedKeys is a small helper for deterministic output.
func SortedKeys[V any](m map[string]V) []string {
	var ks []string
	for k := range m {
		ks = append(ks, k)
	}
	sort.Strings(ks)
	return ks
}

// Site is re-exported for rule tables.
type Site = flow.Site

// UnitNames lists the declared functions analysed so far.
func (w *World) UnitNames() []string {
	var out []string
	for n, u := range w.units {
		if u.Lit == nil {
			out = append(out, n)
		}
	}
	sort.Strings(out)
	return out
}

// observerMethod: method names that do not change what other observers of the same object report.
func observerMethod(name string) bool {
	switch name {
	case "Valid", "Key", "RefKey", "Value", "RefValue", "Len", "Error", "Err", "String", "Size", "Cap", "Count", "Cur", "Epoch", "Load",
		"Infof", "Debugf", "Warningf", "Errorf", "Info", "Debug", "Warning", "Level", "Lock", "Unlock", "RLock", "RUnlock":
		return true
	}
	for _, p := range []string{"Is", "Has", "Get", "get", "is", "has", "Can", "Should", "Need", "Log"} {
		if strings.HasPrefix(name, p) && len(name) > len(p) {
			return true
		}
	}
	return false
}

// observer: calling the method does not change what the object's other methods report. For a method declared in
// the module this is computed: no store through the receiver or a pointer parameter, no send/close, and only observer
// callees. For everything else the name decides (observerMethod).
func (w *World) observer(f *types.Func, depth int) bool {
	if w.obsMemo == nil {
		w.obsMemo = map[*types.Func]int{}
	}
	if v, ok := w.obsMemo[f]; ok {
		return v == 1
	}
	src := w.P.FuncOf(f)
	if src == nil || src.Decl.Body == nil {
		// an interface method or a method outside the module: the name decides
		return observerMethod(f.Name()) || !mutatorName(f.Name())
	}
	if n := f.Name(); strings.Contains(n, "Copy") || strings.Contains(n, "Clone") {
		// builds a new object: the stores it makes go into what it allocates (not tracked)
		w.obsMemo[f] = 1
		return true
	}
	if depth > 5 {
		return false
	}
	w.obsMemo[f] = 1 // optimistic for recursion
	u, err := w.Unit(src.Name)
	res := err == nil
	if res {
		for _, uu := range append([]*Unit{u}, u.Lits()...) {
			for _, s := range uu.Sites {
				switch s.Kind {
				case flow.SSend:
					res = false
				case flow.SStore:
					// a store to anything but a plain local of the function
					if s.Local == nil {
						// a field or element of a local *value* (a struct copy, an array) is still local
						root, _ := uu.C.RootVar(s.LHS)
						local := false
						if root != nil {
							if _, isRole := u.C.RoleOf(root); !isRole && root.Pkg() != nil && root.Parent() != root.Pkg().Scope() {
								switch root.Type().Underlying().(type) {
								case *types.Struct, *types.Array, *types.Basic:
									// the stored-to path must not go through a pointer, map or slice field
									local = !pathThroughReference(uu, s.LHS)
								}
							}
						}
						if !local {
							res = false
						}
					} else if _, isRole := u.C.RoleOf(s.Local); isRole {
						if _, isIdent := ast.Unparen(s.LHS).(*ast.Ident); !isIdent {
							res = false
						}
					}
				case flow.SCall:
					if s.Builtin == "close" || s.Builtin == "delete" || s.Builtin == "copy" {
						res = false
					}
					if s.Callee != nil && s.Callee != f {
						if cs := w.P.FuncOf(s.Callee); cs != nil && cs.Decl.Body != nil {
							if !w.observer(s.Callee, depth+1) {
								res = false
							}
						} else if s.Callee.Type().(*types.Signature).Recv() != nil && !observerMethod(s.Callee.Name()) && mutatorName(s.Callee.Name()) {
							res = false
						}
					}
				}
				if !res {
					break
				}
			}
		}
	}
	if res {
		w.obsMemo[f] = 1
	} else {
		w.obsMemo[f] = 2
	}
	if os.Getenv("ZR_DEBUG_OBS") != "" {
		fmt.Fprintf(os.Stderr, "observer(%s) = %v\n", src.Name, res)
	}
	return res
}

// mutatorName: for methods whose body is not available (interfaces, other modules) a name that says the object changes.
func mutatorName(name string) bool {
	if name == "First" || name == "Last" {
		return true
	}
	for _, p := range []string{"Set", "Add", "Del", "Remove", "Put", "Write", "Reset", "Clear", "Close", "Push", "Pop", "Append", "Insert", "Update",
		"Incr", "Decr", "Store", "Swap", "Seek", "Next", "Prev", "Commit", "Apply", "Save", "Sync", "Truncate", "Compact", "Create",
		"Restore", "Step", "Send", "Advance", "Propose", "Start", "Stop", "Destroy", "Abort", "Merge", "Flush", "Release", "Rotate", "Cut", "Recv",
		"Read", "Open", "Init", "Register", "Unregister", "Trigger", "Notify", "Signal", "Broadcast", "Wait", "Done", "Cancel", "Purge", "Evict",
		"Load", "Unmarshal", "Decode", "Scan", "Fill", "Grow", "Move", "Rename", "Mark", "Unmark", "Enable", "Disable", "Become", "Transfer", "Campaign",
		"Tick", "Handle", "Process", "Run", "Do", "Exec", "Delete", "Backup", "Checkpoint", "Clean", "Ingest", "Expire", "Persist", "Renew"} {
		if strings.HasPrefix(name, p) {
			return true
		}
	}
	lower := strings.ToLower(name[:1]) + name[1:]
	if lower != name {
		return false
	}
	// unexported: same words in lower case
	for _, p := range []string{"set", "add", "del", "remove", "put", "write", "reset", "clear", "close", "push", "pop", "append", "insert", "update",
		"incr", "decr", "store", "swap", "seek", "next", "prev", "commit", "apply", "save", "sync", "truncate", "compact", "create", "restore", "step",
		"send", "advance", "start", "stop", "destroy", "abort", "merge", "flush", "release", "cut", "read", "open", "init", "load", "delete", "become",
		"handle", "process", "run", "do", "maybe", "try"} {
		if strings.HasPrefix(name, p) {
			return true
		}
	}
	return false
}

// pathThroughReference: the access path x.a.b[i].c dereferences a pointer or indexes a map/slice on the way (the
// last step excluded: assigning a whole map/slice-typed field of a local struct only changes the local).
func pathThroughReference(u *Unit, lhs ast.Expr) bool {
	e := ast.Unparen(lhs)
	first := true
	for {
		switch x := e.(type) {
		case *ast.SelectorExpr:
			if t := u.Info().TypeOf(x.X); t != nil {
				if _, isPtr := t.Underlying().(*types.Pointer); isPtr {
					return true
				}
			}
			e = ast.Unparen(x.X)
		case *ast.IndexExpr:
			if t := u.Info().TypeOf(x.X); t != nil {
				switch t.Underlying().(type) {
				case *types.Map, *types.Slice, *types.Pointer:
					return true
				}
			}
			e = ast.Unparen(x.X)
		case *ast.StarExpr:
			return true
		default:
			_ = first
			return false
		}
		first = false
	}
}
