package an

import (
	"fmt"
	"go/ast"
	"go/constant"
	"go/token"
	"go/types"
	"sort"
	"strings"

	"golang.org/x/tools/go/types/typeutil"

	"verif/internal/flow"
	"verif/internal/load"
)

// ArgDomain is the set of argument counts len(cmd.Args) that are examined one by one: every small
// count, and two large representatives (even / odd) standing for "many arguments".
var ArgDomain = func() []int {
	var d []int
	for i := 0; i <= 31; i++ {
		d = append(d, i)
	}
	return append(d, 40, 41)
}()

// ArgEnv gives the analysis of one function its view of the command's argument vector.
type ArgEnv struct {
	U      *Unit
	N      int                       // concrete len(cmd.Args)
	Offs   map[types.Object]int      // slice variables derived from cmd.Args: len = N - off
	Cmd    map[types.Object]bool     // variables holding the command itself
	Consts map[types.Object]int64    // captured / known integer constants (wrapper parameters)
	Ints   map[types.Object]int64    // concrete values of induction variables
	depth  int
}

func (e *ArgEnv) clone() *ArgEnv {
	c := &ArgEnv{U: e.U, N: e.N, Offs: map[types.Object]int{}, Cmd: map[types.Object]bool{}, Consts: map[types.Object]int64{}, Ints: map[types.Object]int64{}}
	for k, v := range e.Offs {
		c.Offs[k] = v
	}
	for k, v := range e.Cmd {
		c.Cmd[k] = v
	}
	for k, v := range e.Consts {
		c.Consts[k] = v
	}
	for k, v := range e.Ints {
		c.Ints[k] = v
	}
	return c
}

// argsOff: the expression denotes cmd.Args[off:] for a known off.
func (e *ArgEnv) argsOff(x ast.Expr) (int, bool) {
	info := e.U.Info()
	x = ast.Unparen(x)
	switch v := x.(type) {
	case *ast.Ident:
		if off, ok := e.Offs[info.ObjectOf(v)]; ok {
			return off, true
		}
	case *ast.SelectorExpr:
		if v.Sel.Name == "Args" {
			if id, ok := ast.Unparen(v.X).(*ast.Ident); ok && e.Cmd[info.ObjectOf(id)] {
				return 0, true
			}
		}
	case *ast.SliceExpr:
		if v.High != nil || v.Max != nil {
			return 0, false
		}
		base, ok := e.argsOff(v.X)
		if !ok {
			return 0, false
		}
		if v.Low == nil {
			return base, true
		}
		if k, ok := e.Int(v.Low); ok {
			return base + int(k), true
		}
	}
	return 0, false
}

// Int evaluates an integer expression that depends only on N, known constants and induction variables.
func (e *ArgEnv) Int(x ast.Expr) (int64, bool) {
	info := e.U.Info()
	x = ast.Unparen(x)
	if tv, ok := info.Types[x]; ok && tv.Value != nil {
		if v, ok := constant.Int64Val(constant.ToInt(tv.Value)); ok {
			return v, true
		}
	}
	switch v := x.(type) {
	case *ast.Ident:
		o := info.ObjectOf(v)
		if c, ok := e.Consts[o]; ok {
			return c, true
		}
		if c, ok := e.Ints[o]; ok {
			return c, true
		}
		// a local with a single definition evaluates like its definition
		if e.depth < 6 {
			var def ast.Expr
			n := 0
			for _, s := range e.U.Sites {
				if s.Kind == flow.SStore && s.Local == o && !s.Index {
					n++
					def = s.RHS
				}
			}
			if n == 1 && def != nil {
				e.depth++
				r, ok := e.Int(def)
				e.depth--
				return r, ok
			}
		}
	case *ast.CallExpr:
		if id, ok := ast.Unparen(v.Fun).(*ast.Ident); ok && len(v.Args) == 1 {
			if b, ok := info.ObjectOf(id).(*types.Builtin); ok && b.Name() == "len" {
				if off, ok := e.argsOff(v.Args[0]); ok {
					return int64(e.N - off), true
				}
			}
		}
		if tv, ok := info.Types[v.Fun]; ok && tv.IsType() && len(v.Args) == 1 {
			return e.Int(v.Args[0])
		}
	case *ast.BinaryExpr:
		a, ok1 := e.Int(v.X)
		b, ok2 := e.Int(v.Y)
		if !ok1 || !ok2 {
			return 0, false
		}
		switch v.Op {
		case token.ADD:
			return a + b, true
		case token.SUB:
			return a - b, true
		case token.MUL:
			return a * b, true
		case token.QUO:
			if b != 0 {
				return a / b, true
			}
		case token.REM:
			if b != 0 {
				return a % b, true
			}
		}
	}
	return 0, false
}

type tri int

const (
	triUnknown tri = iota
	triTrue
	triFalse
)

func (e *ArgEnv) cond(x ast.Expr) tri {
	x = ast.Unparen(x)
	switch v := x.(type) {
	case *ast.UnaryExpr:
		if v.Op == token.NOT {
			switch e.cond(v.X) {
			case triTrue:
				return triFalse
			case triFalse:
				return triTrue
			}
			return triUnknown
		}
	case *ast.BinaryExpr:
		switch v.Op {
		case token.LAND:
			a, b := e.cond(v.X), e.cond(v.Y)
			if a == triFalse || b == triFalse {
				return triFalse
			}
			if a == triTrue && b == triTrue {
				return triTrue
			}
			return triUnknown
		case token.LOR:
			a, b := e.cond(v.X), e.cond(v.Y)
			if a == triTrue || b == triTrue {
				return triTrue
			}
			if a == triFalse && b == triFalse {
				return triFalse
			}
			return triUnknown
		case token.EQL, token.NEQ, token.LSS, token.GTR, token.LEQ, token.GEQ:
			a, ok1 := e.Int(v.X)
			b, ok2 := e.Int(v.Y)
			if !ok1 || !ok2 {
				return triUnknown
			}
			var r bool
			switch v.Op {
			case token.EQL:
				r = a == b
			case token.NEQ:
				r = a != b
			case token.LSS:
				r = a < b
			case token.GTR:
				r = a > b
			case token.LEQ:
				r = a <= b
			case token.GEQ:
				r = a >= b
			}
			if r {
				return triTrue
			}
			return triFalse
		}
	}
	return triUnknown
}

func (e *ArgEnv) formula(f *flow.F) tri {
	switch f.Op {
	case flow.OpTrue:
		return triTrue
	case flow.OpFalse:
		return triFalse
	case flow.OpAtom:
		if f.Expr != nil {
			return e.cond(f.Expr)
		}
		return triUnknown
	case flow.OpNot:
		switch e.formula(f.Kids[0]) {
		case triTrue:
			return triFalse
		case triFalse:
			return triTrue
		}
		return triUnknown
	case flow.OpAnd:
		r := triTrue
		for _, k := range f.Kids {
			switch e.formula(k) {
			case triFalse:
				return triFalse
			case triUnknown:
				r = triUnknown
			}
		}
		return r
	case flow.OpOr:
		r := triFalse
		for _, k := range f.Kids {
			switch e.formula(k) {
			case triTrue:
				return triTrue
			case triUnknown:
				r = triUnknown
			}
		}
		return r
	}
	return triUnknown
}

// Feasible: the block is reachable from entry along edges whose conditions are not definitely false
// in this environment (path-sensitive in the argument count).
func (e *ArgEnv) Feasible(b *flow.Block) bool {
	if !b.Reachable() {
		return false
	}
	seen := map[*flow.Block]bool{e.U.G.Entry: true}
	stack := []*flow.Block{e.U.G.Entry}
	for len(stack) > 0 {
		x := stack[len(stack)-1]
		stack = stack[:len(stack)-1]
		if x == b {
			return true
		}
		for _, ed := range x.Succs {
			t := ed.To
			if seen[t] {
				continue
			}
			if t.EdgeCond != nil && e.formula(t.EdgeCond) == triFalse {
				continue
			}
			seen[t] = true
			stack = append(stack, t)
		}
	}
	return false
}

// bindLocals records locals assigned (once) from Args-derived slices or from the command.
func (e *ArgEnv) bindLocals() {
	info := e.U.Info()
	for changed := true; changed; {
		changed = false
		for _, s := range e.U.Sites {
			if s.Kind != flow.SStore || s.Local == nil || s.Index || s.RHS == nil {
				continue
			}
			if _, done := e.Offs[s.Local]; done {
				continue
			}
			if off, ok := e.argsOff(s.RHS); ok {
				// only if it is the single assignment of that variable
				n := 0
				for _, t := range e.U.Sites {
					if t.Kind == flow.SStore && t.Local == s.Local && !t.Index {
						n++
					}
				}
				if n == 1 {
					e.Offs[s.Local] = off
					changed = true
				}
			}
			if id, ok := ast.Unparen(s.RHS).(*ast.Ident); ok && e.Cmd[info.ObjectOf(id)] && !e.Cmd[s.Local] {
				e.Cmd[s.Local] = true
				changed = true
			}
		}
	}
}

// ArgIssue is a possible out-of-range access of the argument vector.
type ArgIssue struct {
	Func string
	Pos  token.Pos
	What string
	N    int
}

// loopOf finds the innermost for statement containing pos.
func loopsContaining(body *ast.BlockStmt, pos token.Pos) []*ast.ForStmt {
	var out []*ast.ForStmt
	ast.Inspect(body, func(n ast.Node) bool {
		if n == nil {
			return true
		}
		if n.Pos() > pos || n.End() <= pos {
			return false
		}
		if f, ok := n.(*ast.ForStmt); ok {
			out = append(out, f)
		}
		return true
	})
	return out
}

// CheckAccesses examines every index / slice expression on an Args-derived slice in the unit for
// the concrete argument count of env, following calls into module functions that receive the
// command or an Args-derived slice (depth-limited). Unrecognised index shapes are reported as
// issues of kind "undecided".
func (w *World) CheckAccesses(env *ArgEnv, depth int, seen map[string]bool) []ArgIssue {
	u := env.U
	info := u.Info()
	env.bindLocals()
	var issues []ArgIssue
	blockOf := map[ast.Node]*flow.Block{}
	for _, b := range u.G.Blocks {
		for _, n := range b.Nodes {
			blockOf[n] = b
		}
	}
	// visit each node of each feasible block
	for _, b := range u.G.Blocks {
		if !env.Feasible(b) {
			continue
		}
		for _, n := range b.Nodes {
			root := ast.Node(n)
			if rh, ok := n.(*flow.RangeHead); ok {
				root = rh.Stmt.X
			}
			ast.Inspect(root, func(c ast.Node) bool {
				switch x := c.(type) {
				case *ast.FuncLit:
					return false
				case *ast.IndexExpr:
					off, ok := env.argsOff(x.X)
					if !ok {
						return true
					}
					issues = append(issues, w.checkIndex(env, x, x.Index, off, false)...)
				case *ast.SliceExpr:
					off, ok := env.argsOff(x.X)
					if !ok {
						return true
					}
					for _, bd := range []ast.Expr{x.Low, x.High, x.Max} {
						if bd != nil {
							issues = append(issues, w.checkIndex(env, x, bd, off, true)...)
						}
					}
				case *ast.CallExpr:
					if depth <= 0 {
						return true
					}
					f, ok := typeutil.Callee(info, x).(*types.Func)
					if !ok {
						return true
					}
					src := w.P.FuncOf(f)
					if src == nil || src.Decl.Body == nil {
						return true
					}
					sig := f.Type().(*types.Signature)
					cenv := &ArgEnv{N: env.N, Offs: map[types.Object]int{}, Cmd: map[types.Object]bool{}, Consts: map[types.Object]int64{}, Ints: map[types.Object]int64{}}
					pass := false
					for i, a := range x.Args {
						if i >= sig.Params().Len() {
							break
						}
						p := sig.Params().At(i)
						if sig.Variadic() && i == sig.Params().Len()-1 && !x.Ellipsis.IsValid() {
							break
						}
						if id, ok := ast.Unparen(a).(*ast.Ident); ok && env.Cmd[info.ObjectOf(id)] {
							cenv.Cmd[p] = true
							pass = true
						} else if off, ok := env.argsOff(a); ok {
							cenv.Offs[p] = off
							pass = true
						} else if v, ok := env.Int(a); ok {
							cenv.Consts[p] = v
						}
					}
					if !pass {
						return true
					}
					key := fmt.Sprintf("%s|%d|%v|%v", src.Name, env.N, cenv.Offs, cenv.Cmd)
					if seen[key] {
						return true
					}
					seen[key] = true
					cu, err := w.Unit(src.Name)
					if err != nil {
						return true
					}
					cenv.U = cu
					issues = append(issues, w.CheckAccesses(cenv, depth-1, seen)...)
				}
				return true
			})
		}
	}
	return issues
}

func (w *World) checkIndex(env *ArgEnv, at ast.Node, idx ast.Expr, off int, isSliceBound bool) []ArgIssue {
	u := env.U
	length := int64(env.N - off)
	mk := func(what string) []ArgIssue {
		return []ArgIssue{{Func: u.Name, Pos: at.Pos(), What: what, N: env.N}}
	}
	bad := func(k int64) bool {
		if isSliceBound {
			return k < 0 || k > length
		}
		return k < 0 || k >= length
	}
	if length < 0 {
		return mk(fmt.Sprintf("slice of the argument vector starts beyond its end (len(cmd.Args)=%d)", env.N))
	}
	if k, ok := env.Int(idx); ok {
		if bad(k) {
			return mk(fmt.Sprintf("%s with index %d but only %d element(s) (len(cmd.Args)=%d)", u.C.Term(at.(ast.Expr)), k, length, env.N))
		}
		return nil
	}
	// the index depends on a loop variable: enumerate the loop concretely
	info := u.Info()
	loops := loopsContaining(u.Body, at.Pos())
	for i := len(loops) - 1; i >= 0; i-- {
		lp := loops[i]
		init, ok := lp.Init.(*ast.AssignStmt)
		if !ok || len(init.Lhs) != 1 || len(init.Rhs) != 1 || lp.Cond == nil || lp.Post == nil {
			continue
		}
		iv, ok := init.Lhs[0].(*ast.Ident)
		if !ok {
			continue
		}
		obj := info.ObjectOf(iv)
		start, ok := env.Int(init.Rhs[0])
		if !ok {
			continue
		}
		step := int64(0)
		switch p := lp.Post.(type) {
		case *ast.IncDecStmt:
			if id, ok := p.X.(*ast.Ident); ok && info.ObjectOf(id) == obj && p.Tok == token.INC {
				step = 1
			}
		case *ast.AssignStmt:
			if len(p.Lhs) == 1 && len(p.Rhs) == 1 && p.Tok == token.ADD_ASSIGN {
				if id, ok := p.Lhs[0].(*ast.Ident); ok && info.ObjectOf(id) == obj {
					if s, ok := env.Int(p.Rhs[0]); ok && s > 0 {
						step = s
					}
				}
			}
		}
		if step == 0 {
			continue
		}
		// the loop variable must not be assigned in the body
		assigned := false
		ast.Inspect(lp.Body, func(c ast.Node) bool {
			switch s := c.(type) {
			case *ast.AssignStmt:
				for _, l := range s.Lhs {
					if id, ok := l.(*ast.Ident); ok && info.ObjectOf(id) == obj {
						assigned = true
					}
				}
			case *ast.IncDecStmt:
				if id, ok := s.X.(*ast.Ident); ok && info.ObjectOf(id) == obj {
					assigned = true
				}
			}
			return true
		})
		if assigned {
			continue
		}
		le := env.clone()
		var out []ArgIssue
		for v, iter := start, 0; iter < 64; v, iter = v+step, iter+1 {
			le.Ints[obj] = v
			c := le.cond(lp.Cond)
			if c == triFalse {
				break
			}
			if c == triUnknown {
				return mk("loop condition not evaluable for the enumerated argument count: " + u.C.Term(lp.Cond))
			}
			// guards inside the body
			feasible := true
			for _, b := range u.G.Blocks {
				for _, n := range b.Nodes {
					if n.Pos() <= at.Pos() && at.End() <= n.End() {
						if !le.Feasible(b) {
							feasible = false
						}
					}
				}
			}
			if !feasible {
				continue
			}
			k, ok := le.Int(idx)
			if !ok {
				return mk("index expression not evaluable: " + u.C.Term(idx))
			}
			if bad(k) {
				out = append(out, mk(fmt.Sprintf("%s reaches index %d in iteration %d but only %d element(s) (len(cmd.Args)=%d)", u.C.Term(at.(ast.Expr)), k, iter, length, env.N))...)
				break
			}
		}
		return out
	}
	// range loop over the same slice: the key is in range by construction
	if id, ok := ast.Unparen(idx).(*ast.Ident); ok {
		obj := info.ObjectOf(id)
		safe := false
		ast.Inspect(u.Body, func(c ast.Node) bool {
			if rs, ok := c.(*ast.RangeStmt); ok && rs.Key != nil && rs.Pos() <= at.Pos() && at.End() <= rs.End() {
				if k, ok := rs.Key.(*ast.Ident); ok && info.ObjectOf(k) == obj {
					if o2, ok := env.argsOff(rs.X); ok && o2 == off {
						safe = true
					}
				}
			}
			return true
		})
		if safe {
			return nil
		}
	}
	// symbolic guard: a dominating branch condition implies idx < len(base) (<= for a slice bound)
	if base := baseOf(at); base != nil {
		for _, b := range u.G.Blocks {
			for i, n := range b.Nodes {
				root := ast.Node(n)
				if rh, ok := n.(*flow.RangeHead); ok {
					root = rh.Stmt.X
				}
				if !(root.Pos() <= at.Pos() && at.End() <= root.End()) {
					continue
				}
				site := &flow.Site{Kind: flow.SUse, Block: b, NodeIdx: i, Pos: at.Pos(), Ctx: shortCircuitCtx(root, at)}
				it, lt := u.C.Term(idx), "len("+u.C.Term(base)+")"
				goal := flow.MakeCmp(token.LSS, it, lt, "", "")
				if isSliceBound {
					goal = flow.Not(flow.MakeCmp(token.LSS, lt, it, "", ""))
				}
				if res := flow.Implies(u.SitePC(site), goal); res.Holds && res.Undecided == "" {
					return nil
				}
			}
		}
	}
	return mk("undecided: index " + u.C.Term(idx) + " on the argument vector is neither constant, an enumerable loop variable, nor guarded by a dominating length test")
}

// ---------------------------------------------------------------- registry

// Registration is one Register*(name, handler) call found in a registration function.
type Registration struct {
	Kind    string // RegisterWrite, RegisterInternal, ...
	Name    string
	Unit    *Unit            // the handler body: a method, or the closure returned by a wrap constructor
	Consts  map[string]int64 // constants bound to the wrap constructor's parameters, by parameter name
	Wrapper string           // wrap constructor name, "" for a direct method value
	Pos     token.Pos
	Guarded bool // registered under a test-only condition
}

// Registrations resolves the handlers registered in the given function.
func (w *World) Registrations(fnName string) ([]*Registration, error) {
	u, err := w.Unit(fnName)
	if err != nil {
		return nil, err
	}
	info := u.Info()
	var out []*Registration
	for _, s := range u.Sites {
		if s.Kind != flow.SCall || s.Callee == nil || !strings.HasPrefix(s.Callee.Name(), "Register") || len(s.Call.Args) != 2 {
			continue
		}
		tv, ok := info.Types[s.Call.Args[0]]
		if !ok || tv.Value == nil || tv.Value.Kind() != constant.String {
			continue
		}
		reg := &Registration{Kind: s.Callee.Name(), Name: constant.StringVal(tv.Value), Pos: s.Pos, Consts: map[string]int64{}}
		reg.Guarded = u.SitePC(s).Op != flow.OpTrue
		h := ast.Unparen(s.Call.Args[1])
		if err := w.resolveHandler(u, h, reg, 0); err != nil {
			return nil, fmt.Errorf("%s: registration of %q: %v", u.Pos(s.Pos), reg.Name, err)
		}
		out = append(out, reg)
	}
	sort.SliceStable(out, func(i, j int) bool { return out[i].Name < out[j].Name })
	return out, nil
}

func (w *World) resolveHandler(u *Unit, h ast.Expr, reg *Registration, depth int) error {
	info := u.Info()
	switch x := h.(type) {
	case *ast.SelectorExpr, *ast.Ident:
		var obj types.Object
		if se, ok := x.(*ast.SelectorExpr); ok {
			obj = info.ObjectOf(se.Sel)
		} else {
			obj = info.ObjectOf(x.(*ast.Ident))
		}
		f, ok := obj.(*types.Func)
		if !ok {
			return fmt.Errorf("handler is not a function or method value")
		}
		src := w.P.FuncOf(f)
		if src == nil {
			return fmt.Errorf("handler %s is outside the module", f.Name())
		}
		hu, err := w.Unit(src.Name)
		if err != nil {
			return err
		}
		reg.Unit = hu
		return nil
	case *ast.CallExpr:
		f, ok := typeutil.Callee(info, x).(*types.Func)
		if !ok {
			return fmt.Errorf("handler constructor is not a static call")
		}
		src := w.P.FuncOf(f)
		if src == nil {
			return fmt.Errorf("handler constructor %s is outside the module", f.Name())
		}
		cu, err := w.Unit(src.Name)
		if err != nil {
			return err
		}
		if reg.Wrapper == "" {
			reg.Wrapper = src.Name
		}
		// bind constant arguments to the constructor's parameter names
		sig := f.Type().(*types.Signature)
		consts := map[string]int64{}
		for i, a := range x.Args {
			if i < sig.Params().Len() {
				if tv, ok := info.Types[a]; ok && tv.Value != nil && tv.Value.Kind() == constant.Int {
					v, _ := constant.Int64Val(tv.Value)
					consts[sig.Params().At(i).Name()] = v
				} else if id, ok := ast.Unparen(a).(*ast.Ident); ok {
					if v, ok := reg.Consts[id.Name]; ok {
						consts[sig.Params().At(i).Name()] = v
					}
				}
			}
		}
		reg.Consts = consts
		// the constructor returns a closure, or delegates to another constructor
		var rets []*flow.Site
		for _, s := range cu.Sites {
			if s.Kind == flow.SReturn && s.Block.Reachable() {
				rets = append(rets, s)
			}
		}
		if len(rets) != 1 || len(rets[0].Ret.Results) != 1 {
			return fmt.Errorf("constructor %s does not have a single return", src.Name)
		}
		res := ast.Unparen(rets[0].Ret.Results[0])
		if fl, ok := res.(*ast.FuncLit); ok {
			for _, l := range cu.Lits() {
				if l.Lit == fl {
					reg.Unit = l
					return nil
				}
			}
			return fmt.Errorf("closure of %s not found", src.Name)
		}
		if depth < 3 {
			return w.resolveHandler(cu, res, reg, depth+1)
		}
	}
	return fmt.Errorf("unrecognised handler expression")
}

// EnvFor builds the argument environment of a registered handler for a concrete count: the command
// is the parameter of type redcon.Command; wrapper constants are bound to the captured variables.
func (w *World) EnvFor(reg *Registration, n int) *ArgEnv {
	u := reg.Unit
	env := &ArgEnv{U: u, N: n, Offs: map[types.Object]int{}, Cmd: map[types.Object]bool{}, Consts: map[types.Object]int64{}, Ints: map[types.Object]int64{}}
	if u.Type != nil && u.Type.Params != nil {
		for _, f := range u.Type.Params.List {
			t := u.Info().TypeOf(f.Type)
			if t != nil && strings.HasSuffix(t.String(), "redcon.Command") {
				for _, nm := range f.Names {
					env.Cmd[u.Info().ObjectOf(nm)] = true
				}
			}
		}
	}
	if u.Lit != nil && len(reg.Consts) > 0 {
		// captured parameters of the enclosing constructor
		ast.Inspect(u.Body, func(c ast.Node) bool {
			if id, ok := c.(*ast.Ident); ok {
				if v, ok := reg.Consts[id.Name]; ok {
					if o := u.Info().ObjectOf(id); o != nil {
						if _, isVar := o.(*types.Var); isVar {
							env.Consts[o] = v
						}
					}
				}
			}
			return true
		})
	}
	return env
}

var _ = load.ModPath

func baseOf(at ast.Node) ast.Expr {
	switch x := at.(type) {
	case *ast.IndexExpr:
		return x.X
	case *ast.SliceExpr:
		return x.X
	}
	return nil
}

// shortCircuitCtx rebuilds the && / || context of a sub-expression inside a condition.
func shortCircuitCtx(root, at ast.Node) *flow.F {
	ctx := flow.True()
	var walk func(n ast.Node, c *flow.F) bool
	walk = func(n ast.Node, c *flow.F) bool {
		if n == nil {
			return false
		}
		if n == at {
			ctx = c
			return true
		}
		if be, ok := n.(*ast.BinaryExpr); ok && (be.Op == token.LAND || be.Op == token.LOR) {
			if walk(be.X, c) {
				return true
			}
			l := flow.FromExpr(be.X)
			if be.Op == token.LOR {
				l = flow.Not(l)
			}
			return walk(be.Y, flow.And(c, l))
		}
		found := false
		ast.Inspect(n, func(k ast.Node) bool {
			if found || k == nil {
				return false
			}
			if k == n {
				return true
			}
			if k.Pos() <= at.Pos() && at.End() <= k.End() {
				found = walk(k, c)
			}
			return false
		})
		return found
	}
	walk(root, flow.True())
	return ctx
}
