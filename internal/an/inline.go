package an

import (
	"fmt"
	"go/ast"
	"go/token"
	"go/types"
	"strconv"
	"strings"

	"golang.org/x/tools/go/types/typeutil"

	"verif/internal/flow"
	"verif/internal/load"
)

// Helper predicates. `canVote := r.canVoteFor(m)` says the same as the condition written out in place. When
// World.InlinePreds is set, a call of a module function that
//   - returns exactly one bool, is a deterministic observer (see detObserver),
//   - has a loop-free body without defer/go/select/function literals whose only assignments define single-assignment
//     locals that print as their definitions, and
//   - whose returned conditions mention nothing but its receiver and parameters
// is replaced, in conditions, by the disjunction over its return statements of (path condition ∧ returned condition),
// with the receiver and parameters replaced by the caller's terms. The check driver uses this as a second reading of
// the same code: an obligation that fails with helper calls opaque and holds with them inlined holds.

type predFormula struct {
	f       *flow.F
	nparams int
	hasRecv bool
}

func (w *World) predOf(f *types.Func) *predFormula {
	if p, ok := w.predMemo[f]; ok {
		return p
	}
	if w.predMemo == nil {
		w.predMemo = map[*types.Func]*predFormula{}
	}
	w.predMemo[f] = nil // recursion: opaque
	sig := f.Type().(*types.Signature)
	if sig.Results().Len() != 1 || sig.Variadic() {
		return nil
	}
	if b, ok := sig.Results().At(0).Type().Underlying().(*types.Basic); !ok || b.Kind() != types.Bool {
		return nil
	}
	src := w.P.FuncOf(f)
	if src == nil || src.Decl.Body == nil || !w.detObserver(f, 0) {
		return nil
	}
	if src.Decl.Type.Results != nil && len(src.Decl.Type.Results.List) > 0 && len(src.Decl.Type.Results.List[0].Names) > 0 {
		return nil // named result
	}
	simple := true
	ast.Inspect(src.Decl.Body, func(n ast.Node) bool {
		switch x := n.(type) {
		case *ast.ForStmt, *ast.RangeStmt, *ast.DeferStmt, *ast.GoStmt, *ast.SelectStmt, *ast.FuncLit, *ast.LabeledStmt, *ast.TypeSwitchStmt:
			simple = false
		case *ast.BranchStmt:
			if x.Tok == token.GOTO || x.Tok == token.FALLTHROUGH {
				simple = false
			}
		}
		return simple
	})
	if !simple {
		return nil
	}
	u, err := w.Unit(src.Name)
	if err != nil {
		return nil
	}
	var parts []*flow.F
	for _, s := range u.Sites {
		switch s.Kind {
		case flow.SStore:
			if s.Local == nil {
				return nil
			}
		case flow.SReturn:
			if !s.Block.Reachable() {
				continue
			}
			if len(s.Ret.Results) != 1 {
				return nil
			}
			raw := flow.FromExpr(s.Ret.Results[0])
			vars, _ := u.C.Footprint(raw)
			for v := range vars {
				if _, isRole := u.C.RoleOf(v); !isRole {
					return nil
				}
			}
			pc := u.SitePC(s)
			parts = append(parts, flow.And(pc, u.C.Formula(raw)))
		}
	}
	if len(parts) == 0 {
		return nil
	}
	res := flow.Simplify(flow.Or(parts...))
	atoms := map[string]*flow.F{}
	res.Atoms(atoms)
	if len(atoms) > 8 {
		return nil
	}
	// the path conditions too must mention roles only: every identifier-looking local name is refused by checking
	// the atoms' text against the function's locals
	for k := range atoms {
		for _, ls := range u.C.LocalTerms() {
			if containsIdent(k, ls) {
				return nil
			}
		}
	}
	p := &predFormula{f: res, nparams: sig.Params().Len(), hasRecv: sig.Recv() != nil}
	w.predMemo[f] = p
	return p
}

func containsIdent(text, name string) bool {
	return flow.ReplaceIdent(text, name, "\x00") != text
}

// inlineCall returns the caller-side formula of a helper predicate call, or nil.
func (w *World) inlineCall(u *Unit, call *ast.CallExpr) *flow.F {
	info := u.Info()
	callee, ok := typeutil.Callee(info, call).(*types.Func)
	if !ok {
		return nil
	}
	p := w.predOf(callee)
	if p == nil || len(call.Args) != p.nparams {
		return nil
	}
	sub := map[string]string{}
	consts := map[string]string{}
	if p.hasRecv {
		sel, ok := ast.Unparen(call.Fun).(*ast.SelectorExpr)
		if !ok {
			return nil
		}
		if s := info.Selections[sel]; s == nil || s.Kind() != types.MethodVal {
			return nil
		}
		sub["recv"] = u.C.Term(sel.X)
	}
	for i, a := range call.Args {
		k := "p" + strconv.Itoa(i)
		sub[k] = u.C.Term(a)
		consts[k] = u.C.ConstOf(a)
	}
	return substFormula(p.f, sub, consts)
}

func substTerm(t string, sub map[string]string) string {
	// simultaneous substitution: first to placeholders, then to the terms
	i := 0
	ph := map[string]string{}
	for k := range sub {
		h := "\x01" + strconv.Itoa(i) + "\x02"
		i++
		nt := flow.ReplaceIdent(t, k, h)
		if nt != t {
			ph[h] = sub[k]
			t = nt
		}
	}
	for h, v := range ph {
		t = strings.ReplaceAll(t, h, v)
	}
	return t
}

func substFormula(f *flow.F, sub, consts map[string]string) *flow.F {
	switch f.Op {
	case flow.OpTrue, flow.OpFalse:
		return f
	case flow.OpNot:
		return flow.Not(substFormula(f.Kids[0], sub, consts))
	case flow.OpAnd, flow.OpOr:
		var ks []*flow.F
		for _, k := range f.Kids {
			ks = append(ks, substFormula(k, sub, consts))
		}
		if f.Op == flow.OpAnd {
			return flow.And(ks...)
		}
		return flow.Or(ks...)
	}
	if f.Cmp != nil {
		l, r := substTerm(f.Cmp.L, sub), substTerm(f.Cmp.R, sub)
		lc, rc := f.Cmp.LConst, f.Cmp.RConst
		if c, ok := consts[f.Cmp.L]; ok && c != "" {
			lc = c
		}
		if c, ok := consts[f.Cmp.R]; ok && c != "" {
			rc = c
		}
		op := token.EQL
		if f.Cmp.Op == "<" {
			op = token.LSS
		}
		if lc != "" && rc != "" && lc == rc && op == token.EQL {
			return flow.True()
		}
		return flow.MakeCmp(op, l, r, lc, rc)
	}
	if c, ok := consts[f.Key]; ok {
		if c == "true" {
			return flow.True()
		}
		if c == "false" {
			return flow.False()
		}
	}
	return flow.AtomKey(substTerm(f.Key, sub))
}

// exprHelper: the call is to a function of the same package whose body is `return e`, which is a deterministic
// observer, and which either did not exist when the rule tables were written (always read as e) or is read as e on the
// second reading.
func (w *World) exprHelper(fn *load.Func, call *ast.CallExpr) *ast.FuncDecl {
	if w.Vocab == nil || len(w.Vocab[FunctionsKey]) == 0 || w.NoSplice {
		return nil
	}
	callee, ok := typeutil.Callee(fn.Pkg.TypesInfo, call).(*types.Func)
	if !ok {
		return nil
	}
	if d, ok := w.exprMemo[callee]; ok {
		return d
	}
	if w.exprMemo == nil {
		w.exprMemo = map[*types.Func]*ast.FuncDecl{}
	}
	w.exprMemo[callee] = nil
	src := w.P.FuncOf(callee)
	if src == nil || src.Decl.Body == nil || src.Pkg != fn.Pkg || src.Obj != callee || src.Decl == fn.Decl {
		return nil
	}
	if w.knownFunc(src.Name) && !w.InlinePreds {
		return nil
	}
	if len(src.Decl.Body.List) != 1 {
		return nil
	}
	ret, ok := src.Decl.Body.List[0].(*ast.ReturnStmt)
	if !ok || len(ret.Results) != 1 {
		return nil
	}
	if sig := callee.Type().(*types.Signature); sig.Results().Len() != 1 || sig.Variadic() {
		return nil
	}
	if !w.detObserver(callee, 0) {
		return nil
	}
	w.exprMemo[callee] = src.Decl
	return src.Decl
}

// TruthFormula: the condition under which a loop-free function with one boolean result returns true: the disjunction
// over its return statements of (path condition ∧ returned condition). Independent of how the returns are arranged
// (one expression, guard clauses, nested ifs, a switch).
func (u *Unit) TruthFormula() (*flow.F, string) {
	why := ""
	ast.Inspect(u.Body, func(n ast.Node) bool {
		switch x := n.(type) {
		case *ast.ForStmt, *ast.RangeStmt, *ast.SelectStmt, *ast.LabeledStmt:
			why = "the function has a loop, select or label"
		case *ast.BranchStmt:
			if x.Tok == token.GOTO {
				why = "goto"
			}
		case *ast.FuncLit:
			return false
		}
		return why == ""
	})
	if why != "" {
		return nil, why
	}
	var parts []*flow.F
	for _, s := range u.Sites {
		if s.Kind != flow.SReturn || !s.Block.Reachable() {
			continue
		}
		if len(s.Ret.Results) != 1 {
			return nil, "a return without exactly one result"
		}
		parts = append(parts, flow.And(u.SitePC(s), u.C.Formula(flow.FromExpr(s.Ret.Results[0]))))
	}
	if len(parts) == 0 {
		return nil, "no return statement"
	}
	return flow.Simplify(flow.Or(parts...)), ""
}

// Truth: the function returns true exactly when want holds (dir as in ReturnFormula).
func (r *Report) Truth(rule string, u *Unit, want string, dir Dir) {
	construct := fmt.Sprintf("%s: returns true iff %s", u.Name, want)
	got, why := u.TruthFormula()
	if got == nil {
		r.Unknown(rule, construct, "", why)
		return
	}
	w := u.W.Parse(want)
	ok, detail := true, "returns true iff "+got.String()
	if dir == Equiv || dir == ActualImpliesWant {
		if res := flow.Implies(got, w); res.Undecided != "" {
			r.Unknown(rule, construct, "", res.Undecided)
			return
		} else if !res.Holds {
			ok = false
			detail += "; true is returned where the expected condition is false; row: " + counterString(res.Counter)
		}
	}
	if dir == Equiv || dir == WantImpliesActual {
		if res := flow.Implies(w, got); res.Undecided != "" {
			r.Unknown(rule, construct, "", res.Undecided)
			return
		} else if !res.Holds {
			ok = false
			detail += "; false is returned where the expected condition is true; row: " + counterString(res.Counter)
		}
	}
	r.Check(rule, construct, u.Pos(u.Body.Pos()), ok, detail)
}

// InspectAll walks the function's body and the bodies of the helpers read in place of their calls.
func (u *Unit) InspectAll(f func(ast.Node) bool) {
	ast.Inspect(u.Body, f)
	for _, ic := range u.G.Inlined {
		ast.Inspect(ic.Decl.Body, f)
	}
}

// LoopCollections lists the canonical terms of the collections the function loops over, whatever the loop form:
// `for .. := range X` and `for i := 0; i < len(X); i++`.
func (u *Unit) LoopCollections() []string {
	bodies := []ast.Node{u.Body}
	for _, ic := range u.G.Inlined {
		bodies = append(bodies, ic.Decl.Body)
	}
	seen := map[ast.Node]bool{}
	var out []string
	for _, body := range bodies {
		ast.Inspect(body, func(n ast.Node) bool {
			switch x := n.(type) {
			case *ast.FuncLit:
				return false
			case *ast.RangeStmt:
				if !seen[x] {
					seen[x] = true
					out = append(out, u.C.Term(x.X))
				}
			case *ast.ForStmt:
				for o, X := range flow.IndexLoops(u.Info(), []ast.Node{x}) {
					_ = o
					if !seen[x] {
						seen[x] = true
						out = append(out, u.C.Term(X))
					}
				}
			}
			return true
		})
	}
	return out
}

// FlagRefine strengthens a path condition that knows a boolean *flag* to be true: a local all of whose assignments
// store the constants true or false is true only if one of the `= true` assignments was the last one executed, so the
// condition under which one of them is reached holds as well (as far as it is still valid: the conditions of those
// sites are taken with the usual staleness filter relative to themselves, and a flag that is assigned inside a loop
// that also contains the site is left alone). `found := false; for … { if a == b { found = true } }; if found { S }`
// gives S the knowledge "a == b held for some element".
func (u *Unit) FlagRefine(pc *flow.F, at *flow.Site) *flow.F {
	atoms := map[string]*flow.F{}
	pc.Atoms(atoms)
	for k, a := range atoms {
		if a.Cmp != nil {
			continue
		}
		var obj types.Object
		for _, s := range u.Sites {
			if s.Kind == flow.SStore && s.Local != nil && !s.Index {
				if id, ok := ast.Unparen(s.LHS).(*ast.Ident); ok && u.C.Term(id) == k {
					obj = s.Local
				}
			}
		}
		if obj == nil {
			continue
		}
		if b, ok := obj.Type().Underlying().(*types.Basic); !ok || b.Kind() != types.Bool {
			continue
		}
		if res := flow.Implies(pc, a); !res.Holds || res.Undecided != "" {
			continue
		}
		var trues []*flow.F
		okFlag := true
		for _, s := range u.Sites {
			if s.Kind != flow.SStore || s.Local != obj || s.Index {
				continue
			}
			if s.RHS == nil {
				if s.Tuple == nil && s.Tok == token.DEFINE {
					continue // `var flag bool`: false
				}
				okFlag = false
				break
			}
			switch u.C.ConstOf(s.RHS) {
			case "true":
				if s == at {
					okFlag = false
				}
				trues = append(trues, u.SitePC(s))
			case "false":
			default:
				okFlag = false
			}
		}
		if !okFlag || len(trues) == 0 {
			continue
		}
		pc = flow.And(pc, flow.Or(trues...))
	}
	return pc
}
