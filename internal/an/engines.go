package an

import (
	"go/token"
	"strconv"
	"fmt"
	"go/ast"
	"go/types"
	"sort"
	"strings"

	"verif/internal/flow"
)

// ---------------------------------------------------------------- success edges

type Success int

const (
	Reached Success = iota // the call merely has to be passed
	NilErr                 // its error result was tested and found nil
	IsTrue                 // its boolean result was tested and found true
	IsFalse
)

// gate is a place that a path must pass: either a site position or a (split) edge block.
type gate struct {
	site *flow.Site
	edge *flow.Block
}

// successGates returns the edges on which call site a is known to have succeeded.
func (u *Unit) successGates(a *flow.Site, mode Success, assume *flow.F) ([]gate, string) {
	if mode == Reached {
		return []gate{{site: a}}, ""
	}
	info := u.Info()
	node := a.Block.Nodes[a.NodeIdx]
	var v types.Object // variable holding the tested result
	var term string
	direct := false
	pick := func(lhs []ast.Expr, rhs ast.Expr) bool {
		if ast.Unparen(rhs) != ast.Expr(a.Call) {
			return false
		}
		// which result: error => last; bool => last too (comma-ok) or the only one
		i := len(lhs) - 1
		id, ok := lhs[i].(*ast.Ident)
		if !ok || id.Name == "_" {
			return false
		}
		v = info.ObjectOf(id)
		term = u.C.Term(id)
		return v != nil
	}
	switch x := node.(type) {
	case *ast.AssignStmt:
		if len(x.Rhs) == 1 {
			pick(x.Lhs, x.Rhs[0])
		} else {
			for i, r := range x.Rhs {
				if pick(x.Lhs[i:i+1], r) {
					break
				}
			}
		}
	case *ast.ValueSpec:
		var lhs []ast.Expr
		for _, n := range x.Names {
			lhs = append(lhs, n)
		}
		if len(x.Values) == 1 {
			pick(lhs, x.Values[0])
		}
	case ast.Expr:
		direct = true
		term = u.C.Term(a.Call)
	}
	if v == nil && !direct {
		return nil, "the result of the call is not assigned to a variable or tested"
	}
	var want *flow.F
	switch mode {
	case NilErr:
		want = flow.MakeCmp(tokEQL, term, "nil", "", "nil")
	case IsTrue:
		want = flow.AtomKey(term)
	case IsFalse:
		want = flow.Not(flow.AtomKey(term))
	}
	var gates []gate
	for _, b := range u.G.Blocks {
		if b.EdgeCond == nil || !b.Reachable() {
			continue
		}
		f := u.C.Formula(b.EdgeCond)
		atoms := map[string]*flow.F{}
		f.Atoms(atoms)
		mentions := false
		for k := range atoms {
			if strings.Contains(k, term) {
				mentions = true
			}
		}
		if !mentions {
			continue
		}
		if assume != nil {
			f = flow.And(f, assume)
		}
		if r := flow.Implies(f, want); !r.Holds || r.Undecided != "" {
			continue
		}
		from := b.Preds[0].From
		if direct {
			if from != a.Block {
				continue
			}
		} else if !u.onlyDefReaching(v, a, from) {
			continue
		}
		gates = append(gates, gate{edge: b})
	}
	if len(gates) == 0 {
		return nil, fmt.Sprintf("no branch tests the result (%s) of the call", term)
	}
	return gates, ""
}

// onlyDefReaching: every backward path from the end of block `at` meets the assignment made at
// site a before any other assignment to v.
func (u *Unit) onlyDefReaching(v types.Object, a *flow.Site, at *flow.Block) bool {
	type key struct{ b *flow.Block }
	seen := map[*flow.Block]bool{}
	ok := true
	var back func(b *flow.Block, from int)
	// assigns reports 1 when n assigns v an unknown value, 2 when it assigns a provably non-nil
	// error (errors.New, fmt.Errorf, a package-level error variable): on such a path the nil test fails
	// anyway, so it does not weaken the evidence.
	nonNilErr := func(e ast.Expr) bool {
		switch x := ast.Unparen(e).(type) {
		case *ast.CallExpr:
			if se, ok := x.Fun.(*ast.SelectorExpr); ok && (se.Sel.Name == "New" || se.Sel.Name == "Errorf") {
				return true
			}
		case *ast.Ident:
			o := u.Info().ObjectOf(x)
			return o != nil && o.Pkg() != nil && o.Parent() == o.Pkg().Scope() && isErrorType(o.Type())
		case *ast.SelectorExpr:
			o := u.Info().ObjectOf(x.Sel)
			return o != nil && o.Pkg() != nil && o.Parent() == o.Pkg().Scope() && isErrorType(o.Type())
		}
		return false
	}
	assigns := func(n ast.Node) int {
		found := 0
		ast.Inspect(n, func(c ast.Node) bool {
			switch x := c.(type) {
			case *ast.FuncLit:
				return false
			case *ast.AssignStmt:
				for i, l := range x.Lhs {
					if id, ok := l.(*ast.Ident); ok && u.Info().ObjectOf(id) == v {
						if len(x.Lhs) == len(x.Rhs) && nonNilErr(x.Rhs[i]) && found == 0 {
							found = 2
						} else {
							found = 1
						}
					}
				}
			case *ast.ValueSpec:
				for _, id := range x.Names {
					if u.Info().ObjectOf(id) == v {
						found = 1
					}
				}
			}
			return true
		})
		return found
	}
	back = func(b *flow.Block, from int) {
		for i := from; i >= 0; i-- {
			n := b.Nodes[i]
			if b == a.Block && i == a.NodeIdx {
				return
			}
			switch assigns(n) {
			case 1:
				ok = false
				return
			case 2:
				return
			}
		}
		if b == u.G.Entry {
			ok = false
			return
		}
		for _, e := range b.Preds {
			if !seen[e.From] {
				seen[e.From] = true
				back(e.From, len(e.From.Nodes)-1)
			}
		}
	}
	back(at, len(at.Nodes)-1)
	return ok
}

// ---------------------------------------------------------------- path search

type pathStep struct {
	b     *flow.Block
	prev  *pathStep
	state string // polarities of the stable literals met on the way (see search)
}

func (u *Unit) describePath(p *pathStep) string {
	var conds []string
	for s := p; s != nil; s = s.prev {
		if s.b.EdgeCond != nil {
			conds = append(conds, u.C.Formula(s.b.EdgeCond).String())
		} else if s.b.Kind == "edge" {
			conds = append(conds, "·")
		}
	}
	for i, j := 0, len(conds)-1; i < j; i, j = i+1, j-1 {
		conds[i], conds[j] = conds[j], conds[i]
	}
	if len(conds) > 14 {
		conds = append(conds[:6], append([]string{"…"}, conds[len(conds)-7:]...)...)
	}
	return strings.Join(conds, " → ")
}

// search walks forward from (start block, start node index) and returns a path to a target without
// passing a stop. stopNode/targetNode are evaluated per node; stopBlock cuts whole blocks (edge gates).
// Paths that take both branches of a test on the same *stable literal* are not followed: a stable literal is a branch
// condition that is a plain boolean local or parameter (possibly negated); its value is fixed between two assignments
// to it, so `if flag {A}; …; if !flag {B}` has no path through neither A nor B. The polarity seen is forgotten at every
// assignment to the variable (loops re-define per-iteration locals).
func (u *Unit) search(start *flow.Block, from int, stopBlock func(*flow.Block) bool,
	visit func(b *flow.Block, i int) (stop, hit bool), exitHit func(*flow.Block) bool) *pathStep {
	u.stableLits()
	type key struct {
		b  *flow.Block
		st string
	}
	seen := map[key]bool{}
	var queue []*pathStep
	scan := func(ps *pathStep, from int) (*pathStep, bool) {
		b := ps.b
		for i := from; i < len(b.Nodes); i++ {
			stop, hit := visit(b, i)
			if hit {
				return ps, true
			}
			if stop {
				return nil, true
			}
			for _, k := range u.litAssigned[litPos{b, i}] {
				ps.state = dropLit(ps.state, k)
			}
			// y = x for two tracked variables: y now is what x is known to be
			for _, cp := range u.litCopy[litPos{b, i}] {
				switch hasLit(ps.state, cp[1]) {
				case 1:
					ps.state = addLit(ps.state, cp[0], true)
				case 2:
					ps.state = addLit(ps.state, cp[0], false)
				}
			}
		}
		return nil, false
	}
	first := &pathStep{b: start}
	if r, done := scan(first, from); done {
		return r
	}
	queue = append(queue, first)
	for len(queue) > 0 {
		ps := queue[0]
		queue = queue[1:]
		for _, e := range ps.b.Succs {
			nb := e.To
			st := ps.state
			if l, ok := u.edgeLit[nb]; ok {
				switch hasLit(st, l.key) {
				case 0:
					st = addLit(st, l.key, l.pol)
				case 1:
					if !l.pol {
						continue // the literal was seen true on this path
					}
				case 2:
					if l.pol {
						continue
					}
				}
			}
			if seen[key{nb, st}] {
				continue
			}
			seen[key{nb, st}] = true
			if stopBlock != nil && stopBlock(nb) {
				continue
			}
			nps := &pathStep{b: nb, prev: ps, state: st}
			if exitHit != nil && exitHit(nb) {
				return nps
			}
			if r, done := scan(nps, 0); done {
				if r != nil {
					return r
				}
				continue
			}
			queue = append(queue, nps)
		}
	}
	return nil
}

type litPos struct {
	b *flow.Block
	i int
}
type edgeLiteral struct {
	key string
	pol bool
}

// state encoding: ";key=1;other=0;"
func hasLit(st, k string) int {
	if strings.Contains(st, ";"+k+"=1;") {
		return 1
	}
	if strings.Contains(st, ";"+k+"=0;") {
		return 2
	}
	return 0
}
func addLit(st, k string, pol bool) string {
	if st == "" {
		st = ";"
	}
	if pol {
		return st + k + "=1;"
	}
	return st + k + "=0;"
}
func dropLit(st, k string) string {
	st = strings.Replace(st, ";"+k+"=1;", ";", 1)
	return strings.Replace(st, ";"+k+"=0;", ";", 1)
}

// stableLits finds the branch edges whose condition is a plain boolean variable or its negation, and where those
// variables are assigned. At most six variables are tracked per function.
func (u *Unit) stableLits() {
	if u.edgeLit != nil {
		return
	}
	u.edgeLit = map[*flow.Block]edgeLiteral{}
	u.litAssigned = map[litPos][]string{}
	tracked := map[string]types.Object{}
	for _, b := range u.G.Blocks {
		if b.EdgeCond == nil {
			continue
		}
		f := b.EdgeCond
		pol := true
		for f.Op == flow.OpNot && len(f.Kids) == 1 {
			f, pol = f.Kids[0], !pol
		}
		if f.Op != flow.OpAtom || f.Expr == nil {
			continue
		}
		id, ok := ast.Unparen(f.Expr).(*ast.Ident)
		if !ok {
			// x == nil / x != nil for a local x: the literal "x is nil"
			if be, isBin := ast.Unparen(f.Expr).(*ast.BinaryExpr); isBin && (be.Op == token.EQL || be.Op == token.NEQ) {
				var other ast.Expr
				if xi, isId := ast.Unparen(be.X).(*ast.Ident); isId && xi.Name != "nil" {
					id, other = xi, be.Y
				} else if yi, isId := ast.Unparen(be.Y).(*ast.Ident); isId && yi.Name != "nil" {
					id, other = yi, be.X
				}
				if id != nil {
					if ni, isNil := ast.Unparen(other).(*ast.Ident); isNil && ni.Name == "nil" {
						ok = true
						if be.Op == token.NEQ {
							pol = !pol
						}
					} else {
						id = nil
					}
				}
			}
			if !ok || id == nil {
				continue
			}
		}
		v, isVar := u.Info().ObjectOf(id).(*types.Var)
		if !isVar || v.IsField() || v.Pkg() == nil || v.Parent() == v.Pkg().Scope() {
			continue
		}
		// (keyed by the variable itself: whether it prints as its name or as its definition does not matter here)
		k := v.Name() + "@" + strconv.Itoa(int(v.Pos()))
		if o, known := tracked[k]; known && o != types.Object(v) {
			continue
		}
		if _, known := tracked[k]; !known && len(tracked) >= 10 {
			continue
		}
		tracked[k] = v
		u.edgeLit[b] = edgeLiteral{k, pol}
	}
	u.litCopy = map[litPos][][2]string{}
	keyOf := map[types.Object]string{}
	for k, o := range tracked {
		keyOf[o] = k
	}
	for _, s := range u.Sites {
		if s.Kind != flow.SStore || s.Local == nil || s.Index {
			continue
		}
		k, isTracked := keyOf[s.Local]
		if !isTracked {
			continue
		}
		p := litPos{s.Block, s.NodeIdx}
		u.litAssigned[p] = append(u.litAssigned[p], k)
		if s.RHS != nil {
			if rid, isId := ast.Unparen(s.RHS).(*ast.Ident); isId {
				if sk, srcTracked := keyOf[u.Info().ObjectOf(rid)]; srcTracked && sk != k {
					u.litCopy[p] = append(u.litCopy[p], [2]string{k, sk})
				}
			}
		}
	}
}

// ---------------------------------------------------------------- ORDER

type OrderOpts struct {
	Success Success
	Unless  string // rule formula: B sites whose path condition implies it are exempt
	Assume  string // rule formula: only paths consistent with it are considered
	SkipErrEdges bool // edges taken only when some error variable is non-nil are not followed (error paths)
	Min     int    // minimum number of B sites
	What    string // one-line meaning, for the evidence
}

// Order: in unit u every path from entry to a site matching b passes a site matching one of the
// alternatives in as (with the requested success evidence).
func (r *Report) Order(rule string, u *Unit, b M, as []M, o OrderOpts) {
	bs := u.Match(b)
	r.Min(rule, len(bs), max(o.Min, 1), u.Name+": "+b.Desc())
	r.OrderSites(rule, u, bs, nil, as, o)
}

// OrderSites is Order for an explicit list of target sites (which may be synthetic, e.g. variable
// uses); label, if non-nil, names each target in the construct.
func (r *Report) OrderSites(rule string, u *Unit, bs []*flow.Site, label func(*flow.Site) string, as []M, o OrderOpts) {
	var gates []gate
	var why []string
	na := 0
	var assume *flow.F
	if o.Assume != "" {
		assume = u.W.Parse(o.Assume)
	}
	for _, am := range as {
		if am.kind == edgeKind {
			want := u.W.Parse(am.term)
			for _, b := range u.G.Blocks {
				if b.EdgeCond == nil || !b.Reachable() {
					continue
				}
				if res := flow.Implies(u.edgeFormula(b), want); res.Holds && res.Undecided == "" {
					gates = append(gates, gate{edge: b})
					na++
				}
			}
			continue
		}
		for _, a := range u.Match(am) {
			na++
			mode := o.Success
			if am.succ != nil {
				mode = *am.succ
			}
			g, msg := u.successGates(a, mode, assume)
			if msg != "" {
				why = append(why, fmt.Sprintf("%s at %s: %s", am.Desc(), u.Pos(a.Pos), msg))
			}
			gates = append(gates, g...)
		}
	}
	var adesc []string
	for _, am := range as {
		adesc = append(adesc, am.Desc())
	}
	edgeGate := map[*flow.Block]bool{}
	siteGate := map[*flow.Block]map[int][]*flow.Site{}
	for _, g := range gates {
		if g.edge != nil {
			edgeGate[g.edge] = true
		} else {
			if siteGate[g.site.Block] == nil {
				siteGate[g.site.Block] = map[int][]*flow.Site{}
			}
			siteGate[g.site.Block][g.site.NodeIdx] = append(siteGate[g.site.Block][g.site.NodeIdx], g.site)
		}
	}
	var unless *flow.F
	if o.Unless != "" {
		unless = u.W.Parse(o.Unless)
	}
	if o.Assume != "" {
		as := u.W.Parse(o.Assume)
		for _, b := range u.G.Blocks {
			if b.EdgeCond == nil || !b.Reachable() {
				continue
			}
			if res := flow.Implies(flow.And(u.edgeFormula(b), as), flow.False()); res.Holds && res.Undecided == "" {
				edgeGate[b] = true // contradicts the assumption: not on any considered path
			}
		}
	}
	if o.SkipErrEdges {
		for b := range u.errEdges() {
			edgeGate[b] = true
		}
	}
	for _, bsite := range bs {
		bname := ""
		if label != nil {
			bname = label(bsite)
		} else {
			bname = u.SiteString(bsite)
		}
		construct := fmt.Sprintf("%s: %s preceded by %s", u.Name, bname, strings.Join(adesc, " | "))
		if o.SkipErrEdges {
			construct += " on non-error paths"
		}
		if o.Assume != "" {
			construct += " assuming " + o.Assume
		}
		if unless != nil {
			if res := flow.Implies(u.SitePC(bsite), unless); res.Holds && res.Undecided == "" {
				r.Ok(rule, construct, u.Pos(bsite.Pos), "exempt: path condition implies "+o.Unless)
				continue
			}
		}
		p := u.search(u.G.Entry, 0,
			func(b *flow.Block) bool { return edgeGate[b] },
			func(b *flow.Block, i int) (bool, bool) {
				gs := siteGate[b][i]
				isB := b == bsite.Block && i == bsite.NodeIdx
				if isB {
					for _, g := range gs {
						if g.SameBlockBefore(bsite) {
							return true, false
						}
					}
					return false, true
				}
				return len(gs) > 0, false
			}, nil)
		if p == nil {
			r.Ok(rule, construct, u.Pos(bsite.Pos), fmt.Sprintf("all paths from entry pass one of %d gate(s)", len(gates)))
		} else {
			d := "path from entry avoiding the required predecessor: " + u.describePath(p)
			if len(why) > 0 {
				d += "; " + strings.Join(why, "; ")
			}
			if na == 0 {
				d += "; no site matches the predecessor at all"
			}
			r.Bad(rule, construct, u.Pos(bsite.Pos), d)
		}
	}
}

// ---------------------------------------------------------------- FOLLOW

type FollowOpts struct {
	FromSuccess Success // start after A succeeded (NilErr ...) instead of right after A
	ErrorExitsExempt bool
	Assume      string // only paths consistent with this rule formula are considered
	Min         int
}

// isErrorReturn: the return provably yields a non-nil error.
func (u *Unit) isErrorReturn(s *flow.Site) bool {
	if s.Ret == nil || len(s.Ret.Results) == 0 {
		return false
	}
	last := ast.Unparen(s.Ret.Results[len(s.Ret.Results)-1])
	t := u.Info().TypeOf(last)
	if t == nil || !isErrorType(t) {
		// call returning a tuple: unknown
		return false
	}
	switch x := last.(type) {
	case *ast.CallExpr:
		n := ""
		if id, ok := x.Fun.(*ast.SelectorExpr); ok {
			n = id.Sel.Name
		}
		return n == "New" || n == "Errorf"
	case *ast.Ident, *ast.SelectorExpr:
		if id, ok := x.(*ast.Ident); ok && id.Name == "nil" {
			return false
		}
		// package-level error variable
		var obj types.Object
		if id, ok := x.(*ast.Ident); ok {
			obj = u.Info().ObjectOf(id)
		} else {
			obj = u.Info().ObjectOf(x.(*ast.SelectorExpr).Sel)
		}
		if obj != nil && obj.Pkg() != nil && obj.Parent() == obj.Pkg().Scope() {
			return true
		}
		term := u.C.Term(last)
		goal := flow.Not(flow.MakeCmp(tokEQL, term, "nil", "", "nil"))
		res := flow.Implies(u.SitePC(s), goal)
		return res.Holds && res.Undecided == ""
	}
	return false
}

func isErrorType(t types.Type) bool {
	n, ok := t.(*types.Named)
	return ok && n.Obj().Pkg() == nil && n.Obj().Name() == "error"
}

// Follow: every path from a site matching a to a normal exit passes a site matching b.
func (r *Report) Follow(rule string, u *Unit, a M, bs []M, o FollowOpts) {
	as := u.Match(a)
	r.Min(rule, len(as), max(o.Min, 1), u.Name+": "+a.Desc())
	var bdesc []string
	bsites := map[*flow.Block]map[int][]*flow.Site{}
	var deferred []*flow.Site
	for _, bm := range bs {
		bdesc = append(bdesc, bm.Desc())
		dm := bm
		dm.incDefer = true
		for _, s := range u.Match(dm) {
			if s.Deferred {
				deferred = append(deferred, s)
				continue
			}
			if s.Go {
				continue
			}
			if bsites[s.Block] == nil {
				bsites[s.Block] = map[int][]*flow.Site{}
			}
			bsites[s.Block][s.NodeIdx] = append(bsites[s.Block][s.NodeIdx], s)
		}
	}
	retAt := map[*flow.Block]map[int]*flow.Site{}
	for _, s := range u.Sites {
		if s.Kind == flow.SReturn {
			if retAt[s.Block] == nil {
				retAt[s.Block] = map[int]*flow.Site{}
			}
			retAt[s.Block][s.NodeIdx] = s
		}
	}
	for _, asite := range as {
		construct := fmt.Sprintf("%s: %s followed by %s", u.Name, u.SiteString(asite), strings.Join(bdesc, " | "))
		done := false
		for _, d := range deferred {
			if d.Block == asite.Block && d.SameBlockBefore(asite) || d.Block != asite.Block && u.G.Dominates(d.Block, asite.Block) {
				r.Ok(rule, construct, u.Pos(asite.Pos), "deferred call registered on every path before the site")
				done = true
				break
			}
		}
		if done {
			continue
		}
		type start struct {
			b *flow.Block
			i int
		}
		var starts []start
		if o.FromSuccess != Reached {
			gs, msg := u.successGates(asite, o.FromSuccess, nil)
			if msg != "" {
				r.Unknown(rule, construct, u.Pos(asite.Pos), msg)
				continue
			}
			for _, g := range gs {
				starts = append(starts, start{g.edge, 0})
			}
		} else {
			// same node, later site?
			hit := false
			for _, s := range bsites[asite.Block][asite.NodeIdx] {
				if asite.SameBlockBefore(s) {
					hit = true
				}
			}
			if hit {
				r.Ok(rule, construct, u.Pos(asite.Pos), "followed in the same statement")
				continue
			}
			starts = append(starts, start{asite.Block, asite.NodeIdx + 1})
		}
		var cut map[*flow.Block]bool
		if o.Assume != "" {
			cut = map[*flow.Block]bool{}
			as := u.W.Parse(o.Assume)
			for _, b := range u.G.Blocks {
				if b.EdgeCond == nil || !b.Reachable() {
					continue
				}
				if res := flow.Implies(flow.And(u.edgeFormula(b), as), flow.False()); res.Holds && res.Undecided == "" {
					cut[b] = true
				}
			}
			construct += " assuming " + o.Assume
		}
		var bad *pathStep
		for _, st := range starts {
			p := u.search(st.b, st.i, func(b *flow.Block) bool { return cut[b] },
				func(b *flow.Block, i int) (bool, bool) {
					if len(bsites[b][i]) > 0 {
						return true, false
					}
					if o.ErrorExitsExempt {
						if rs := retAt[b][i]; rs != nil && u.isErrorReturn(rs) {
							return true, false
						}
					}
					return false, false
				},
				func(b *flow.Block) bool { return b == u.G.Exit })
			if p != nil {
				bad = p
				break
			}
		}
		if bad == nil {
			r.Ok(rule, construct, u.Pos(asite.Pos), "every path to a normal exit passes the follower")
		} else {
			r.Bad(rule, construct, u.Pos(asite.Pos), "path to exit avoiding the follower: "+u.describePath(bad))
		}
	}
}

// ---------------------------------------------------------------- GUARD

type GuardOpts struct {
	AtBlockEntry bool // evaluate the condition as of entry to the site's basic block
	Min  int
	Max  int // 0 = no maximum
	Name string
}

func counterString(c map[string]bool) string {
	var ks []string
	for k := range c {
		ks = append(ks, k)
	}
	sort.Strings(ks)
	var ss []string
	for _, k := range ks {
		if c[k] {
			ss = append(ss, k)
		} else {
			ss = append(ss, "!("+k+")")
		}
	}
	return strings.Join(ss, ", ")
}

// Guard: the path condition of every site matching m implies psi.
func (r *Report) Guard(rule string, u *Unit, m M, psi string, o GuardOpts) {
	sites := u.Match(m)
	r.Min(rule, len(sites), max(o.Min, 1), u.Name+": "+m.Desc())
	goal := u.W.Parse(psi)
	for _, s := range sites {
		r.guardSite(rule, u, s, goal, psi, o.AtBlockEntry)
	}
}

func (r *Report) GuardSite(rule string, u *Unit, s *flow.Site, goal *flow.F, psi string) bool {
	return r.guardSite(rule, u, s, goal, psi, false)
}

func (r *Report) guardSite(rule string, u *Unit, s *flow.Site, goal *flow.F, psi string, atEntry bool) bool {
	construct := fmt.Sprintf("%s: %s under %s", u.Name, u.SiteString(s), psi)
	pc := u.SitePC(s)
	if atEntry {
		pc = u.BlockEntryPC(s)
		construct += " (at block entry)"
	}
	res := flow.Implies(pc, goal)
	if !res.Holds && res.Undecided == "" {
		// second look, relative to this site: a local defined by an observer call keeps its name when *some* use of it lies
		// behind something that may change what the call reads (the decision is per local, so that a value prints the same
		// everywhere). For the condition of one site only the stretch from the definition to this site matters: if that is
		// clean, the local stands for the call here, and in every test on the way.
		u.W.siteRel, u.W.siteRelUnit = s, u
		saved := u.pc
		u.pc = map[*flow.Block]*flow.F{}
		pc2 := u.SitePC(s)
		if atEntry {
			pc2 = u.BlockEntryPC(s)
		}
		u.pc = saved
		u.W.siteRel, u.W.siteRelUnit = nil, nil
		if r2 := flow.Implies(pc2, goal); r2.Holds && r2.Undecided == "" {
			if f := flow.Implies(pc2, flow.False()); !f.Holds {
				pc, res = pc2, r2
			}
		}
	}
	// a contradictory path condition makes every guard hold vacuously: that is a limit of the condition tracking (the
	// same observer called before and after a change), not a proof
	if res.Holds && res.Undecided == "" {
		if f := flow.Implies(pc, flow.False()); f.Holds && f.Undecided == "" {
			r.Unknown(rule, construct, u.Pos(s.Pos), "the path condition of the site is contradictory ("+clip(pc.String(), 300)+"): the site looks unreachable to the analysis, the guard cannot be decided")
			return false
		}
	}
	switch {
	case res.Undecided != "":
		r.Unknown(rule, construct, u.Pos(s.Pos), res.Undecided+" (pc: "+pc.String()+")")
	case res.Holds:
		r.Ok(rule, construct, u.Pos(s.Pos), fmt.Sprintf("pc ⇒ ψ over %d atoms; pc = %s", res.NAtoms, clip(pc.String(), 400)))
		return true
	default:
		r.Bad(rule, construct, u.Pos(s.Pos), fmt.Sprintf("path condition does not imply the guard; pc = %s; refuting row: %s", clip(pc.String(), 600), counterString(res.Counter)))
	}
	return false
}

func clip(s string, n int) string {
	if len(s) > n {
		return s[:n] + "…"
	}
	return s
}

// errEdges: edge blocks whose condition implies v != nil for a local error variable v that is never
// assigned the literal nil in the function (so a non-nil error stays non-nil until overwritten by a
// call result).
func (u *Unit) errEdges() map[*flow.Block]bool {
	out := map[*flow.Block]bool{}
	nilAssigned := map[types.Object]bool{}
	for _, s := range u.Sites {
		if s.Kind == flow.SStore && s.Local != nil && s.RHS != nil {
			if id, ok := ast.Unparen(s.RHS).(*ast.Ident); ok && id.Name == "nil" {
				nilAssigned[s.Local] = true
			}
		}
	}
	for _, b := range u.G.Blocks {
		if b.EdgeCond == nil || !b.Reachable() {
			continue
		}
		vars, _ := u.C.Footprint(b.EdgeCond)
		f := u.edgeFormula(b)
		for v := range vars {
			if !isErrorType(v.Type()) || nilAssigned[v] {
				continue
			}
			id := &ast.Ident{Name: v.Name()}
			_ = id
			term := u.C.TermOfObj(v)
			goal := flow.Not(flow.MakeCmp(tokEQL, term, "nil", "", "nil"))
			if res := flow.Implies(f, goal); res.Holds && res.Undecided == "" {
				out[b] = true
			}
		}
	}
	return out
}

// ErrTested: the error result of the call is bound and some branch tests it for nil.
func (u *Unit) ErrTested(s *flow.Site) (bool, string) {
	_, msg := u.successGates(s, NilErr, nil)
	return msg == "", msg
}
