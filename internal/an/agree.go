package an

import (
	"fmt"
	"go/ast"
	"go/token"
	"go/types"
	"sort"
	"strings"

	"verif/internal/flow"
	"verif/internal/load"
)

// SwitchInfo describes one switch statement found in a unit.
type SwitchInfo struct {
	Tag        string
	Labels     []string // canonical case labels, sorted
	HasDefault bool
	Default    []ast.Stmt
	Pos        token.Pos
	Stmt       *ast.SwitchStmt
}

// Switches lists the expression switches of the unit (closures excluded) whose tag prints as tag
// ("" = all tagged switches).
func (u *Unit) Switches(tag string) []*SwitchInfo {
	var out []*SwitchInfo
	// an if / else-if chain comparing the same term with constants is the same dispatch spelled differently
	inElse := map[*ast.IfStmt]bool{}
	labelsOf := func(cond ast.Expr) (string, []string) {
		var tagT string
		var labels []string
		ok := true
		var walk func(e ast.Expr)
		walk = func(e ast.Expr) {
			e = ast.Unparen(e)
			be, isBin := e.(*ast.BinaryExpr)
			if !isBin {
				ok = false
				return
			}
			switch be.Op.String() {
			case "||":
				walk(be.X)
				walk(be.Y)
			case "==":
				l, r := be.X, be.Y
				if u.C.ConstOf(l) != "" && u.C.ConstOf(r) == "" {
					l, r = r, l
				}
				if u.C.ConstOf(r) == "" {
					ok = false
					return
				}
				t := u.C.Term(l)
				if tagT != "" && tagT != t {
					ok = false
					return
				}
				tagT = t
				labels = append(labels, u.C.Term(r))
			default:
				ok = false
			}
		}
		walk(cond)
		if !ok {
			return "", nil
		}
		return tagT, labels
	}
	ast.Inspect(u.Body, func(n ast.Node) bool {
		switch x := n.(type) {
		case *ast.FuncLit:
			return false
		case *ast.IfStmt:
			if el, ok := x.Else.(*ast.IfStmt); ok {
				inElse[el] = true
			}
			if inElse[x] || x.Init != nil {
				return true
			}
			t, labels := labelsOf(x.Cond)
			if t == "" || (tag != "" && t != tag) {
				return true
			}
			si := &SwitchInfo{Tag: t, Pos: x.If, Labels: labels}
			cur := x
			for {
				switch e := cur.Else.(type) {
				case *ast.IfStmt:
					t2, l2 := labelsOf(e.Cond)
					if t2 != t || e.Init != nil {
						return true // a mixed chain is not a dispatch on this term
					}
					si.Labels = append(si.Labels, l2...)
					cur = e
					continue
				case *ast.BlockStmt:
					si.HasDefault = true
					si.Default = e.List
				}
				break
			}
			sort.Strings(si.Labels)
			out = append(out, si)
		case *ast.SwitchStmt:
			if x.Tag == nil {
				return true
			}
			t := u.C.Term(x.Tag)
			if tag != "" && t != tag {
				return true
			}
			si := &SwitchInfo{Tag: t, Pos: x.Switch, Stmt: x}
			for _, c := range x.Body.List {
				cc := c.(*ast.CaseClause)
				if cc.List == nil {
					si.HasDefault = true
					si.Default = cc.Body
				}
				for _, e := range cc.List {
					si.Labels = append(si.Labels, u.C.Term(e))
				}
			}
			sort.Strings(si.Labels)
			out = append(out, si)
		}
		return true
	})
	return out
}

// LitUse is one composite literal of a given named type.
type LitUse struct {
	Func   string
	Fields map[string]string // keyed field -> canonical value
	Pos    token.Pos
}

func namedTypeName(t types.Type) string {
	if p, ok := t.(*types.Pointer); ok {
		t = p.Elem()
	}
	n, ok := t.(*types.Named)
	if !ok || n.Obj().Pkg() == nil {
		return ""
	}
	pkg := n.Obj().Pkg().Path()
	if strings.HasPrefix(pkg, load.ModPath) {
		pkg = load.ShortPkg(pkg)
	}
	return pkg + "." + n.Obj().Name()
}

// PkgLits scans every function of a package for composite literals of the named struct type.
func (w *World) PkgLits(pkgShort, typeName string) ([]LitUse, error) {
	var out []LitUse
	found := false
	for _, fn := range w.P.Funcs() {
		if load.ShortPkg(fn.Pkg.PkgPath) != pkgShort || fn.Decl.Body == nil {
			continue
		}
		found = true
		u, err := w.Unit(fn.Name)
		if err != nil {
			return nil, err
		}
		ast.Inspect(fn.Decl.Body, func(n ast.Node) bool {
			cl, ok := n.(*ast.CompositeLit)
			if !ok {
				return true
			}
			t := fn.Pkg.TypesInfo.TypeOf(cl)
			if t == nil || namedTypeName(t) != typeName {
				return true
			}
			lu := LitUse{Func: fn.Name, Fields: map[string]string{}, Pos: cl.Lbrace}
			for _, e := range cl.Elts {
				if kv, ok := e.(*ast.KeyValueExpr); ok {
					if id, ok := kv.Key.(*ast.Ident); ok {
						lu.Fields[id.Name] = u.C.Term(kv.Value)
					}
				}
			}
			out = append(out, lu)
			return true
		})
	}
	if !found {
		return nil, fmt.Errorf("package %s has no functions (anchor does not resolve)", pkgShort)
	}
	return out, nil
}

// SetEq records one agreement obligation between two label sets.
func (r *Report) SetEq(rule, construct, pos string, got, want []string, allowMissing, allowExtra []string) {
	g := map[string]bool{}
	for _, x := range got {
		g[x] = true
	}
	wset := map[string]bool{}
	for _, x := range want {
		wset[x] = true
	}
	var missing, extra []string
	for x := range wset {
		if !g[x] && !contains(allowMissing, x) {
			missing = append(missing, x)
		}
	}
	for x := range g {
		if !wset[x] && !contains(allowExtra, x) {
			extra = append(extra, x)
		}
	}
	sort.Strings(missing)
	sort.Strings(extra)
	d := fmt.Sprintf("got {%s}", strings.Join(uniqSorted(got), ", "))
	if len(missing) > 0 {
		d += "; missing {" + strings.Join(missing, ", ") + "}"
	}
	if len(extra) > 0 {
		d += "; unexpected {" + strings.Join(extra, ", ") + "}"
	}
	r.Check(rule, construct, pos, len(missing) == 0 && len(extra) == 0, d)
}

func contains(xs []string, x string) bool {
	for _, y := range xs {
		if y == x {
			return true
		}
	}
	return false
}

func uniqSorted(xs []string) []string {
	m := map[string]bool{}
	for _, x := range xs {
		m[x] = true
	}
	var out []string
	for x := range m {
		out = append(out, x)
	}
	sort.Strings(out)
	return out
}

// DefaultReturnsError: the default clause of the switch ends in an error return or a no-return call.
func (u *Unit) DefaultReturnsError(si *SwitchInfo) bool {
	if !si.HasDefault || len(si.Default) == 0 {
		return false
	}
	last := si.Default[len(si.Default)-1]
	for _, s := range u.Sites {
		if s.Kind == flow.SReturn && s.Ret == last {
			return u.isErrorReturn(s)
		}
	}
	if es, ok := last.(*ast.ExprStmt); ok {
		if call, ok := es.X.(*ast.CallExpr); ok {
			return u.W.noReturn(u.Info())(call)
		}
	}
	return false
}

// SiteIn pairs a site with its unit.
type SiteIn struct {
	U *Unit
	S *flow.Site
}

// AllSites finds every site matching m in every function (and function literal) of the module whose
// source mentions the identifier hint (a cheap syntactic prefilter; hint "" scans everything).
// pkgs restricts the scan to packages with one of the given short paths (nil = all).
func (w *World) AllSites(m M, hint string, pkgs []string) []SiteIn {
	var out []SiteIn
	hasIdent := func(body ast.Node, names map[string]bool) bool {
		found := false
		ast.Inspect(body, func(n ast.Node) bool {
			if id, ok := n.(*ast.Ident); ok && names[id.Name] {
				found = true
			}
			return !found
		})
		return found
	}
	// a helper that did not exist when the rule tables were written is read in place of its calls: a function that
	// calls such a helper is searched when the helper mentions the hint (two levels)
	want := map[string]bool{hint: true}
	if hint != "" && len(w.Vocab[FunctionsKey]) > 0 {
		for round := 0; round < 2; round++ {
			for _, fn := range w.P.Funcs() {
				if fn.Decl.Body != nil && !w.knownFunc(fn.Name) && hasIdent(fn.Decl.Body, want) {
					want[fn.Decl.Name.Name] = true
				}
			}
		}
	}
	var units []*Unit
	for _, fn := range w.P.Funcs() {
		if fn.Decl.Body == nil {
			continue
		}
		if pkgs != nil && !contains(pkgs, load.ShortPkg(fn.Pkg.PkgPath)) {
			continue
		}
		if hint != "" && !hasIdent(fn.Decl.Body, want) {
			continue
		}
		u, err := w.Unit(fn.Name)
		if err != nil {
			continue
		}
		units = append(units, u)
	}
	// the sites of a helper read in place of its calls are the caller's: the helper's own unit is not listed again
	spliced := map[*ast.FuncDecl]bool{}
	for _, u := range units {
		for _, ic := range u.G.Inlined {
			spliced[ic.Orig] = true
		}
	}
	for _, u := range units {
		if spliced[u.Fn.Decl] {
			continue
		}
		for _, uu := range append([]*Unit{u}, u.Lits()...) {
			for _, s := range uu.Match(m) {
				out = append(out, SiteIn{uu, s})
			}
		}
	}
	return out
}
