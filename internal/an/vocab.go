package an

import (
	"encoding/json"
	"go/ast"
	"go/types"
	"os"
	"sort"

	"verif/internal/flow"
)

// The rule tables name locals of the functions they inspect (`sindex`, `totalCnt`, `fsync`). A maintainer who renames
// such a local changes no behaviour, and must not change a verdict. vocab.json records, for every function the rules
// look into, each local's signature (type + source text of everything assigned to it). When a name the snapshot knows
// is gone from a function and exactly one new-named local has the lost signature, that local is given the old name
// in the canonical vocabulary. Anything less clear-cut (definition changed too, two candidates) is left alone: the
// rules then see the code as it is.
type VocabSnapshot map[string]map[string][]string // function -> local name -> signatures in declaration order

func LoadVocab(path string) VocabSnapshot {
	b, err := os.ReadFile(path)
	if err != nil {
		return nil
	}
	var v VocabSnapshot
	if json.Unmarshal(b, &v) != nil {
		return nil
	}
	return v
}

// SnapshotOf computes the snapshot entry of one function body.
func SnapshotOf(info *types.Info, body *ast.BlockStmt) map[string][]string {
	out := map[string][]string{}
	for _, l := range flow.LocalSignatures(info, body) {
		if l.Name == "_" {
			continue
		}
		out[l.Name] = append(out[l.Name], l.Sig)
	}
	return out
}

// aliasesFor recognises renamed locals of function fn.
func (w *World) aliasesFor(fn string, info *types.Info, body *ast.BlockStmt) map[types.Object]string {
	snap := w.Vocab[fn]
	if snap == nil {
		return nil
	}
	cur := flow.LocalSignatures(info, body)
	byName := map[string][]flow.LocalSig{}
	for _, l := range cur {
		byName[l.Name] = append(byName[l.Name], l)
	}
	var alias map[types.Object]string
	used := map[types.Object]bool{}
	names := make([]string, 0, len(snap))
	for n := range snap {
		names = append(names, n)
	}
	sort.Strings(names)
	for _, name := range names {
		want := snap[name]
		have := byName[name]
		if len(have) >= len(want) {
			continue
		}
		// signatures of the snapshot not accounted for by the locals that still carry the name
		left := append([]string(nil), want...)
		for _, h := range have {
			for i, s := range left {
				if s == h.Sig {
					left = append(left[:i], left[i+1:]...)
					break
				}
			}
		}
		if len(left) != len(want)-len(have) {
			continue // the remaining ones changed too: not a plain rename
		}
		// group the lost signatures; a group is resolved when exactly as many new-named locals carry that signature
		// (they are then matched in declaration order)
		groups := map[string]int{}
		for _, sig := range left {
			groups[sig]++
		}
		for sig, n := range groups {
			var cand []flow.LocalSig
			for _, l := range cur {
				if _, known := snap[l.Name]; known || used[l.Obj] || l.Name == "_" {
					continue
				}
				if l.Sig == sig {
					cand = append(cand, l)
				}
			}
			// all candidates must share one new name (a rename changes one name into one other name)
			same := true
			for _, cnd := range cand {
				if cnd.Name != cand[0].Name {
					same = false
				}
			}
			if len(cand) == n && same {
				for _, cnd := range cand {
					if alias == nil {
						alias = map[types.Object]string{}
					}
					alias[cnd.Obj] = name
					used[cnd.Obj] = true
					w.Renamed = append(w.Renamed, fn+": "+cnd.Name+" is treated as "+name+" (same type and definitions)")
				}
			}
		}
	}
	return alias
}
