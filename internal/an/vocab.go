package an

import (
	"encoding/json"
	"go/ast"
	"go/types"
	"os"

	"verif/internal/flow"
)

// The rule tables name locals of the functions they inspect (`sindex`, `totalCnt`, `fsync`, and by scope ordinal
// `err_2`, `idx_2`). A maintainer who renames such a local, or removes an unrelated local of the same name, changes no
// behaviour and must not change a verdict. vocab.json records, for every function the rules look into, its locals in
// declaration order with a *signature* each: type + source text of everything assigned to the local, with the local's
// own name replaced by a placeholder and the receiver/parameters printed by role. At load the current locals are aligned
// with the snapshot:
//   1. a local whose name and signature both occur in the snapshot is that snapshot local (it keeps the ordinal the
//      snapshot gave it among the locals of that name, whatever else was added or removed);
//   2. snapshot locals still unmatched and current locals still unmatched are grouped by signature; where a group has
//      equally many on both sides they are paired in declaration order: a renamed local gets the name (and ordinal)
//      the rule tables know it by;
//   3. everything else keeps its own name and is numbered after the known ordinals.
// Anything less clear-cut (definition changed too) is left alone: the rules then see the code as it is.
type VocabEntry struct {
	N string `json:"n"`
	S string `json:"s"`
}
type VocabSnapshot map[string][]VocabEntry // function -> locals in declaration order

func LoadVocab(path string) VocabSnapshot {
	b, err := os.ReadFile(path)
	if err != nil {
		return nil
	}
	var v VocabSnapshot
	if json.Unmarshal(b, &v) != nil {
		return nil
	}
	return v
}

// SnapshotOf computes the snapshot entry of one function.
func SnapshotOf(info *types.Info, recv *ast.FieldList, ft *ast.FuncType, body *ast.BlockStmt) []VocabEntry {
	var out []VocabEntry
	for _, l := range flow.LocalSignaturesRoles(info, recv, ft, body) {
		if l.Name == "_" {
			continue
		}
		out = append(out, VocabEntry{l.Name, l.Sig})
	}
	return out
}

// aliasesFor aligns the locals of function fn with the snapshot.
func (w *World) aliasesFor(fn string, info *types.Info, recv *ast.FieldList, ft *ast.FuncType, body *ast.BlockStmt) map[types.Object]flow.LocalAlias {
	snap := w.Vocab[fn]
	if len(snap) == 0 {
		return nil
	}
	var cur []flow.LocalSig
	for _, l := range flow.LocalSignaturesRoles(info, recv, ft, body) {
		if l.Name != "_" {
			cur = append(cur, l)
		}
	}
	// ordinal of each snapshot entry among the entries of its name
	ord := make([]int, len(snap))
	cnt := map[string]int{}
	for i, e := range snap {
		cnt[e.N]++
		ord[i] = cnt[e.N]
	}
	alias := map[types.Object]flow.LocalAlias{}
	sUsed := make([]bool, len(snap))
	cUsed := make([]bool, len(cur))
	// 1. same name and same signature, in order
	for ci, l := range cur {
		for si, e := range snap {
			if !sUsed[si] && e.N == l.Name && e.S == l.Sig {
				sUsed[si], cUsed[ci] = true, true
				alias[l.Obj] = flow.LocalAlias{Name: e.N, Ord: ord[si]}
				break
			}
		}
	}
	// 2. by signature among the rest, only when the counts agree and no current candidate carries a snapshot name that
	// is still present under another signature (that would be an edited definition, not a rename)
	type grp struct{ s, c []int }
	groups := map[string]*grp{}
	var order []string
	for si, e := range snap {
		if !sUsed[si] {
			if groups[e.S] == nil {
				groups[e.S] = &grp{}
				order = append(order, e.S)
			}
			groups[e.S].s = append(groups[e.S].s, si)
		}
	}
	for ci, l := range cur {
		if !cUsed[ci] {
			if g := groups[l.Sig]; g != nil {
				g.c = append(g.c, ci)
			}
		}
	}
	for _, sig := range order {
		g := groups[sig]
		if len(g.s) != len(g.c) {
			continue
		}
		for k := range g.s {
			si, ci := g.s[k], g.c[k]
			sUsed[si], cUsed[ci] = true, true
			alias[cur[ci].Obj] = flow.LocalAlias{Name: snap[si].N, Ord: ord[si]}
			if cur[ci].Name != snap[si].N {
				w.Renamed = append(w.Renamed, fn+": "+cur[ci].Name+" is treated as "+snap[si].N+" (same type and definitions)")
			}
		}
	}
	// 3. the rest: own name, numbered after the ordinals the snapshot knows for that name
	for ci, l := range cur {
		if !cUsed[ci] {
			alias[l.Obj] = flow.LocalAlias{Name: l.Name, Ord: 0}
		}
	}
	// reserve the snapshot's ordinals: an unmatched local must not take the ordinal of a snapshot local that merely
	// disappeared (err_2 stays err_2 when the first err is removed). nameLocals numbers Ord 0 after the used ones, so mark
	// missing ordinals as used through placeholder entries is not possible without objects; instead bump unmatched
	// locals past the snapshot's count for their name.
	next := map[string]int{}
	for n, k := range cnt {
		next[n] = k
	}
	for ci, l := range cur {
		if !cUsed[ci] {
			if k, known := next[l.Name]; known {
				next[l.Name] = k + 1
				alias[l.Obj] = flow.LocalAlias{Name: l.Name, Ord: k + 1}
			}
		}
	}
	return alias
}
