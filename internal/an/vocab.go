package an

import (
	"encoding/json"
	"go/ast"
	"go/token"
	"go/types"
	"os"
	"strconv"
	"strings"

	"golang.org/x/tools/go/types/typeutil"

	"verif/internal/flow"
	"verif/internal/load"
)

// The rule tables name locals of the functions they inspect (`sindex`, `totalCnt`, `fsync`, and by scope ordinal
// `err_2`, `idx_2`). A maintainer who renames such a local, or removes an unrelated local of the same name, changes no
// behaviour and must not change a verdict. vocab.json records, for every function the rules look into, its locals in
// declaration order with a *signature* each: type + source text of everything assigned to the local, with the local's
// own name replaced by a placeholder and the receiver/parameters printed by role. At load the current locals are aligned
// with the snapshot:
//   1. a local whose name and signature both occur in the snapshot is that snapshot local (it keeps the ordinal the
//      snapshot gave it among the locals of that name, whatever else was added or removed);
//   2. snapshot locals still unmatched and current locals still unmatched are grouped by signature; where a group has
//      equally many on both sides they are paired in declaration order: a renamed local gets the name (and ordinal)
//      the rule tables know it by;
//   3. everything else keeps its own name and is numbered after the known ordinals.
// Anything less clear-cut (definition changed too) is left alone: the rules then see the code as it is.
type VocabEntry struct {
	N string `json:"n"`
	S string `json:"s,omitempty"`
	F string `json:"f,omitempty"` // loop form the local had: "rv" range value variable, "ix" X[i] local of an index loop
}
type VocabSnapshot map[string][]VocabEntry // function -> locals in declaration order

func LoadVocab(path string) VocabSnapshot {
	b, err := os.ReadFile(path)
	if err != nil {
		return nil
	}
	var v VocabSnapshot
	if json.Unmarshal(b, &v) != nil {
		return nil
	}
	return v
}

// SnapshotOf computes the snapshot entry of one function.
func SnapshotOf(info *types.Info, recv *ast.FieldList, ft *ast.FuncType, body *ast.BlockStmt) []VocabEntry {
	var out []VocabEntry
	for _, l := range flow.LocalSignaturesRoles(info, recv, ft, body) {
		if l.Name == "_" {
			continue
		}
		out = append(out, VocabEntry{N: l.Name, S: l.Sig, F: l.Form})
	}
	return out
}

// aliasesFor aligns the locals of function fn with the snapshot.
func (w *World) aliasesFor(fn string, info *types.Info, recv *ast.FieldList, ft *ast.FuncType, body *ast.BlockStmt, inl []*flow.InlinedCall) map[types.Object]flow.LocalAlias {
	snap := w.Vocab[fn]
	if len(snap) == 0 {
		return nil
	}
	var cur []flow.LocalSig
	for _, l := range flow.LocalSignaturesInlined(info, recv, ft, body, inl) {
		if l.Name != "_" {
			cur = append(cur, l)
		}
	}
	// ordinal of each snapshot entry among the entries of its name
	ord := make([]int, len(snap))
	cnt := map[string]int{}
	for i, e := range snap {
		cnt[e.N]++
		ord[i] = cnt[e.N]
	}
	alias := map[types.Object]flow.LocalAlias{}
	sUsed := make([]bool, len(snap))
	cUsed := make([]bool, len(cur))
	// 1. same name and same signature, in order
	for ci, l := range cur {
		for si, e := range snap {
			if !sUsed[si] && e.N == l.Name && e.S == l.Sig {
				sUsed[si], cUsed[ci] = true, true
				alias[l.Obj] = flow.LocalAlias{Name: e.N, Ord: ord[si]}
				break
			}
		}
	}
	// 2. by signature among the rest, only when the counts agree and no current candidate carries a snapshot name that
	// is still present under another signature (that would be an edited definition, not a rename)
	type grp struct{ s, c []int }
	groups := map[string]*grp{}
	var order []string
	for si, e := range snap {
		if !sUsed[si] {
			if groups[e.S] == nil {
				groups[e.S] = &grp{}
				order = append(order, e.S)
			}
			groups[e.S].s = append(groups[e.S].s, si)
		}
	}
	for ci, l := range cur {
		if !cUsed[ci] {
			if g := groups[l.Sig]; g != nil {
				g.c = append(g.c, ci)
			}
		}
	}
	for _, sig := range order {
		g := groups[sig]
		if len(g.s) != len(g.c) {
			continue
		}
		for k := range g.s {
			si, ci := g.s[k], g.c[k]
			sUsed[si], cUsed[ci] = true, true
			alias[cur[ci].Obj] = flow.LocalAlias{Name: snap[si].N, Ord: ord[si]}
			if cur[ci].Name != snap[si].N {
				w.Renamed = append(w.Renamed, fn+": "+cur[ci].Name+" is treated as "+snap[si].N+" (same type and definitions)")
			}
		}
	}
	// 2b. same name and same type, definition edited: a snapshot local and a current local that are the only unmatched
	// ones of their name and type (equally many on both sides: paired in order) are the same local. The function's own
	// body is tried before the bodies of helpers read in place of their calls.
	typeOf := func(sig string) string {
		if i := strings.Index(sig, " | "); i >= 0 {
			return sig[:i]
		}
		return sig
	}
	for pass := 0; pass < 2; pass++ {
		type key struct{ n, t string }
		sG, cG := map[key][]int{}, map[key][]int{}
		for si, e := range snap {
			if !sUsed[si] {
				k := key{e.N, typeOf(e.S)}
				sG[k] = append(sG[k], si)
			}
		}
		for ci, l := range cur {
			if cUsed[ci] {
				continue
			}
			if pass == 0 && body != nil && (l.Pos < body.Pos() || l.Pos > body.End()) {
				continue
			}
			k := key{l.Name, typeOf(l.Sig)}
			cG[k] = append(cG[k], ci)
		}
		for k, ss := range sG {
			cs := cG[k]
			if len(cs) != len(ss) {
				continue
			}
			for i := range ss {
				sUsed[ss[i]], cUsed[cs[i]] = true, true
				alias[cur[cs[i]].Obj] = flow.LocalAlias{Name: snap[ss[i]].N, Ord: ord[ss[i]]}
			}
		}
	}
	// 3. the rest: own name, numbered after the ordinals the snapshot knows for that name
	for ci, l := range cur {
		if !cUsed[ci] {
			alias[l.Obj] = flow.LocalAlias{Name: l.Name, Ord: 0}
		}
	}
	// loop forms (see flow.LocalAlias): print loop elements the way the form the tables were written for printed them
	{
		printed := func(si int) string {
			if ord[si] > 1 {
				return snap[si].N + "_" + strconv.Itoa(ord[si])
			}
			return snap[si].N
		}
		tail := func(sig string) (kind, text string) {
			i := strings.Index(sig, " | ")
			if i < 0 {
				return "", ""
			}
			rest := sig[i+3:]
			switch {
			case strings.HasPrefix(rest, "range key of ") && !strings.Contains(rest, " ; "):
				return "k", strings.TrimPrefix(rest, "range key of ")
			case strings.HasPrefix(rest, "range value of ") && !strings.Contains(rest, " ; "):
				return "v", strings.TrimPrefix(rest, "range value of ")
			}
			return "", ""
		}
		sKey, sVal := map[string][]int{}, map[string][]int{}
		for si, e := range snap {
			switch k, t := tail(e.S); k {
			case "k":
				sKey[t] = append(sKey[t], si)
			case "v":
				sVal[t] = append(sVal[t], si)
			}
		}
		matchedTo := map[types.Object]int{}
		for ci, l := range cur {
			if a, ok := alias[l.Obj]; ok && cUsed[ci] {
				for si := range snap {
					if snap[si].N == a.Name && ord[si] == a.Ord {
						matchedTo[l.Obj] = si
					}
				}
			}
		}
		for _, l := range cur {
			a := alias[l.Obj]
			switch k, t := tail(l.Sig); k {
			case "k":
				// the tables knew a range value variable over this collection: X[i] is that variable
				if vs := sVal[t]; len(vs) == 1 && snap[vs[0]].F == "rv" {
					a.ElemName = printed(vs[0])
					alias[l.Obj] = a
				}
			case "v":
				if l.Form != "rv" {
					continue
				}
				si, matched := matchedTo[l.Obj]
				if matched && snap[si].F != "ix" {
					continue
				}
				// the tables knew an index loop over this collection: the value variable is X[i]
				if ks := sKey[t]; len(ks) == 1 {
					a.IndexAs = printed(ks[0])
					alias[l.Obj] = a
				}
			}
		}
	}
	// reserve the snapshot's ordinals: an unmatched local must not take the ordinal of a snapshot local that merely
	// disappeared (err_2 stays err_2 when the first err is removed). nameLocals numbers Ord 0 after the used ones, so mark
	// missing ordinals as used through placeholder entries is not possible without objects; instead bump unmatched
	// locals past the snapshot's count for their name.
	next := map[string]int{}
	for n, k := range cnt {
		next[n] = k
	}
	for ci, l := range cur {
		if !cUsed[ci] {
			if k, known := next[l.Name]; known {
				next[l.Name] = k + 1
				alias[l.Obj] = flow.LocalAlias{Name: l.Name, Ord: k + 1}
			}
		}
	}
	return alias
}

// FunctionsKey is the snapshot entry that lists every function of the module at the time the rule tables were written.
const FunctionsKey = "·functions"

// knownFunc: the function existed when the rule tables were written.
func (w *World) knownFunc(name string) bool {
	if w.vocabFuncs == nil {
		w.vocabFuncs = map[string]bool{}
		for _, e := range w.Vocab[FunctionsKey] {
			w.vocabFuncs[e.N] = true
		}
	}
	return w.vocabFuncs[name]
}

// inliner: a function that did not exist when the rule tables were written and is called as a statement (or as the
// operand of a return) from a function of the same package is read in place of the call: extracting a block into a
// helper then changes nothing the rules see. Functions the tables know are never spliced, so on the tree the tables
// were written for every graph is exactly the function's own.
func (w *World) inliner(fn *load.Func, inLit bool) flow.InlineFunc {
	if w.Vocab == nil || len(w.Vocab[FunctionsKey]) == 0 || inLit || w.NoSplice {
		return nil
	}
	info := fn.Pkg.TypesInfo
	used := map[*ast.FuncDecl]bool{}
	return func(call *ast.CallExpr, tail bool) *flow.InlineDecision {
		callee, ok := typeutil.Callee(info, call).(*types.Func)
		if !ok {
			return nil
		}
		src := w.P.FuncOf(callee)
		if src == nil || src.Decl.Body == nil || src.Pkg != fn.Pkg || src.Obj != callee {
			return nil // another package, no body, or an instantiated generic
		}
		if (w.knownFunc(src.Name) && !w.SpliceKnown) || src.Decl == fn.Decl {
			return nil
		}
		decl := src.Decl
		if used[decl] {
			// a second splice of the same helper into this graph gets a copy with parameters and locals of its own
			decl, _ = flow.CloneDecl(decl, info)
		}
		used[src.Decl] = true
		return &flow.InlineDecision{Decl: decl, Orig: src.Decl, Bind: valueParamsModified(info, decl)}
	}
}

// valueParamsModified: the receiver/parameters of struct or array type (passed by value) that the function stores
// into, takes the address of, or calls a pointer-receiver method on. What it does to them is done to a copy.
func valueParamsModified(info *types.Info, decl *ast.FuncDecl) map[*ast.Ident]bool {
	out := map[*ast.Ident]bool{}
	cand := map[types.Object]*ast.Ident{}
	addField := func(fl *ast.FieldList) {
		if fl == nil {
			return
		}
		for _, f := range fl.List {
			for _, n := range f.Names {
				if o := info.Defs[n]; o != nil {
					switch o.Type().Underlying().(type) {
					case *types.Struct, *types.Array:
						cand[o] = n
					}
				}
			}
		}
	}
	addField(decl.Recv)
	addField(decl.Type.Params)
	if len(cand) == 0 {
		return out
	}
	// root of an access path that stays inside the variable's own storage
	root := func(e ast.Expr) types.Object {
		for {
			switch x := ast.Unparen(e).(type) {
			case *ast.Ident:
				return info.ObjectOf(x)
			case *ast.SelectorExpr:
				if t := info.TypeOf(x.X); t != nil {
					if _, isPtr := t.Underlying().(*types.Pointer); isPtr {
						return nil
					}
				}
				e = x.X
			case *ast.IndexExpr:
				if t := info.TypeOf(x.X); t != nil {
					if _, isArr := t.Underlying().(*types.Array); !isArr {
						return nil
					}
				}
				e = x.X
			default:
				return nil
			}
		}
	}
	mark := func(e ast.Expr) {
		if o := root(e); o != nil {
			if id, ok := cand[o]; ok {
				out[id] = true
			}
		}
	}
	ast.Inspect(decl.Body, func(n ast.Node) bool {
		switch x := n.(type) {
		case *ast.AssignStmt:
			for _, l := range x.Lhs {
				mark(l)
			}
		case *ast.IncDecStmt:
			mark(x.X)
		case *ast.RangeStmt:
			if x.Tok == token.ASSIGN {
				if x.Key != nil {
					mark(x.Key)
				}
				if x.Value != nil {
					mark(x.Value)
				}
			}
		case *ast.UnaryExpr:
			if x.Op == token.AND {
				mark(x.X)
			}
		case *ast.CallExpr:
			if sel, ok := ast.Unparen(x.Fun).(*ast.SelectorExpr); ok {
				if s := info.Selections[sel]; s != nil && s.Kind() == types.MethodVal {
					if sig, ok := s.Obj().Type().(*types.Signature); ok && sig.Recv() != nil {
						if _, ptrRecv := sig.Recv().Type().(*types.Pointer); ptrRecv {
							mark(sel.X)
						}
					}
				}
			}
		}
		return true
	})
	return out
}
