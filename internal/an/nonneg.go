package an

import (
	"go/ast"
	"go/token"
	"go/types"
	"sort"
	"strings"

	"golang.org/x/tools/go/types/typeutil"

	"verif/internal/flow"
)

// SignedTaint tracks integer variables that hold a value parsed from client text (possibly negative)
// through assignments, conversions, arithmetic and calls into module functions.
type SignedTaint struct {
	W       *World
	Tainted map[types.Object]string // variable -> provenance note
	Funcs   map[string]bool         // units that contain tainted variables
	work    []string
}

func isParseSigned(f *types.Func) bool {
	if f == nil || f.Pkg() == nil || f.Pkg().Path() != "strconv" {
		return false
	}
	return f.Name() == "ParseInt" || f.Name() == "Atoi"
}

func isSignedInt(t types.Type) bool {
	b, ok := t.Underlying().(*types.Basic)
	return ok && b.Info()&types.IsInteger != 0 && b.Info()&types.IsUnsigned == 0
}

// mentions reports whether the expression reads a tainted variable without an unsigned conversion
// or masking in between.
func (t *SignedTaint) mentions(info *types.Info, e ast.Expr) (types.Object, bool) {
	var hit types.Object
	var walk func(n ast.Expr) bool
	walk = func(n ast.Expr) bool {
		n = ast.Unparen(n)
		switch x := n.(type) {
		case *ast.Ident:
			if o := info.ObjectOf(x); o != nil {
				if _, ok := t.Tainted[o]; ok {
					hit = o
					return true
				}
			}
		case *ast.BinaryExpr:
			switch x.Op {
			case token.ADD, token.SUB, token.MUL, token.QUO, token.REM:
				return walk(x.X) || walk(x.Y)
			case token.SHR, token.SHL:
				return walk(x.X)
			}
		case *ast.UnaryExpr:
			if x.Op == token.SUB || x.Op == token.ADD {
				return walk(x.X)
			}
		case *ast.CallExpr:
			// conversion to a signed integer type keeps the sign; to unsigned removes negativity
			if tv, ok := info.Types[x.Fun]; ok && tv.IsType() && len(x.Args) == 1 {
				if isSignedInt(tv.Type) {
					return walk(x.Args[0])
				}
			}
		}
		return false
	}
	if walk(e) {
		return hit, true
	}
	return nil, false
}

// Run seeds the taint in the given units and propagates to a fixpoint.
func (t *SignedTaint) Run(seeds []*Unit) {
	t.Tainted = map[types.Object]string{}
	t.Funcs = map[string]bool{}
	queued := map[string]bool{}
	push := func(u *Unit) {
		if u != nil && !queued[u.Name] {
			queued[u.Name] = true
			t.work = append(t.work, u.Name)
		}
	}
	for _, u := range seeds {
		push(u)
	}
	visited := map[string]bool{}
	for len(t.work) > 0 {
		name := t.work[0]
		t.work = t.work[1:]
		queued[name] = false
		u := t.W.units[name]
		if u == nil {
			continue
		}
		info := u.Info()
		changed := true
		first := !visited[name]
		visited[name] = true
		for changed {
			changed = false
			for _, s := range u.Sites {
				switch s.Kind {
				case flow.SStore:
					if s.Local == nil || s.Index {
						continue
					}
					if _, done := t.Tainted[s.Local]; done {
						continue
					}
					if !isSignedInt(s.Local.Type()) {
						continue
					}
					if s.Tuple != nil && s.TupleIdx == 0 {
						if call, ok := ast.Unparen(s.Tuple).(*ast.CallExpr); ok {
							if f, ok := typeutil.Callee(info, call).(*types.Func); ok {
								if isParseSigned(f) {
									t.Tainted[s.Local] = "parsed by strconv." + f.Name() + " at " + u.Pos(s.Pos)
									t.Funcs[u.Name] = true
									changed = true
								} else if src := t.W.P.FuncOf(f); src != nil && t.returnsTainted(src.Name, 0) {
									t.Tainted[s.Local] = "result of " + src.Name + " at " + u.Pos(s.Pos)
									t.Funcs[u.Name] = true
									changed = true
								}
							}
						}
					}
					if s.RHS != nil {
						if _, ok := t.mentions(info, s.RHS); ok {
							t.Tainted[s.Local] = "derived at " + u.Pos(s.Pos)
							t.Funcs[u.Name] = true
							changed = true
						} else if call, ok := ast.Unparen(s.RHS).(*ast.CallExpr); ok {
							if f, ok := typeutil.Callee(info, call).(*types.Func); ok {
								if src := t.W.P.FuncOf(f); src != nil && t.returnsTainted(src.Name, 0) {
									t.Tainted[s.Local] = "result of " + src.Name + " at " + u.Pos(s.Pos)
									t.Funcs[u.Name] = true
									changed = true
								}
							}
						}
					}
				}
			}
		}
		// calls: tainted arguments taint the callee's parameters; all module callees of seeds are visited
		for _, s := range u.Sites {
			if s.Kind != flow.SCall || s.Callee == nil {
				continue
			}
			src := t.W.P.FuncOf(s.Callee)
			if src == nil || src.Decl.Body == nil {
				continue
			}
			sig := s.Callee.Type().(*types.Signature)
			var cu *Unit
			for i, a := range s.Call.Args {
				if i >= sig.Params().Len() {
					break
				}
				if _, ok := t.mentions(info, a); !ok {
					continue
				}
				// a value that is known non-negative at the call site does not taint the parameter
				if t.NonNeg(u, a, &flow.Site{Kind: flow.SUse, Block: s.Block, NodeIdx: s.NodeIdx, Pos: a.Pos(), Ctx: s.Ctx}, 0) {
					continue
				}
				if cu == nil {
					cu, _ = t.W.Unit(src.Name)
				}
				if cu == nil {
					break
				}
				// the callee's own parameter object
				p := paramObj(cu, i)
				if p == nil || !isSignedInt(p.Type()) {
					continue
				}
				if _, done := t.Tainted[p]; !done {
					t.Tainted[p] = "argument from " + u.Name + " at " + u.Pos(s.Pos)
					t.Funcs[cu.Name] = true
					push(cu)
				}
			}
			if first {
				// follow helper functions of the handlers (parsers) one step even without tainted arguments
				if cu == nil && sameOrHandlerPkg(u, src.Name) {
					cu, _ = t.W.Unit(src.Name)
					if cu != nil && !visited[cu.Name] {
						push(cu)
					}
				}
			}
		}
		// a function whose result became tainted re-queues its callers lazily: handled by returnsTainted at use
	}
}

func sameOrHandlerPkg(u *Unit, callee string) bool {
	return len(callee) > 5 && callee[:5] == "node."
}

func paramObj(u *Unit, i int) types.Object {
	if u.Type == nil || u.Type.Params == nil {
		return nil
	}
	k := 0
	for _, f := range u.Type.Params.List {
		for _, n := range f.Names {
			if k == i {
				return u.Info().ObjectOf(n)
			}
			k++
		}
		if len(f.Names) == 0 {
			k++
		}
	}
	return nil
}

// returnsTainted: some return statement of the function yields a tainted value at result idx.
func (t *SignedTaint) returnsTainted(fn string, idx int) bool {
	u := t.W.units[fn]
	if u == nil {
		return false
	}
	for _, s := range u.Sites {
		if s.Kind == flow.SReturn && idx < len(s.Ret.Results) {
			if _, ok := t.mentions(u.Info(), s.Ret.Results[idx]); ok {
				return true
			}
		}
	}
	// named results
	if u.Type != nil && u.Type.Results != nil {
		k := 0
		for _, f := range u.Type.Results.List {
			for _, n := range f.Names {
				if k == idx {
					if _, ok := t.Tainted[u.Info().ObjectOf(n)]; ok {
						return true
					}
				}
				k++
			}
		}
	}
	return false
}

// Sink is a use of a possibly negative value as a slice bound, index or allocation size.
type Sink struct {
	U    *Unit
	Site *flow.Site // synthetic use site
	Var  types.Object
	Expr ast.Expr // the bound / index expression
	Kind string
	At   ast.Node
}

// Sinks lists the sinks in all units that contain tainted variables.
func (t *SignedTaint) Sinks() []Sink {
	var out []Sink
	var names []string
	for n := range t.Funcs {
		names = append(names, n)
	}
	sort.Strings(names)
	for _, name := range names {
		u := t.W.units[name]
		info := u.Info()
		for _, b := range u.G.Blocks {
			if !b.Reachable() {
				continue
			}
			for i, n := range b.Nodes {
				root := ast.Node(n)
				if rh, ok := n.(*flow.RangeHead); ok {
					root = rh.Stmt.X
				}
				add := func(at ast.Node, e ast.Expr, kind string) {
					if e == nil {
						return
					}
					if v, ok := t.mentions(info, e); ok {
						out = append(out, Sink{U: u, Var: v, Expr: e, Kind: kind, At: at,
							Site: &flow.Site{Kind: flow.SUse, Block: b, NodeIdx: i, Pos: e.Pos(), Ctx: shortCircuitCtx(root, e)}})
					}
				}
				ast.Inspect(root, func(c ast.Node) bool {
					switch x := c.(type) {
					case *ast.FuncLit:
						return false
					case *ast.SliceExpr:
						add(x, x.Low, "slice bound")
						add(x, x.High, "slice bound")
						add(x, x.Max, "slice bound")
					case *ast.IndexExpr:
						if tt := info.TypeOf(x.X); tt != nil {
							switch tt.Underlying().(type) {
							case *types.Slice, *types.Array, *types.Basic, *types.Pointer:
								add(x, x.Index, "index")
							}
						}
					case *ast.CallExpr:
						if id, ok := ast.Unparen(x.Fun).(*ast.Ident); ok {
							if b, ok := info.ObjectOf(id).(*types.Builtin); ok && b.Name() == "make" {
								for _, a := range x.Args[1:] {
									add(x, a, "allocation size")
								}
							}
						}
					}
					return true
				})
			}
		}
	}
	return out
}

// NonNeg: the expression cannot be negative at the given site. Decided from (a) the path condition
// (a dominating sign test, after normalisation of subtractions), (b) the shape of the expression,
// (c) for variables, all definitions that reach the site being non-negative where they are made.
func (t *SignedTaint) NonNeg(u *Unit, e ast.Expr, at *flow.Site, depth int) bool {
	if depth > 6 {
		return false
	}
	info := u.Info()
	e = ast.Unparen(e)
	if tv, ok := info.Types[e]; ok && tv.Value != nil {
		return constantNonNeg(tv)
	}
	if _, tainted := t.mentions(info, e); !tainted {
		return true // not client-controlled: outside this rule
	}
	goal := u.W.Parse("!(" + u.C.Term(e) + " < 0)")
	if res := flow.Implies(u.SitePC(at), goal); res.Holds && res.Undecided == "" {
		return true
	}
	switch x := e.(type) {
	case *ast.CallExpr:
		if tv, ok := info.Types[x.Fun]; ok && tv.IsType() && len(x.Args) == 1 {
			return t.NonNeg(u, x.Args[0], at, depth+1)
		}
	case *ast.BinaryExpr:
		switch x.Op {
		case token.ADD, token.MUL:
			return t.NonNeg(u, x.X, at, depth+1) && t.NonNeg(u, x.Y, at, depth+1)
		case token.QUO, token.REM, token.SHR:
			return t.NonNeg(u, x.X, at, depth+1) && t.NonNeg(u, x.Y, at, depth+1)
		}
	case *ast.Ident:
		obj := info.ObjectOf(x)
		// every definition reaching the site must assign a non-negative value
		var defs []*flow.Site
		for _, s := range u.Sites {
			if s.Kind == flow.SStore && s.Local == obj && !s.Index {
				defs = append(defs, s)
			}
		}
		if len(defs) == 0 {
			return false // a parameter: only a sign test helps
		}
		if paramOf(u, obj) {
			return false
		}
		for _, d := range defs {
			if !(d.Block == at.Block && d.NodeIdx < at.NodeIdx) && !blockReaches(d.Block, at.Block) {
				continue
			}
			if d.RHS == nil {
				return false
			}
			dsite := &flow.Site{Kind: flow.SUse, Block: d.Block, NodeIdx: d.NodeIdx, Pos: d.Pos, Ctx: d.Ctx}
			if !t.NonNeg(u, d.RHS, dsite, depth+1) {
				return false
			}
		}
		return true
	}
	return false
}

func paramOf(u *Unit, obj types.Object) bool {
	if u.Type == nil || u.Type.Params == nil {
		return false
	}
	for _, f := range u.Type.Params.List {
		for _, n := range f.Names {
			if u.Info().ObjectOf(n) == obj {
				return true
			}
		}
	}
	return false
}

func blockReaches(a, b *flow.Block) bool {
	seen := map[*flow.Block]bool{}
	var dfs func(x *flow.Block) bool
	dfs = func(x *flow.Block) bool {
		for _, e := range x.Succs {
			if e.To == b {
				return true
			}
			if !seen[e.To] {
				seen[e.To] = true
				if dfs(e.To) {
					return true
				}
			}
		}
		return false
	}
	return dfs(a)
}

func constantNonNeg(tv types.TypeAndValue) bool {
	s := tv.Value.ExactString()
	return len(s) > 0 && s[0] != '-'
}

// OverflowGuards lists the comparisons in the tainted functions in which a client integer takes part in an addition
// or multiplication on one side: `len(value)+offset > Max` wraps around for a huge offset and lets it through.
// Expr is the arithmetic side, At the comparison.
func (t *SignedTaint) OverflowGuards() []Sink {
	var out []Sink
	var names []string
	for n := range t.Funcs {
		names = append(names, n)
	}
	sort.Strings(names)
	for _, name := range names {
		u := t.W.units[name]
		info := u.Info()
		for _, b := range u.G.Blocks {
			if !b.Reachable() {
				continue
			}
			for i, n := range b.Nodes {
				root := ast.Node(n)
				if rh, ok := n.(*flow.RangeHead); ok {
					root = rh.Stmt.X
				}
				ast.Inspect(root, func(c ast.Node) bool {
					switch x := c.(type) {
					case *ast.FuncLit:
						return false
					case *ast.BinaryExpr:
						switch x.Op {
						case token.LSS, token.LEQ, token.GTR, token.GEQ:
						default:
							return true
						}
						for _, side := range []ast.Expr{x.X, x.Y} {
							ar, ok := ast.Unparen(side).(*ast.BinaryExpr)
							if !ok || (ar.Op != token.ADD && ar.Op != token.MUL) {
								continue
							}
							// 64-bit signed arithmetic only (conversions to wider/unsigned types are not tracked)
							if tt := info.TypeOf(ar); tt == nil || !isSignedInt(tt) {
								continue
							}
							for _, opnd := range []ast.Expr{ar.X, ar.Y} {
								if v, ok := t.mentions(info, opnd); ok {
									out = append(out, Sink{U: u, Var: v, Expr: ar, Kind: "bound test", At: x,
										Site: &flow.Site{Kind: flow.SUse, Block: b, NodeIdx: i, Pos: x.Pos(), Ctx: shortCircuitCtx(root, x)}})
									break
								}
							}
						}
					}
					return true
				})
			}
		}
	}
	return out
}

// UpperBounded: the path condition at the site bounds the variable from above by something that is not itself
// computed from it (v < K, v <= K with v alone on its side).
func (t *SignedTaint) UpperBounded(u *Unit, v types.Object, at *flow.Site) bool {
	vt := u.C.TermOfObj(v)
	pc := flow.And(u.SitePC(at), at.Ctx)
	atoms := map[string]*flow.F{}
	pc.Atoms(atoms)
	for k, a := range atoms {
		for _, op := range []string{" < ", " == "} {
			i := strings.Index(k, op)
			if i < 0 {
				continue
			}
			l, r := k[:i], k[i+len(op):]
			if l == vt && !strings.Contains(r, vt) && op == " < " {
				if res := flow.Implies(pc, a); res.Holds {
					return true
				}
			}
			if r == vt && !strings.Contains(l, vt) && op == " < " {
				if res := flow.Implies(pc, flow.Not(a)); res.Holds {
					return true // !(K < v)  ==  v <= K
				}
			}
		}
	}
	return false
}
