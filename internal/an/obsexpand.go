package an

import (
	"fmt"
	"go/ast"
	"os"
	"go/token"
	"go/types"
	"strings"

	"golang.org/x/tools/go/types/typeutil"

	"verif/internal/flow"
)

// A local defined once by a call (`hardSt := r.hardState()`, `q := r.quorum()`) prints as that call wherever it is
// used, exactly like a local defined by a call-free expression, when
//   - every function called in the definition is a *deterministic observer*: declared in the module, makes no store
//     through its receiver/parameters, sends nothing, takes no lock, reads no clock/random source, and calls only such
//     functions (a short list of pure standard-library packages and logging excepted);
//   - nothing between the definition and the use can change what the call reads: no assignment through a variable the
//     definition mentions, no non-observer call that is given one of them (receiver or argument), no dynamic call. The
//     region "between" is textual, widened to the end of every loop that contains the use but not the definition.
// Hoisting a pure call into a local, or inlining such a local again, then changes no term a rule sees. When a condition
// fails the local keeps its name (the rule sees the code as written).

func (w *World) obsExpandOK(u *Unit, o types.Object, def ast.Expr, use *ast.Ident) bool {
	// relative to one site (see guardSite): only the stretch from the definition to that site has to be clean
	if w.siteRel != nil && w.siteRelUnit == u {
		if v, ok := w.obsUse[o]; ok && v {
			return true
		}
		k := siteKey{o, w.siteRel.Block, w.siteRel.NodeIdx}
		if v, ok := w.obsSite[k]; ok {
			return v
		}
		if w.obsSite == nil {
			w.obsSite = map[siteKey]bool{}
		}
		w.obsSite[k] = false
		ok := w.obsDefOK(u, def) && w.obsRegionCleanTo(u, o, def, w.siteRel)
		w.obsSite[k] = ok
		return ok
	}
	// decided once per local, for all its uses: the same value must print the same way in a condition and at a site
	if v, ok := w.obsUse[o]; ok {
		return v
	}
	if w.obsUse == nil {
		w.obsUse = map[types.Object]bool{}
	}
	w.obsUse[o] = false // re-entrancy: not while deciding
	// the unit that declares the local decides (a function literal inherits the decision of its function)
	du := u
	inSplice := false
	for _, ic := range u.G.Inlined {
		if ic.Decl.Body.Pos() <= def.Pos() && def.End() <= ic.Decl.Body.End() {
			inSplice = true
		}
	}
	if !inSplice && (u.Body == nil || def.Pos() < u.Body.Pos() || def.End() > u.Body.End()) {
		du = nil
		if top, err := w.Unit(u.Fn.Name); err == nil {
			for _, cand := range append([]*Unit{top}, top.Lits()...) {
				if cand.Body != nil && cand.Body.Pos() <= def.Pos() && def.End() <= cand.Body.End() {
					du = cand // innermost wins: Lits() lists outer literals before the ones nested in them
				}
			}
		}
	}
	ok := du != nil && w.obsDefOK(du, def) && w.obsRegionClean(du, o, def)
	if os.Getenv("ZR_DEBUG_OBS") != "" {
		fmt.Fprintf(os.Stderr, "obs-expand %s.%s = %v (unit %v, def ok %v)\n", u.Name, o.Name(), ok, du != nil, du != nil && w.obsDefOK(du, def))
	}
	w.obsUse[o] = ok
	return ok
}


// obsDefOK: all calls in the defining expression are deterministic observers.
func (w *World) obsDefOK(u *Unit, def ast.Expr) bool {
	if v, ok := w.obsDef[def]; ok {
		return v
	}
	if w.obsDef == nil {
		w.obsDef = map[ast.Expr]bool{}
	}
	info := u.Info()
	ok := true
	ast.Inspect(def, func(n ast.Node) bool {
		if !ok {
			return false
		}
		switch x := n.(type) {
		case *ast.FuncLit, *ast.CompositeLit:
			ok = false
		case *ast.UnaryExpr:
			if x.Op == token.ARROW || x.Op == token.AND {
				ok = false
			}
		case *ast.CallExpr:
			if tv, isT := info.Types[x.Fun]; isT && tv.IsType() {
				return true
			}
			switch c := typeutil.Callee(info, x).(type) {
			case *types.Builtin:
				if c.Name() != "len" && c.Name() != "cap" && c.Name() != "min" && c.Name() != "max" {
					ok = false
				}
			case *types.Func:
				if !w.detObserver(c, 0) {
					ok = false
				}
			default:
				ok = false
			}
		}
		return ok
	})
	w.obsDef[def] = ok
	return ok
}

var purePkgs = map[string]bool{"bytes": true, "strings": true, "math": true, "math/bits": true, "strconv": true, "encoding/binary": true,
	"unicode": true, "unicode/utf8": true, "path": true, "path/filepath": true, "hash/crc32": true}

// detObserver: an observer (see observer) that in addition is deterministic and takes no lock.
func (w *World) detObserver(f *types.Func, depth int) bool {
	if v, ok := w.detMemo[f]; ok {
		return v
	}
	if w.detMemo == nil {
		w.detMemo = map[*types.Func]bool{}
	}
	src := w.P.FuncOf(f)
	if src == nil || src.Decl.Body == nil {
		if f.Pkg() == nil {
			return f.Name() == "Error"
		}
		if purePkgs[f.Pkg().Path()] {
			// the packages' functions are pure but for the few that fill a caller's buffer
			return !strings.HasPrefix(f.Name(), "Put") && !strings.HasPrefix(f.Name(), "Append") && !strings.HasPrefix(f.Name(), "Write") && !strings.HasPrefix(f.Name(), "Read")
		}
		if f.Pkg().Path() == "fmt" {
			return strings.HasPrefix(f.Name(), "Sprint") || f.Name() == "Errorf"
		}
		if f.Pkg().Path() == "time" {
			// everything but the clock and the timers is a function of its operands
			if sig := f.Type().(*types.Signature); sig.Recv() != nil {
				if n, ok := sig.Recv().Type().(*types.Named); ok && (n.Obj().Name() == "Duration" || n.Obj().Name() == "Time" || n.Obj().Name() == "Month" || n.Obj().Name() == "Weekday") {
					return true
				}
				return false
			}
			switch f.Name() {
			case "Unix", "UnixMilli", "UnixMicro", "Date", "ParseDuration", "Parse":
				return true
			}
			return false
		}
		sig := f.Type().(*types.Signature)
		if sig.Recv() != nil {
			if iface, isIface := sig.Recv().Type().Underlying().(*types.Interface); isIface {
				switch f.Name() {
				case "Lock", "Unlock", "RLock", "RUnlock", "Load":
					return false
				}
				if w.inModule(f.Pkg()) {
					// an interface of the module: every implementation in the module decides
					impls := w.implementations(iface, f.Name())
					if len(impls) == 0 || depth > 4 {
						return false
					}
					w.detMemo[f] = true
					res := true
					for _, m := range impls {
						if !w.detObserver(m, depth+1) {
							res = false
							break
						}
					}
					w.detMemo[f] = res
					return res
				}
				// an interface from elsewhere: a short list of names that only report
				switch f.Name() {
				case "Sum32", "Sum64", "Len", "String", "Error", "Size", "Cap", "Name", "IsDir", "Mode", "ModTime":
					return true
				}
				return false
			}
		}
		return false
	}
	if depth > 4 || !w.observer(f, 0) {
		w.detMemo[f] = false
		return false
	}
	w.detMemo[f] = true // optimistic for recursion
	u, err := w.Unit(src.Name)
	res := err == nil
	if res {
	outer:
		for _, uu := range append([]*Unit{u}, u.Lits()...) {
			for _, s := range uu.Sites {
				switch s.Kind {
				case flow.SSend, flow.SRecv:
					res = false
				case flow.SCall:
					if s.Go {
						res = false
					}
					switch {
					case s.Builtin != "":
						if s.Builtin == "close" || s.Builtin == "delete" || s.Builtin == "copy" || s.Builtin == "panic" || s.Builtin == "recover" {
							res = false
						}
						if s.Builtin == "make" && len(s.Call.Args) > 0 {
							if t := uu.Info().TypeOf(s.Call.Args[0]); t != nil {
								if _, isChan := t.Underlying().(*types.Chan); isChan {
									res = false
								}
							}
						}
					case s.Callee == nil:
						if tv, isT := uu.Info().Types[s.Call.Fun]; !isT || !tv.IsType() {
							res = false
						}
					case s.Callee != f:
						if !w.detObserver(s.Callee, depth+1) {
							res = false
						}
					}
				}
				if !res {
					break outer
				}
			}
		}
	}
	w.detMemo[f] = res
	return res
}

// obsRegionClean: on no path does anything that can change what the definition reads lie between the definition and
// a use of the local (paths are taken in the control-flow graph and do not pass the definition twice).
type siteKey struct {
	o types.Object
	b *flow.Block
	i int
}

// PureCalls: calls whose known mod set meets the read set count against call-free definitions.
var PureCalls = os.Getenv("ZR_PURE_CALLS") != "0"

func (w *World) obsRegionClean(u *Unit, o types.Object, def ast.Expr) bool {
	return w.obsRegionCleanTo(u, o, def, nil)
}

// obsRegionCleanTo: as obsRegionClean, but when only is not nil the single "use" considered is that site.
func (w *World) obsRegionCleanTo(u *Unit, o types.Object, def ast.Expr, only *flow.Site) bool {
	info := u.Info()
	roots := map[types.Object]bool{}
	ast.Inspect(def, func(n ast.Node) bool {
		if id, ok := n.(*ast.Ident); ok {
			if v, isVar := info.ObjectOf(id).(*types.Var); isVar && !v.IsField() {
				roots[v] = true
			}
		}
		return true
	})
	// a use inside a function literal runs at an unknown time
	captured := false
	ast.Inspect(u.Body, func(n ast.Node) bool {
		if fl, ok := n.(*ast.FuncLit); ok {
			ast.Inspect(fl.Body, func(m ast.Node) bool {
				if id, ok := m.(*ast.Ident); ok && info.Uses[id] == o {
					captured = true
				}
				return !captured
			})
			return false
		}
		return !captured
	})
	if captured {
		if os.Getenv("ZR_DEBUG_OBS") != "" {
			fmt.Fprintf(os.Stderr, "  %s: captured by a function literal\n", o.Name())
		}
		return false
	}
	var D *flow.Site
	for _, s := range u.Sites {
		if s.Kind == flow.SStore && s.Local == o {
			if _, plain := ast.Unparen(s.LHS).(*ast.Ident); !plain && s.LHS != nil {
				continue // a store through the local (x[i] = …, x.f = …) does not define it
			}
			if D != nil {
				if os.Getenv("ZR_DEBUG_OBS") != "" {
					fmt.Fprintf(os.Stderr, "  %s: two defining stores %s %s\n", o.Name(), u.Pos(D.Pos), u.Pos(s.Pos))
				}
				return false
			}
			D = s
		}
	}
	if D == nil {
		if os.Getenv("ZR_DEBUG_OBS") != "" {
			fmt.Fprintf(os.Stderr, "  %s: no defining store site\n", o.Name())
		}
		return false
	}
	mentions := func(e ast.Node) bool {
		hit := false
		if e == nil {
			return false
		}
		ast.Inspect(e, func(n ast.Node) bool {
			if id, ok := n.(*ast.Ident); ok {
				if roots[info.ObjectOf(id)] {
					hit = true
				}
			}
			return !hit
		})
		return hit
	}
	// a slice the definition only takes the length of keeps that length through element stores
	lenOnly := map[types.Object]bool{}
	{
		inLen := map[*ast.Ident]bool{}
		ast.Inspect(def, func(n ast.Node) bool {
			if call, ok := n.(*ast.CallExpr); ok && len(call.Args) == 1 {
				if fid, ok := call.Fun.(*ast.Ident); ok && (fid.Name == "len" || fid.Name == "cap") {
					if _, isB := info.ObjectOf(fid).(*types.Builtin); isB {
						if aid, ok := ast.Unparen(call.Args[0]).(*ast.Ident); ok {
							inLen[aid] = true
						}
					}
				}
			}
			return true
		})
		for r := range roots {
			if _, isSlice := r.Type().Underlying().(*types.Slice); isSlice {
				lenOnly[r] = true
			}
		}
		ast.Inspect(def, func(n ast.Node) bool {
			if id, ok := n.(*ast.Ident); ok && !inLen[id] {
				delete(lenOnly, info.ObjectOf(id))
			}
			return true
		})
	}
	reads := w.readFieldsOfExpr(u, def)
	// value-owned roots: every variable the definition mentions is a struct/array/basic-typed local or parameter that
	// is read inside its own storage (no pointer, map or slice on the way) and whose address goes nowhere but into calls
	// that only read through it. Such storage changes by assignments in this function only: channel operations and
	// calls that get copies of its parts do not matter.
	owned := w.valueOwned(u, def, roots)
	// a call-free definition: what it reads changes, as far as this check goes, by stores in this function only (as it
	// always was for such locals) — to a variable it mentions, or to a field it reads through whatever variable
	pure := u.C.PureCand(o)
	if pure {
		owned = true
	}
	var muts []*flow.Site
	for _, s := range u.Sites {
		if s == D || s.Deferred {
			continue
		}
		if pure && s.Kind == flow.SCall && s.Callee != nil && reads != nil && PureCalls && !w.observer(s.Callee, 0) {
			// a call-free definition against a call: only a callee of the module whose transitive stores are known and
			// include a field the definition reads counts (`t := r.Term; r.becomeCandidate(); use(t)`)
			if wr, known := w.writtenFields(s.Callee, 0, map[*types.Func]bool{}); known {
				for f := range wr {
					if reads[f] {
						muts = append(muts, s)
						break
					}
				}
			}
			continue
		}
		if owned && s.Kind != flow.SStore {
			continue
		}
		switch s.Kind {
		case flow.SSend, flow.SRecv:
			muts = append(muts, s) // synchronisation: another goroutine's writes become visible
		case flow.SStore:
			if pure && s.Field != nil && reads != nil && reads[s.Field] {
				if _, plain := ast.Unparen(s.LHS).(*ast.Ident); !plain {
					muts = append(muts, s)
					continue
				}
			}
			if r, _ := u.C.RootVar(s.LHS); r != nil && roots[r] {
				if ix, isIx := ast.Unparen(s.LHS).(*ast.IndexExpr); isIx && lenOnly[r] {
					if xid, plain := ast.Unparen(ix.X).(*ast.Ident); plain && info.ObjectOf(xid) == r {
						continue
					}
				}
				// a store to a struct field the definition does not read (type-based: any object's field of that
				// name and type) leaves what it reads unchanged
				if s.Field != nil && reads != nil && !reads[s.Field] {
					if _, plain := ast.Unparen(s.LHS).(*ast.Ident); !plain {
						continue
					}
				}
				muts = append(muts, s)
			}
		case flow.SCall:
			switch {
			case s.Builtin != "":
				if (s.Builtin == "delete" || s.Builtin == "copy" || s.Builtin == "close") && len(s.Call.Args) > 0 && mentions(s.Call.Args[0]) {
					muts = append(muts, s)
				}
			case s.Callee == nil:
				if tv, isT := info.Types[s.Call.Fun]; !isT || !tv.IsType() {
					muts = append(muts, s) // dynamic call
				}
			case lockName(s.Callee.Name()):
				muts = append(muts, s)
			case w.observer(s.Callee, 0):
			default:
				// a callee whose stores (transitively) touch none of the fields the definition reads cannot change it
				if reads != nil {
					if wr, known := w.writtenFields(s.Callee, 0, map[*types.Func]bool{}); known {
						disjoint := true
						for f := range wr {
							if reads[f] {
								disjoint = false
							}
						}
						if disjoint {
							continue
						}
					}
				}
				hit := false
				if sel, isSel := ast.Unparen(s.Call.Fun).(*ast.SelectorExpr); isSel && mentions(sel.X) {
					hit = true
				}
				for _, a := range s.Call.Args {
					// a number, string or bool computed from the variable carries no reference to it
					if mentions(a) && !plainValue(info.TypeOf(a)) {
						hit = true
					}
				}
				if hit {
					muts = append(muts, s)
				}
			}
		}
	}
	if len(muts) == 0 {
		return true
	}
	// forward from D without passing D again
	fwd := map[*flow.Block]bool{}
	headReached := false
	var work []*flow.Block
	for _, e := range D.Block.Succs {
		work = append(work, e.To)
	}
	for len(work) > 0 {
		b := work[len(work)-1]
		work = work[:len(work)-1]
		if b == D.Block {
			headReached = true
			continue
		}
		if fwd[b] {
			continue
		}
		fwd[b] = true
		for _, e := range b.Succs {
			work = append(work, e.To)
		}
	}
	inF := func(m *flow.Site) bool {
		if m.Block == D.Block {
			return D.SameBlockBefore(m) || (headReached && m.SameBlockBefore(D))
		}
		return fwd[m.Block]
	}
	// uses: reads of the local, and reads of the parameters of spliced helpers that stand for an argument mentioning it
	uses := flow.VarUses(u.G, info, o)
	objs := map[types.Object]bool{o: true}
	for changed := true; changed; {
		changed = false
		for _, ic := range u.G.Inlined {
			for p, arg := range ic.Subst {
				po := info.Defs[p]
				if po == nil || objs[po] {
					continue
				}
				hit := false
				ast.Inspect(arg, func(n ast.Node) bool {
					if id, ok := n.(*ast.Ident); ok && objs[info.ObjectOf(id)] {
						hit = true
					}
					return !hit
				})
				if hit {
					objs[po] = true
					uses = append(uses, flow.VarUses(u.G, info, po)...)
					changed = true
				}
			}
		}
	}
	if only != nil {
		uses = []*flow.Site{only}
	}
	for _, U := range uses {
		if U.Block == D.Block && D.SameBlockBefore(U) {
			for _, m := range muts {
				if m.Block == D.Block && D.SameBlockBefore(m) && m.SameBlockBefore(U) {
					if os.Getenv("ZR_DEBUG_OBS") != "" {
						fmt.Fprintf(os.Stderr, "  %s: %s between def and use (same block) at %s\n", o.Name(), m.Kind, u.Pos(m.Pos))
					}
					return false
				}
			}
			continue
		}
		bwd := map[*flow.Block]bool{}
		tailReached := false
		work = work[:0]
		for _, e := range U.Block.Preds {
			work = append(work, e.From)
		}
		for len(work) > 0 {
			b := work[len(work)-1]
			work = work[:len(work)-1]
			if b == D.Block {
				tailReached = true
				continue
			}
			if bwd[b] {
				continue
			}
			bwd[b] = true
			for _, e := range b.Preds {
				work = append(work, e.From)
			}
		}
		for _, m := range muts {
			if !inF(m) {
				continue
			}
			inB := false
			switch {
			case m.Block == D.Block:
				inB = (tailReached && D.SameBlockBefore(m)) || (U.Block == D.Block && m.SameBlockBefore(U))
			case m.Block == U.Block:
				inB = m.SameBlockBefore(U) || bwd[U.Block]
			default:
				inB = bwd[m.Block]
			}
			if inB {
				if os.Getenv("ZR_DEBUG_OBS") != "" {
					fmt.Fprintf(os.Stderr, "  %s: %s between def and use at %s: %v\n", o.Name(), m.Kind, u.Pos(m.Pos), CalleeName(m))
				}
				return false
			}
		}
	}
	return true
}

func lockName(n string) bool {
	return n == "Lock" || n == "Unlock" || n == "RLock" || n == "RUnlock"
}

func (w *World) inModule(p *types.Package) bool {
	if p == nil {
		return false
	}
	_, ok := w.P.ByPath[p.Path()]
	return ok
}

// implementations lists the methods named name of the module's named types that implement iface.
func (w *World) implementations(iface *types.Interface, name string) []*types.Func {
	var out []*types.Func
	for _, pkg := range w.P.Pkgs {
		sc := pkg.Types.Scope()
		for _, n := range sc.Names() {
			tn, ok := sc.Lookup(n).(*types.TypeName)
			if !ok || tn.IsAlias() {
				continue
			}
			t := tn.Type()
			if _, isI := t.Underlying().(*types.Interface); isI {
				continue
			}
			var recvT types.Type
			if types.Implements(t, iface) {
				recvT = t
			} else if pt := types.NewPointer(t); types.Implements(pt, iface) {
				recvT = pt
			} else {
				continue
			}
			if o, _, _ := types.LookupFieldOrMethod(recvT, true, pkg.Types, name); o != nil {
				if m, isF := o.(*types.Func); isF {
					out = append(out, m)
				}
			}
		}
	}
	return out
}

// readFieldsOfExpr: the struct fields selected by e and, transitively, by the module functions it calls; nil when
// that cannot be bounded (a dynamic or interface call, a callee without source).
func (w *World) readFieldsOfExpr(u *Unit, e ast.Expr) map[*types.Var]bool {
	out := map[*types.Var]bool{}
	if !w.collectReads(u.Info(), e, out, 0, map[*types.Func]bool{}) {
		return nil
	}
	return out
}

func (w *World) collectReads(info *types.Info, n ast.Node, out map[*types.Var]bool, depth int, seen map[*types.Func]bool) bool {
	ok := true
	ast.Inspect(n, func(c ast.Node) bool {
		if !ok {
			return false
		}
		switch x := c.(type) {
		case *ast.SelectorExpr:
			if sel := info.Selections[x]; sel != nil && sel.Kind() == types.FieldVal {
				if v, isVar := sel.Obj().(*types.Var); isVar {
					out[v] = true
				}
			}
		case *ast.CallExpr:
			if tv, isT := info.Types[x.Fun]; isT && tv.IsType() {
				return true
			}
			switch cal := typeutil.Callee(info, x).(type) {
			case *types.Builtin:
			case *types.Func:
				if seen[cal] {
					return true
				}
				seen[cal] = true
				src := w.P.FuncOf(cal)
				if src == nil || src.Decl.Body == nil {
					if cal.Pkg() != nil && (purePkgs[cal.Pkg().Path()] || cal.Pkg().Path() == "fmt") {
						return true // reads its arguments only
					}
					ok = false
					return false
				}
				if depth > 4 || !w.collectReads(src.Pkg.TypesInfo, src.Decl.Body, out, depth+1, seen) {
					ok = false
					return false
				}
			default:
				ok = false
				return false
			}
		}
		return true
	})
	return ok
}

// writtenFields: the struct fields stored to by f and, transitively, by what it calls; known is false when that
// cannot be bounded (a store through a plain pointer, a dynamic call, a callee without source outside the packages
// known to be pure, too deep).
func (w *World) writtenFields(f *types.Func, depth int, seen map[*types.Func]bool) (map[*types.Var]bool, bool) {
	if m, ok := w.wrMemo[f]; ok {
		return m.fields, m.known
	}
	if seen[f] {
		return nil, true
	}
	seen[f] = true
	out := map[*types.Var]bool{}
	known := true
	src := w.P.FuncOf(f)
	switch {
	case src != nil && src.Decl.Body != nil && w.observer(f, 0):
		// computed: no store through its receiver or parameters, only observer callees
	case src == nil || src.Decl.Body == nil:
		sig := f.Type().(*types.Signature)
		switch {
		case f.Pkg() == nil:
		case purePkgs[f.Pkg().Path()] || f.Pkg().Path() == "fmt" || f.Pkg().Path() == "time" || f.Pkg().Path() == "errors" || f.Pkg().Path() == "sync/atomic" && strings.HasPrefix(f.Name(), "Load"):
		case sig.Recv() != nil && observerMethod(f.Name()):
		case sig.Recv() != nil && w.inModule(f.Pkg()):
			if iface, isIface := sig.Recv().Type().Underlying().(*types.Interface); isIface {
				impls := w.implementations(iface, f.Name())
				if len(impls) == 0 || depth > 4 {
					known = false
				}
				for _, m := range impls {
					wr, k := w.writtenFields(m, depth+1, seen)
					if !k {
						known = false
					}
					for x := range wr {
						out[x] = true
					}
				}
			} else {
				known = false
			}
		default:
			known = false
		}
	case depth > 5:
		known = false
	default:
		u, err := w.Unit(src.Name)
		if err != nil {
			known = false
			break
		}
		for _, uu := range append([]*Unit{u}, u.Lits()...) {
			for _, s := range uu.Sites {
				switch s.Kind {
				case flow.SStore:
					if s.Field != nil {
						out[s.Field] = true
					} else if s.Local == nil {
						known = false // *p = v, a[i] = v through something that is not a field or a local
					} else if s.Index {
						// an element of a local slice/map: may alias a caller's storage
						if _, isRole := uu.C.RoleOf(s.Local); isRole {
							known = false
						}
					}
				case flow.SCall:
					switch {
					case s.Builtin != "":
						if s.Builtin == "copy" || s.Builtin == "delete" {
							known = false
						}
					case s.Callee == nil:
						if tv, isT := uu.Info().Types[s.Call.Fun]; !isT || !tv.IsType() {
							known = false
						}
					default:
						wr, k := w.writtenFields(s.Callee, depth+1, seen)
						if !k {
							known = false
						}
						for x := range wr {
							out[x] = true
						}
					}
				}
			}
		}
	}
	if w.wrMemo == nil {
		w.wrMemo = map[*types.Func]wrSummary{}
	}
	if depth == 0 {
		w.wrMemo[f] = wrSummary{out, known}
	}
	return out, known
}

type wrSummary struct {
	fields map[*types.Var]bool
	known  bool
}

// plainValue: a value of this type cannot reference anyone's storage (numbers, strings, booleans, and structs/arrays
// of such).
func plainValue(t types.Type) bool {
	if t == nil {
		return false
	}
	switch x := t.Underlying().(type) {
	case *types.Basic:
		return x.Kind() != types.UnsafePointer
	case *types.Array:
		return plainValue(x.Elem())
	case *types.Struct:
		for i := 0; i < x.NumFields(); i++ {
			if !plainValue(x.Field(i).Type()) {
				return false
			}
		}
		return true
	}
	return false
}

// valueOwned: see its use in obsRegionCleanTo.
func (w *World) valueOwned(u *Unit, def ast.Expr, roots map[types.Object]bool) bool {
	info := u.Info()
	if len(roots) == 0 {
		return false
	}
	for r := range roots {
		switch r.Type().Underlying().(type) {
		case *types.Struct, *types.Array, *types.Basic:
		default:
			return false
		}
	}
	// the definition reads inside the roots' own storage only
	ok := true
	var inside func(e ast.Expr) bool
	inside = func(e ast.Expr) bool {
		switch x := ast.Unparen(e).(type) {
		case *ast.Ident:
			return true
		case *ast.SelectorExpr:
			if sel := info.Selections[x]; sel != nil && sel.Kind() == types.FieldVal {
				if t := info.TypeOf(x.X); t != nil {
					if _, isPtr := t.Underlying().(*types.Pointer); isPtr {
						return false
					}
				}
				return inside(x.X)
			}
			return false
		case *ast.IndexExpr:
			if t := info.TypeOf(x.X); t != nil {
				if _, isArr := t.Underlying().(*types.Array); isArr {
					return inside(x.X)
				}
			}
			return false
		}
		return false
	}
	ast.Inspect(def, func(n ast.Node) bool {
		switch x := n.(type) {
		case *ast.SelectorExpr:
			if sel := info.Selections[x]; sel != nil && sel.Kind() == types.FieldVal {
				if root, _ := u.C.RootVar(x); root != nil && roots[root] && !inside(x) {
					ok = false
				}
				return false
			}
		case *ast.IndexExpr:
			if root, _ := u.C.RootVar(x); root != nil && roots[root] && !inside(x) {
				ok = false
			}
		}
		return ok
	})
	if !ok {
		return false
	}
	// the address of a root (or of a part of it) is taken only as an argument of a call that only reads through the
	// corresponding parameter; no closure mentions a root
	var stack []ast.Node
	ast.Inspect(u.Body, func(n ast.Node) bool {
		if n == nil {
			stack = stack[:len(stack)-1]
			return true
		}
		stack = append(stack, n)
		switch x := n.(type) {
		case *ast.FuncLit:
			ast.Inspect(x.Body, func(m ast.Node) bool {
				if id, isId := m.(*ast.Ident); isId && roots[info.ObjectOf(id)] {
					ok = false
				}
				return ok
			})
		case *ast.UnaryExpr:
			if x.Op != token.AND {
				return true
			}
			root, _ := u.C.RootVar(x.X)
			if root == nil || !roots[root] {
				return true
			}
			// parent must be a call with this expression as an argument
			safe := false
			if len(stack) >= 2 {
				if call, isCall := stack[len(stack)-2].(*ast.CallExpr); isCall {
					for i, a := range call.Args {
						if a == ast.Expr(x) {
							if callee, isF := typeutil.Callee(info, call).(*types.Func); isF && w.ptrParamReadOnly(callee, i, 0) {
								safe = true
							}
						}
					}
				}
			}
			if !safe {
				ok = false
			}
		}
		return ok
	})
	return ok
}

// ptrParamReadOnly: the function only reads through its i-th (pointer) parameter: every use of the parameter is the
// base of a field selection that is read (never assigned, never address-taken), or an argument of a call for which the
// same holds; it is not stored, sent, captured or returned.
func (w *World) ptrParamReadOnly(f *types.Func, i int, depth int) bool {
	src := w.P.FuncOf(f)
	if src == nil || src.Decl.Body == nil || depth > 3 {
		return false
	}
	sig := f.Type().(*types.Signature)
	if i >= sig.Params().Len() {
		return false
	}
	param := sig.Params().At(i)
	info := src.Pkg.TypesInfo
	ok := true
	var stack []ast.Node
	ast.Inspect(src.Decl.Body, func(n ast.Node) bool {
		if n == nil {
			stack = stack[:len(stack)-1]
			return true
		}
		stack = append(stack, n)
		id, isId := n.(*ast.Ident)
		if !isId || info.ObjectOf(id) != types.Object(param) {
			return ok
		}
		if len(stack) < 2 {
			ok = false
			return false
		}
		// inside a function literal?
		for _, p := range stack {
			if _, isLit := p.(*ast.FuncLit); isLit {
				ok = false
				return false
			}
		}
		// climb the selector chain p.a.b
		j := len(stack) - 2
		var top ast.Node = id
		for j >= 0 {
			if sel, isSel := stack[j].(*ast.SelectorExpr); isSel && sel.X == top.(ast.Expr) {
				top = sel
				j--
				continue
			}
			break
		}
		if top == ast.Node(id) {
			// the pointer itself is used: allowed only as an argument of a call that is read-only through it, or in
			// a nil comparison
			if j >= 0 {
				switch px := stack[j].(type) {
				case *ast.CallExpr:
					for k, a := range px.Args {
						if a == ast.Expr(id) {
							if callee, isF := typeutil.Callee(info, px).(*types.Func); isF && w.ptrParamReadOnly(callee, k, depth+1) {
								return ok
							}
						}
					}
				case *ast.BinaryExpr:
					if px.Op == token.EQL || px.Op == token.NEQ {
						return ok
					}
				case *ast.StarExpr:
					// *p read as a value: fine unless assigned
					if j >= 1 {
						if as, isAs := stack[j-1].(*ast.AssignStmt); isAs {
							for _, l := range as.Lhs {
								if l == ast.Expr(px) {
									ok = false
								}
							}
						}
					}
					return ok
				}
			}
			ok = false
			return false
		}
		// p.a.b…: must not be assigned, incremented or address-taken
		if j >= 0 {
			switch px := stack[j].(type) {
			case *ast.AssignStmt:
				for _, l := range px.Lhs {
					if l == top.(ast.Expr) {
						ok = false
					}
				}
			case *ast.IncDecStmt:
				ok = false
			case *ast.UnaryExpr:
				if px.Op == token.AND {
					ok = false
				}
			case *ast.IndexExpr:
				// p.a[i] = v?
				if px.X == top.(ast.Expr) && j >= 1 {
					if as, isAs := stack[j-1].(*ast.AssignStmt); isAs {
						for _, l := range as.Lhs {
							if l == ast.Expr(px) {
								ok = false
							}
						}
					}
				}
			case *ast.CallExpr:
				// a method call on a field of the struct: p.a.M(): pointer-receiver methods may change p.a
				if sel, isSel := px.Fun.(*ast.SelectorExpr); isSel && sel == top {
					if s := info.Selections[sel]; s != nil && s.Kind() == types.MethodVal {
						if msig, isSig := s.Obj().Type().(*types.Signature); isSig && msig.Recv() != nil {
							if _, ptrRecv := msig.Recv().Type().(*types.Pointer); ptrRecv {
								if mf, isF := s.Obj().(*types.Func); !isF || !w.observer(mf, 0) {
									ok = false
								}
							}
						}
					}
				}
			}
		}
		return ok
	})
	return ok
}
