package flow

import (
	"go/ast"
	"go/token"
	"go/types"
	"reflect"
)

// CloneDecl copies a function declaration so that it can be spliced a second time into one graph: the copy has nodes of
// its own and fresh objects for everything the function declares (receiver, parameters, results, locals), and info is
// extended so that the copied nodes are typed and resolved like the originals. Two splices of one helper then behave
// like the two copies of the code they replaced: each has its own parameters and locals.
func CloneDecl(decl *ast.FuncDecl, info *types.Info) (*ast.FuncDecl, map[ast.Node]ast.Node) {
	nodes := map[ast.Node]ast.Node{}
	objs := map[types.Object]types.Object{}
	inside := func(o types.Object) bool {
		return o != nil && o.Pos() >= decl.Pos() && o.Pos() <= decl.End()
	}
	fresh := func(o types.Object) types.Object {
		v, ok := o.(*types.Var)
		if !ok || v.IsField() || !inside(o) {
			return o
		}
		if n, ok := objs[o]; ok {
			return n
		}
		n := types.NewVar(v.Pos(), v.Pkg(), v.Name(), v.Type())
		objs[o] = n
		return n
	}
	nodeT := reflect.TypeOf((*ast.Node)(nil)).Elem()
	var cp func(v reflect.Value) reflect.Value
	cp = func(v reflect.Value) reflect.Value {
		switch v.Kind() {
		case reflect.Interface:
			if v.IsNil() {
				return v
			}
			c := cp(v.Elem())
			out := reflect.New(v.Type()).Elem()
			out.Set(c)
			return out
		case reflect.Ptr:
			if v.IsNil() {
				return v
			}
			// *ast.Object and *ast.Scope (legacy resolver data) are shared, not copied
			if _, isObj := v.Interface().(*ast.Object); isObj {
				return reflect.Zero(v.Type())
			}
			if _, isScope := v.Interface().(*ast.Scope); isScope {
				return reflect.Zero(v.Type())
			}
			if old, ok := v.Interface().(ast.Node); ok {
				if n, done := nodes[old]; done {
					return reflect.ValueOf(n)
				}
			}
			n := reflect.New(v.Type().Elem())
			if old, ok := v.Interface().(ast.Node); ok && v.Type().Implements(nodeT) {
				nodes[old] = n.Interface().(ast.Node)
			}
			n.Elem().Set(cp(v.Elem()))
			return n
		case reflect.Struct:
			out := reflect.New(v.Type()).Elem()
			for i := 0; i < v.NumField(); i++ {
				if !out.Field(i).CanSet() {
					continue
				}
				out.Field(i).Set(cp(v.Field(i)))
			}
			return out
		case reflect.Slice:
			if v.IsNil() {
				return v
			}
			out := reflect.MakeSlice(v.Type(), v.Len(), v.Len())
			for i := 0; i < v.Len(); i++ {
				out.Index(i).Set(cp(v.Index(i)))
			}
			return out
		}
		return v
	}
	_ = token.NoPos
	nd := cp(reflect.ValueOf(decl)).Interface().(*ast.FuncDecl)
	for old, nw := range nodes {
		if oe, ok := old.(ast.Expr); ok {
			if tv, has := info.Types[oe]; has {
				info.Types[nw.(ast.Expr)] = tv
			}
		}
		switch o := old.(type) {
		case *ast.Ident:
			n := nw.(*ast.Ident)
			if d, has := info.Defs[o]; has {
				info.Defs[n] = fresh(d)
			}
			if u, has := info.Uses[o]; has {
				info.Uses[n] = fresh(u)
			}
		case *ast.SelectorExpr:
			if s, has := info.Selections[o]; has {
				info.Selections[nw.(*ast.SelectorExpr)] = s
			}
		}
		if im, has := info.Implicits[old]; has {
			info.Implicits[nw] = fresh(im)
		}
	}
	return nd, nodes
}
