// Package flow builds a statement-level control-flow graph with *labelled* edges (go/cfg records
// neither branch conditions nor switch tags), dominators, and path search over it.
//
// The builder follows the structure of golang.org/x/tools/go/cfg (BSD-3-Clause) but keeps, for every
// conditional edge, the formula that holds when the edge is taken. Conditions are kept whole
// (`a || b` is one formula, not two branches) so that dominance-based path conditions do not lose
// disjunctions; every conditional edge gets a block of its own, so "dominated by the edge" is plain
// block dominance.
package flow

import (
	"go/ast"
	"go/token"
)

type Block struct {
	Index int
	Nodes []ast.Node // statements / expressions / value specs, in evaluation order
	Succs []*Edge
	Preds []*Edge
	Kind  string
	// EdgeCond is set on the synthetic block that splits a conditional edge.
	EdgeCond *F
	idom     *Block
	domDepth int
}

type Edge struct {
	From, To *Block
}

type Graph struct {
	Blocks []*Block
	Entry  *Block
	Exit   *Block // normal exit: target of every return and of falling off the end
	Panic  *Block // target of no-return calls
	Defers []*ast.DeferStmt
}

type NoReturnFunc func(*ast.CallExpr) bool

type lblock struct{ _goto, _break, _continue *Block }
type targets struct {
	tail             *targets
	_break, _continue, _fallthrough *Block
}

type builder struct {
	g        *Graph
	cur      *Block
	noReturn NoReturnFunc
	lblocks  map[string]*lblock
	targets  *targets
}

// Build constructs the graph of one function body. FuncLits are opaque expressions.
func Build(body *ast.BlockStmt, noReturn NoReturnFunc) *Graph {
	g := &Graph{}
	b := &builder{g: g, noReturn: noReturn, lblocks: map[string]*lblock{}}
	g.Entry = b.newBlock("entry")
	g.Exit = b.newBlock("exit")
	g.Panic = b.newBlock("panic")
	b.cur = g.Entry
	b.stmt(body)
	if b.cur != nil {
		// falling off the end is materialised as a return at the closing brace (as go/cfg does)
		b.add(&ast.ReturnStmt{Return: body.Rbrace})
		b.jump(g.Exit)
	}
	g.computeDominators()
	return g
}

func (b *builder) newBlock(kind string) *Block {
	blk := &Block{Index: len(b.g.Blocks), Kind: kind}
	b.g.Blocks = append(b.g.Blocks, blk)
	return blk
}

func (b *builder) add(n ast.Node) {
	if b.cur == nil {
		b.cur = b.newBlock("unreachable")
	}
	b.cur.Nodes = append(b.cur.Nodes, n)
}

func link(from, to *Block) {
	e := &Edge{From: from, To: to}
	from.Succs = append(from.Succs, e)
	to.Preds = append(to.Preds, e)
}

func (b *builder) jump(to *Block) {
	if b.cur != nil {
		link(b.cur, to)
	}
	b.cur = nil
}

// branch adds a conditional edge from the current block to `to` under formula f (nil = no label),
// through a fresh split block.
func (b *builder) branch(to *Block, f *F) {
	if b.cur == nil {
		b.cur = b.newBlock("unreachable")
	}
	mid := b.newBlock("edge")
	mid.EdgeCond = f
	link(b.cur, mid)
	link(mid, to)
}

func (b *builder) stmtList(l []ast.Stmt) {
	for _, s := range l {
		b.stmt(s)
	}
}

func (b *builder) callsNoReturn(n ast.Node) bool {
	if b.noReturn == nil {
		return false
	}
	es, ok := n.(*ast.ExprStmt)
	if !ok {
		return false
	}
	call, ok := es.X.(*ast.CallExpr)
	return ok && b.noReturn(call)
}

func (b *builder) stmt(_s ast.Stmt) {
	var label *lblock
start:
	switch s := _s.(type) {
	case *ast.BadStmt, *ast.SendStmt, *ast.IncDecStmt, *ast.GoStmt, *ast.EmptyStmt, *ast.AssignStmt:
		b.add(s)
	case *ast.DeferStmt:
		b.add(s)
		b.g.Defers = append(b.g.Defers, s)
	case *ast.ExprStmt:
		b.add(s)
		if b.callsNoReturn(s) {
			b.jump(b.g.Panic)
		}
	case *ast.DeclStmt:
		d := s.Decl.(*ast.GenDecl)
		if d.Tok == token.VAR {
			for _, spec := range d.Specs {
				if vs, ok := spec.(*ast.ValueSpec); ok {
					b.add(vs)
				}
			}
		}
	case *ast.LabeledStmt:
		label = b.labeledBlock(s.Label)
		b.jump(label._goto)
		b.cur = label._goto
		_s = s.Stmt
		goto start
	case *ast.ReturnStmt:
		b.add(s)
		b.jump(b.g.Exit)
	case *ast.BranchStmt:
		b.branchStmt(s)
	case *ast.BlockStmt:
		b.stmtList(s.List)
	case *ast.IfStmt:
		if s.Init != nil {
			b.stmt(s.Init)
		}
		then := b.newBlock("if.then")
		done := b.newBlock("if.done")
		els := done
		if s.Else != nil {
			els = b.newBlock("if.else")
		}
		b.add(s.Cond)
		c := FromExpr(s.Cond)
		b.branch(then, c)
		b.branch(els, Not(c))
		b.cur = then
		b.stmt(s.Body)
		b.jump(done)
		if s.Else != nil {
			b.cur = els
			b.stmt(s.Else)
			b.jump(done)
		}
		b.cur = done
	case *ast.SwitchStmt:
		b.switchStmt(s, label)
	case *ast.TypeSwitchStmt:
		b.typeSwitchStmt(s, label)
	case *ast.SelectStmt:
		b.selectStmt(s, label)
	case *ast.ForStmt:
		b.forStmt(s, label)
	case *ast.RangeStmt:
		b.rangeStmt(s, label)
	case nil:
	default:
		panic("flow: unexpected statement")
	}
}

func (b *builder) labeledBlock(label *ast.Ident) *lblock {
	lb := b.lblocks[label.Name]
	if lb == nil {
		lb = &lblock{_goto: b.newBlock("label")}
		b.lblocks[label.Name] = lb
	}
	return lb
}

func (b *builder) branchStmt(s *ast.BranchStmt) {
	var to *Block
	switch s.Tok {
	case token.BREAK:
		if s.Label != nil {
			if lb := b.labeledBlock(s.Label); lb != nil {
				to = lb._break
			}
		} else {
			for t := b.targets; t != nil && to == nil; t = t.tail {
				to = t._break
			}
		}
	case token.CONTINUE:
		if s.Label != nil {
			if lb := b.labeledBlock(s.Label); lb != nil {
				to = lb._continue
			}
		} else {
			for t := b.targets; t != nil && to == nil; t = t.tail {
				to = t._continue
			}
		}
	case token.FALLTHROUGH:
		for t := b.targets; t != nil && to == nil; t = t.tail {
			to = t._fallthrough
		}
	case token.GOTO:
		if s.Label != nil {
			to = b.labeledBlock(s.Label)._goto
		}
	}
	if to == nil {
		to = b.newBlock("undefined.branch")
	}
	b.add(s)
	b.jump(to)
}

func (b *builder) switchStmt(s *ast.SwitchStmt, label *lblock) {
	if s.Init != nil {
		b.stmt(s.Init)
	}
	if s.Tag != nil {
		b.add(s.Tag)
	}
	done := b.newBlock("switch.done")
	if label != nil {
		label._break = done
	}
	var defaultBody *[]ast.Stmt
	var defaultFall, defaultBlock *Block
	ncases := len(s.Body.List)
	// pre-create body blocks so fallthrough can target the next one
	bodies := make([]*Block, ncases)
	for i := range bodies {
		bodies[i] = b.newBlock("switch.body")
	}
	for i, clause := range s.Body.List {
		cc := clause.(*ast.CaseClause)
		fall := done
		if i+1 < ncases {
			fall = bodies[i+1]
		}
		body := bodies[i]
		if cc.List == nil {
			defaultBody = &cc.Body
			defaultFall = fall
			defaultBlock = body
			continue
		}
		// one test per clause: Or over the list
		var alts []*F
		for _, e := range cc.List {
			b.add(e)
			if s.Tag != nil {
				alts = append(alts, FromExpr(&ast.BinaryExpr{X: s.Tag, Op: token.EQL, Y: e, OpPos: e.Pos()}))
			} else {
				alts = append(alts, FromExpr(e))
			}
		}
		c := Or(alts...)
		next := b.newBlock("switch.next")
		b.branch(body, c)
		b.branch(next, Not(c))
		b.cur = body
		b.targets = &targets{tail: b.targets, _break: done, _fallthrough: fall}
		b.stmtList(cc.Body)
		b.targets = b.targets.tail
		b.jump(done)
		b.cur = next
	}
	if defaultBlock != nil {
		b.jump(defaultBlock)
		b.cur = defaultBlock
		b.targets = &targets{tail: b.targets, _break: done, _fallthrough: defaultFall}
		b.stmtList(*defaultBody)
		b.targets = b.targets.tail
	}
	b.jump(done)
	b.cur = done
}

func (b *builder) typeSwitchStmt(s *ast.TypeSwitchStmt, label *lblock) {
	if s.Init != nil {
		b.stmt(s.Init)
	}
	b.add(s.Assign)
	done := b.newBlock("typeswitch.done")
	if label != nil {
		label._break = done
	}
	var def *ast.CaseClause
	for _, clause := range s.Body.List {
		cc := clause.(*ast.CaseClause)
		if cc.List == nil {
			def = cc
			continue
		}
		body := b.newBlock("typeswitch.body")
		next := b.newBlock("typeswitch.next")
		var alts []*F
		for _, e := range cc.List {
			alts = append(alts, Opaque("typeis", s.Assign, e))
		}
		c := Or(alts...)
		b.branch(body, c)
		b.branch(next, Not(c))
		b.cur = body
		b.targets = &targets{tail: b.targets, _break: done}
		b.stmtList(cc.Body)
		b.targets = b.targets.tail
		b.jump(done)
		b.cur = next
	}
	if def != nil {
		b.targets = &targets{tail: b.targets, _break: done}
		b.stmtList(def.Body)
		b.targets = b.targets.tail
	}
	b.jump(done)
	b.cur = done
}

func (b *builder) selectStmt(s *ast.SelectStmt, label *lblock) {
	done := b.newBlock("select.done")
	if label != nil {
		label._break = done
	}
	head := b.cur
	if head == nil {
		head = b.newBlock("unreachable")
	}
	for _, clause := range s.Body.List {
		cc := clause.(*ast.CommClause)
		body := b.newBlock("select.body")
		b.cur = head
		b.branch(body, nil)
		b.cur = body
		if cc.Comm != nil {
			b.add(cc.Comm)
		}
		b.targets = &targets{tail: b.targets, _break: done}
		b.stmtList(cc.Body)
		b.targets = b.targets.tail
		b.jump(done)
	}
	if len(s.Body.List) == 0 {
		// select{} blocks forever
		b.cur = head
		b.jump(b.g.Panic)
	}
	b.cur = done
}

func (b *builder) forStmt(s *ast.ForStmt, label *lblock) {
	if s.Init != nil {
		b.stmt(s.Init)
	}
	body := b.newBlock("for.body")
	done := b.newBlock("for.done")
	loop := body
	if s.Cond != nil {
		loop = b.newBlock("for.loop")
	}
	cont := loop
	if s.Post != nil {
		cont = b.newBlock("for.post")
	}
	if label != nil {
		label._break = done
		label._continue = cont
	}
	b.jump(loop)
	if s.Cond != nil {
		b.cur = loop
		b.add(s.Cond)
		c := FromExpr(s.Cond)
		b.branch(body, c)
		b.branch(done, Not(c))
	}
	b.cur = body
	b.targets = &targets{tail: b.targets, _break: done, _continue: cont}
	b.stmt(s.Body)
	b.targets = b.targets.tail
	b.jump(cont)
	if s.Post != nil {
		b.cur = cont
		b.stmt(s.Post)
		b.jump(loop)
	}
	b.cur = done
}

func (b *builder) rangeStmt(s *ast.RangeStmt, label *lblock) {
	b.add(s.X)
	loop := b.newBlock("range.loop")
	b.jump(loop)
	body := b.newBlock("range.body")
	done := b.newBlock("range.done")
	b.cur = loop
	b.add(&RangeHead{Stmt: s})
	b.branch(body, nil)
	b.branch(done, nil)
	if label != nil {
		label._break = done
		label._continue = loop
	}
	b.cur = body
	b.targets = &targets{tail: b.targets, _break: done, _continue: loop}
	b.stmt(s.Body)
	b.targets = b.targets.tail
	b.jump(loop)
	b.cur = done
}

// RangeHead marks the per-iteration assignment of a range statement's key/value.
type RangeHead struct{ Stmt *ast.RangeStmt }

func (r *RangeHead) Pos() token.Pos { return r.Stmt.For }
func (r *RangeHead) End() token.Pos { return r.Stmt.X.End() }

// ---- dominators (iterative, Cooper-Harvey-Kennedy) ----

func (g *Graph) computeDominators() {
	// reverse postorder from entry
	var order []*Block
	seen := map[*Block]bool{}
	var dfs func(*Block)
	dfs = func(b *Block) {
		seen[b] = true
		for _, e := range b.Succs {
			if !seen[e.To] {
				dfs(e.To)
			}
		}
		order = append(order, b)
	}
	dfs(g.Entry)
	for i, j := 0, len(order)-1; i < j; i, j = i+1, j-1 {
		order[i], order[j] = order[j], order[i]
	}
	rpo := map[*Block]int{}
	for i, b := range order {
		rpo[b] = i
	}
	g.Entry.idom = g.Entry
	intersect := func(a, b *Block) *Block {
		for a != b {
			for rpo[a] > rpo[b] {
				a = a.idom
			}
			for rpo[b] > rpo[a] {
				b = b.idom
			}
		}
		return a
	}
	for changed := true; changed; {
		changed = false
		for _, b := range order[1:] {
			var nd *Block
			for _, e := range b.Preds {
				p := e.From
				if p.idom == nil {
					continue
				}
				if nd == nil {
					nd = p
				} else {
					nd = intersect(p, nd)
				}
			}
			if nd != nil && b.idom != nd {
				b.idom = nd
				changed = true
			}
		}
	}
}

// Reachable reports whether the block is reachable from entry.
func (b *Block) Reachable() bool { return b.idom != nil }

// Dominates reports whether a dominates b (reflexive).
func (g *Graph) Dominates(a, b *Block) bool {
	if a.idom == nil || b.idom == nil {
		return false
	}
	for {
		if a == b {
			return true
		}
		if b == g.Entry {
			return false
		}
		b = b.idom
	}
}

// Dominators lists the blocks dominating b, from entry down to b itself.
func (g *Graph) Dominators(b *Block) []*Block {
	var out []*Block
	if b.idom == nil {
		return nil
	}
	for {
		out = append(out, b)
		if b == g.Entry {
			break
		}
		b = b.idom
	}
	for i, j := 0, len(out)-1; i < j; i, j = i+1, j-1 {
		out[i], out[j] = out[j], out[i]
	}
	return out
}

// Idom returns the immediate dominator (the entry block is its own).
func (g *Graph) Idom(b *Block) *Block { return b.idom }
