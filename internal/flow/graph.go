// Package flow builds a statement-level control-flow graph with *labelled* edges (go/cfg records
// neither branch conditions nor switch tags), dominators, and path search over it.
//
// The builder follows the structure of golang.org/x/tools/go/cfg (BSD-3-Clause) but keeps, for every
// conditional edge, the formula that holds when the edge is taken. Conditions are kept whole
// (`a || b` is one formula, not two branches) so that dominance-based path conditions do not lose
// disjunctions; every conditional edge gets a block of its own, so "dominated by the edge" is plain
// block dominance.
package flow

import (
	"go/ast"
	"go/token"
)

type Block struct {
	Index int
	Nodes []ast.Node // statements / expressions / value specs, in evaluation order
	Succs []*Edge
	Preds []*Edge
	Kind  string
	// EdgeCond is set on the synthetic block that splits a conditional edge.
	EdgeCond *F
	idom     *Block
	domDepth int
}

type Edge struct {
	From, To *Block
}

type Graph struct {
	Inlined []*InlinedCall
	Blocks []*Block
	Entry  *Block
	Exit   *Block // normal exit: target of every return and of falling off the end
	Panic  *Block // target of no-return calls
	Defers []*ast.DeferStmt
}

type NoReturnFunc func(*ast.CallExpr) bool

type lblock struct{ _goto, _break, _continue *Block }
type targets struct {
	tail             *targets
	_break, _continue, _fallthrough *Block
}

type builder struct {
	g        *Graph
	cur      *Block
	noReturn NoReturnFunc
	lblocks  map[string]*lblock
	targets  *targets
	inline   InlineFunc
	rangeCond func(*ast.RangeStmt) ast.Expr
	ret      *retCtx // inside the spliced body of a helper: what its return statements become
	depth    int
	stack    []*ast.FuncDecl
	parent   *InlinedCall
}

// InlineFunc decides whether the body of the function called by call is spliced into the graph in place of the call
// (see BuildInlining). tail: the call is the operand of a return statement.
type InlineFunc func(call *ast.CallExpr, tail bool) *InlineDecision

// InlineDecision: the helper to splice and the parameters that must become locals of their own (a struct or array
// passed by value that the helper modifies: the modification is made to the copy).
type InlineDecision struct {
	Decl *ast.FuncDecl
	Orig *ast.FuncDecl // the declaration in the source when Decl is a copy
	Bind map[*ast.Ident]bool
}

// InlinedCall records one spliced call: the helper's parameters that print as the caller's argument (Subst) and the
// ones that became locals assigned at the call (Bound).
type InlinedCall struct {
	Call   *ast.CallExpr
	Decl   *ast.FuncDecl
	Orig   *ast.FuncDecl
	Subst  map[*ast.Ident]ast.Expr // parameter (its declaring identifier) -> argument expression
	Bound  []*ast.Ident
	Lhs    []ast.Expr // variables assigned from the helper's results
	Parent *InlinedCall
}

type retCtx struct {
	after *Block
	lhs   []ast.Expr
	tok   token.Token
	// a helper spliced as the condition of an if: `return e` branches on e to the statement's then/else blocks
	then, els *Block
	neg       bool
}

// Build constructs the graph of one function body. FuncLits are opaque expressions.
func Build(body *ast.BlockStmt, noReturn NoReturnFunc) *Graph {
	return BuildInlining(body, noReturn, nil)
}

// BuildInlining is Build with helper splicing: a statement `h(a)`, `x, err := h(a)`, `x = h(a)` or `return h(a)` whose
// callee inline accepts is replaced by the callee's body; its return statements become assignments to the left-hand
// side (or returns of the caller, for the last form) followed by a jump to the statement's continuation. Parameters
// whose argument is call-free and that the helper never assigns are not materialised (Canon prints them as the
// argument); the others become locals assigned at the call.
func BuildInlining(body *ast.BlockStmt, noReturn NoReturnFunc, inline InlineFunc) *Graph {
	return BuildWith(body, BuildOpts{NoReturn: noReturn, Inline: inline})
}

// BuildOpts: RangeCond, when set, gives the condition that holds on entry to the body of a range statement (for a
// range with a key over a slice or array: key < len(X)), or nil.
type BuildOpts struct {
	NoReturn  NoReturnFunc
	Inline    InlineFunc
	RangeCond func(*ast.RangeStmt) ast.Expr
}

func BuildWith(body *ast.BlockStmt, o BuildOpts) *Graph {
	noReturn, inline := o.NoReturn, o.Inline
	g := &Graph{}
	b := &builder{g: g, noReturn: noReturn, lblocks: map[string]*lblock{}, inline: inline, rangeCond: o.RangeCond}
	g.Entry = b.newBlock("entry")
	g.Exit = b.newBlock("exit")
	g.Panic = b.newBlock("panic")
	b.cur = g.Entry
	b.stmt(body)
	if b.cur != nil {
		// falling off the end is materialised as a return at the closing brace (as go/cfg does)
		b.add(&ast.ReturnStmt{Return: body.Rbrace})
		b.jump(g.Exit)
	}
	g.computeDominators()
	return g
}

func (b *builder) newBlock(kind string) *Block {
	blk := &Block{Index: len(b.g.Blocks), Kind: kind}
	b.g.Blocks = append(b.g.Blocks, blk)
	return blk
}

func (b *builder) add(n ast.Node) {
	if b.cur == nil {
		b.cur = b.newBlock("unreachable")
	}
	b.cur.Nodes = append(b.cur.Nodes, n)
}

func link(from, to *Block) {
	e := &Edge{From: from, To: to}
	from.Succs = append(from.Succs, e)
	to.Preds = append(to.Preds, e)
}

func (b *builder) jump(to *Block) {
	if b.cur != nil {
		link(b.cur, to)
	}
	b.cur = nil
}

// branch adds a conditional edge from the current block to `to` under formula f (nil = no label),
// through a fresh split block.
func (b *builder) branch(to *Block, f *F) {
	if b.cur == nil {
		b.cur = b.newBlock("unreachable")
	}
	mid := b.newBlock("edge")
	mid.EdgeCond = f
	link(b.cur, mid)
	link(mid, to)
}

func (b *builder) stmtList(l []ast.Stmt) {
	for _, s := range l {
		b.stmt(s)
	}
}

func (b *builder) callsNoReturn(n ast.Node) bool {
	if b.noReturn == nil {
		return false
	}
	es, ok := n.(*ast.ExprStmt)
	if !ok {
		return false
	}
	call, ok := es.X.(*ast.CallExpr)
	return ok && b.noReturn(call)
}

func (b *builder) stmt(_s ast.Stmt) {
	var label *lblock
start:
	if b.inline != nil && b.tryInline(_s) {
		return
	}
	switch s := _s.(type) {
	case *ast.BadStmt, *ast.SendStmt, *ast.IncDecStmt, *ast.GoStmt, *ast.EmptyStmt, *ast.AssignStmt:
		b.add(s)
	case *ast.DeferStmt:
		b.add(s)
		b.g.Defers = append(b.g.Defers, s)
	case *ast.ExprStmt:
		b.add(s)
		if b.callsNoReturn(s) {
			b.jump(b.g.Panic)
		}
	case *ast.DeclStmt:
		d := s.Decl.(*ast.GenDecl)
		if d.Tok == token.VAR {
			for _, spec := range d.Specs {
				if vs, ok := spec.(*ast.ValueSpec); ok {
					b.add(vs)
				}
			}
		}
	case *ast.LabeledStmt:
		label = b.labeledBlock(s.Label)
		b.jump(label._goto)
		b.cur = label._goto
		_s = s.Stmt
		goto start
	case *ast.ReturnStmt:
		if b.ret != nil && b.ret.then != nil {
			// a return of a helper spliced as an if condition: branch on the returned condition
			if len(s.Results) != 1 {
				b.add(s)
				b.jump(b.g.Exit)
				return
			}
			b.add(s.Results[0])
			c := FromExpr(s.Results[0])
			if b.ret.neg {
				c = Not(c)
			}
			switch c.Op {
			case OpTrue: // `return true`: only one way on
				b.jump(b.ret.then)
			case OpFalse:
				b.jump(b.ret.els)
			default:
				b.branch(b.ret.then, c)
				b.branch(b.ret.els, Not(c))
				b.cur = nil
			}
			return
		}
		if b.ret != nil {
			// a return of a spliced helper: hand the results to the call statement's left-hand side and go on after it
			if len(b.ret.lhs) > 0 && len(s.Results) > 0 {
				b.add(&ast.AssignStmt{Lhs: b.ret.lhs, Tok: b.ret.tok, TokPos: s.Return, Rhs: s.Results})
			} else {
				for _, r := range s.Results {
					b.add(r)
				}
			}
			b.jump(b.ret.after)
			return
		}
		b.add(s)
		b.jump(b.g.Exit)
	case *ast.BranchStmt:
		b.branchStmt(s)
	case *ast.BlockStmt:
		b.stmtList(s.List)
	case *ast.IfStmt:
		if s.Init != nil {
			b.stmt(s.Init)
		}
		then := b.newBlock("if.then")
		done := b.newBlock("if.done")
		els := done
		if s.Else != nil {
			els = b.newBlock("if.else")
		}
		if !(b.inline != nil && b.spliceCond(s.Cond, then, els)) {
			b.add(s.Cond)
			c := FromExpr(s.Cond)
			b.branch(then, c)
			b.branch(els, Not(c))
		}
		b.cur = then
		b.stmt(s.Body)
		b.jump(done)
		if s.Else != nil {
			b.cur = els
			b.stmt(s.Else)
			b.jump(done)
		}
		b.cur = done
	case *ast.SwitchStmt:
		b.switchStmt(s, label)
	case *ast.TypeSwitchStmt:
		b.typeSwitchStmt(s, label)
	case *ast.SelectStmt:
		b.selectStmt(s, label)
	case *ast.ForStmt:
		b.forStmt(s, label)
	case *ast.RangeStmt:
		b.rangeStmt(s, label)
	case nil:
	default:
		panic("flow: unexpected statement")
	}
}

func (b *builder) labeledBlock(label *ast.Ident) *lblock {
	lb := b.lblocks[label.Name]
	if lb == nil {
		lb = &lblock{_goto: b.newBlock("label")}
		b.lblocks[label.Name] = lb
	}
	return lb
}

func (b *builder) branchStmt(s *ast.BranchStmt) {
	var to *Block
	switch s.Tok {
	case token.BREAK:
		if s.Label != nil {
			if lb := b.labeledBlock(s.Label); lb != nil {
				to = lb._break
			}
		} else {
			for t := b.targets; t != nil && to == nil; t = t.tail {
				to = t._break
			}
		}
	case token.CONTINUE:
		if s.Label != nil {
			if lb := b.labeledBlock(s.Label); lb != nil {
				to = lb._continue
			}
		} else {
			for t := b.targets; t != nil && to == nil; t = t.tail {
				to = t._continue
			}
		}
	case token.FALLTHROUGH:
		for t := b.targets; t != nil && to == nil; t = t.tail {
			to = t._fallthrough
		}
	case token.GOTO:
		if s.Label != nil {
			to = b.labeledBlock(s.Label)._goto
		}
	}
	if to == nil {
		to = b.newBlock("undefined.branch")
	}
	b.add(s)
	b.jump(to)
}

func (b *builder) switchStmt(s *ast.SwitchStmt, label *lblock) {
	if s.Init != nil {
		b.stmt(s.Init)
	}
	if s.Tag != nil {
		b.add(s.Tag)
	}
	done := b.newBlock("switch.done")
	if label != nil {
		label._break = done
	}
	var defaultBody *[]ast.Stmt
	var defaultFall, defaultBlock *Block
	ncases := len(s.Body.List)
	// pre-create body blocks so fallthrough can target the next one
	bodies := make([]*Block, ncases)
	for i := range bodies {
		bodies[i] = b.newBlock("switch.body")
	}
	for i, clause := range s.Body.List {
		cc := clause.(*ast.CaseClause)
		fall := done
		if i+1 < ncases {
			fall = bodies[i+1]
		}
		body := bodies[i]
		if cc.List == nil {
			defaultBody = &cc.Body
			defaultFall = fall
			defaultBlock = body
			continue
		}
		// one test per clause: Or over the list
		var alts []*F
		for _, e := range cc.List {
			b.add(e)
			if s.Tag != nil {
				alts = append(alts, FromExpr(&ast.BinaryExpr{X: s.Tag, Op: token.EQL, Y: e, OpPos: e.Pos()}))
			} else {
				alts = append(alts, FromExpr(e))
			}
		}
		c := Or(alts...)
		next := b.newBlock("switch.next")
		b.branch(body, c)
		b.branch(next, Not(c))
		b.cur = body
		b.targets = &targets{tail: b.targets, _break: done, _fallthrough: fall}
		b.stmtList(cc.Body)
		b.targets = b.targets.tail
		b.jump(done)
		b.cur = next
	}
	if defaultBlock != nil {
		b.jump(defaultBlock)
		b.cur = defaultBlock
		b.targets = &targets{tail: b.targets, _break: done, _fallthrough: defaultFall}
		b.stmtList(*defaultBody)
		b.targets = b.targets.tail
	}
	b.jump(done)
	b.cur = done
}

func (b *builder) typeSwitchStmt(s *ast.TypeSwitchStmt, label *lblock) {
	if s.Init != nil {
		b.stmt(s.Init)
	}
	b.add(s.Assign)
	done := b.newBlock("typeswitch.done")
	if label != nil {
		label._break = done
	}
	var def *ast.CaseClause
	for _, clause := range s.Body.List {
		cc := clause.(*ast.CaseClause)
		if cc.List == nil {
			def = cc
			continue
		}
		body := b.newBlock("typeswitch.body")
		next := b.newBlock("typeswitch.next")
		var alts []*F
		for _, e := range cc.List {
			alts = append(alts, Opaque("typeis", s.Assign, e))
		}
		c := Or(alts...)
		b.branch(body, c)
		b.branch(next, Not(c))
		b.cur = body
		b.targets = &targets{tail: b.targets, _break: done}
		b.stmtList(cc.Body)
		b.targets = b.targets.tail
		b.jump(done)
		b.cur = next
	}
	if def != nil {
		b.targets = &targets{tail: b.targets, _break: done}
		b.stmtList(def.Body)
		b.targets = b.targets.tail
	}
	b.jump(done)
	b.cur = done
}

func (b *builder) selectStmt(s *ast.SelectStmt, label *lblock) {
	done := b.newBlock("select.done")
	if label != nil {
		label._break = done
	}
	head := b.cur
	if head == nil {
		head = b.newBlock("unreachable")
	}
	for _, clause := range s.Body.List {
		cc := clause.(*ast.CommClause)
		body := b.newBlock("select.body")
		b.cur = head
		b.branch(body, nil)
		b.cur = body
		if cc.Comm != nil {
			b.add(cc.Comm)
		}
		b.targets = &targets{tail: b.targets, _break: done}
		b.stmtList(cc.Body)
		b.targets = b.targets.tail
		b.jump(done)
	}
	if len(s.Body.List) == 0 {
		// select{} blocks forever
		b.cur = head
		b.jump(b.g.Panic)
	}
	b.cur = done
}

func (b *builder) forStmt(s *ast.ForStmt, label *lblock) {
	if s.Init != nil {
		b.stmt(s.Init)
	}
	body := b.newBlock("for.body")
	done := b.newBlock("for.done")
	loop := body
	if s.Cond != nil {
		loop = b.newBlock("for.loop")
	}
	cont := loop
	if s.Post != nil {
		cont = b.newBlock("for.post")
	}
	if label != nil {
		label._break = done
		label._continue = cont
	}
	b.jump(loop)
	if s.Cond != nil {
		b.cur = loop
		b.add(s.Cond)
		c := FromExpr(s.Cond)
		b.branch(body, c)
		b.branch(done, Not(c))
	}
	b.cur = body
	b.targets = &targets{tail: b.targets, _break: done, _continue: cont}
	b.stmt(s.Body)
	b.targets = b.targets.tail
	b.jump(cont)
	if s.Post != nil {
		b.cur = cont
		b.stmt(s.Post)
		b.jump(loop)
	}
	b.cur = done
}

func (b *builder) rangeStmt(s *ast.RangeStmt, label *lblock) {
	b.add(s.X)
	loop := b.newBlock("range.loop")
	b.jump(loop)
	body := b.newBlock("range.body")
	done := b.newBlock("range.done")
	b.cur = loop
	b.add(&RangeHead{Stmt: s})
	var bodyCond *F
	if b.rangeCond != nil {
		if c := b.rangeCond(s); c != nil {
			bodyCond = FromExpr(c) // inside the body the key is below the length (nothing is known on the exit edge:
			// the loop is also left by break)
		}
	}
	b.branch(body, bodyCond)
	b.branch(done, nil)
	if label != nil {
		label._break = done
		label._continue = loop
	}
	b.cur = body
	b.targets = &targets{tail: b.targets, _break: done, _continue: loop}
	b.stmt(s.Body)
	b.targets = b.targets.tail
	b.jump(loop)
	b.cur = done
}

// RangeHead marks the per-iteration assignment of a range statement's key/value.
type RangeHead struct{ Stmt *ast.RangeStmt }

func (r *RangeHead) Pos() token.Pos { return r.Stmt.For }
func (r *RangeHead) End() token.Pos { return r.Stmt.X.End() }

// ---- dominators (iterative, Cooper-Harvey-Kennedy) ----

func (g *Graph) computeDominators() {
	// reverse postorder from entry
	var order []*Block
	seen := map[*Block]bool{}
	var dfs func(*Block)
	dfs = func(b *Block) {
		seen[b] = true
		for _, e := range b.Succs {
			if !seen[e.To] {
				dfs(e.To)
			}
		}
		order = append(order, b)
	}
	dfs(g.Entry)
	for i, j := 0, len(order)-1; i < j; i, j = i+1, j-1 {
		order[i], order[j] = order[j], order[i]
	}
	rpo := map[*Block]int{}
	for i, b := range order {
		rpo[b] = i
	}
	g.Entry.idom = g.Entry
	intersect := func(a, b *Block) *Block {
		for a != b {
			for rpo[a] > rpo[b] {
				a = a.idom
			}
			for rpo[b] > rpo[a] {
				b = b.idom
			}
		}
		return a
	}
	for changed := true; changed; {
		changed = false
		for _, b := range order[1:] {
			var nd *Block
			for _, e := range b.Preds {
				p := e.From
				if p.idom == nil {
					continue
				}
				if nd == nil {
					nd = p
				} else {
					nd = intersect(p, nd)
				}
			}
			if nd != nil && b.idom != nd {
				b.idom = nd
				changed = true
			}
		}
	}
}

// Reachable reports whether the block is reachable from entry.
func (b *Block) Reachable() bool { return b.idom != nil }

// Dominates reports whether a dominates b (reflexive).
func (g *Graph) Dominates(a, b *Block) bool {
	if a.idom == nil || b.idom == nil {
		return false
	}
	for {
		if a == b {
			return true
		}
		if b == g.Entry {
			return false
		}
		b = b.idom
	}
}

// Dominators lists the blocks dominating b, from entry down to b itself.
func (g *Graph) Dominators(b *Block) []*Block {
	var out []*Block
	if b.idom == nil {
		return nil
	}
	for {
		out = append(out, b)
		if b == g.Entry {
			break
		}
		b = b.idom
	}
	for i, j := 0, len(out)-1; i < j; i, j = i+1, j-1 {
		out[i], out[j] = out[j], out[i]
	}
	return out
}

// Idom returns the immediate dominator (the entry block is its own).
func (g *Graph) Idom(b *Block) *Block { return b.idom }

// spliceCond splices a helper whose call (possibly negated) is the whole condition of an if statement.
func (b *builder) spliceCond(cond ast.Expr, then, els *Block) bool {
	neg := false
	e := ast.Unparen(cond)
	for {
		if u, ok := e.(*ast.UnaryExpr); ok && u.Op == token.NOT {
			neg = !neg
			e = ast.Unparen(u.X)
			continue
		}
		break
	}
	call, ok := e.(*ast.CallExpr)
	if !ok {
		return false
	}
	return b.splice(call, nil, token.ASSIGN, false, &retCtx{then: then, els: els, neg: neg})
}

// tryInline splices the helper called by statement s, if the statement has one of the supported forms and the
// inline hook accepts the callee.
func (b *builder) tryInline(s ast.Stmt) bool {
	var call *ast.CallExpr
	var lhs []ast.Expr
	tok := token.ASSIGN
	tail := false
	switch x := s.(type) {
	case *ast.ExprStmt:
		call, _ = ast.Unparen(x.X).(*ast.CallExpr)
	case *ast.AssignStmt:
		if len(x.Rhs) == 1 && (x.Tok == token.ASSIGN || x.Tok == token.DEFINE) {
			call, _ = ast.Unparen(x.Rhs[0]).(*ast.CallExpr)
			lhs, tok = x.Lhs, x.Tok
		}
	case *ast.ReturnStmt:
		if len(x.Results) == 1 {
			call, _ = ast.Unparen(x.Results[0]).(*ast.CallExpr)
			tail = true
		}
	}
	if call == nil {
		return false
	}
	return b.splice(call, lhs, tok, tail, nil)
}

func (b *builder) splice(call *ast.CallExpr, lhs []ast.Expr, tok token.Token, tail bool, condCtx *retCtx) bool {
	if b.depth >= 3 || call.Ellipsis.IsValid() {
		return false
	}
	dec := b.inline(call, tail)
	if dec == nil || dec.Decl == nil || dec.Decl.Body == nil {
		return false
	}
	decl := dec.Decl
	for _, d := range b.stack {
		if d == decl {
			return false
		}
	}
	// parameters in order (receiver first)
	var params []*ast.Ident
	var args []ast.Expr
	if decl.Recv != nil && len(decl.Recv.List) == 1 {
		sel, ok := ast.Unparen(call.Fun).(*ast.SelectorExpr)
		if !ok {
			return false
		}
		if len(decl.Recv.List[0].Names) == 1 {
			params = append(params, decl.Recv.List[0].Names[0])
		} else {
			params = append(params, nil)
		}
		args = append(args, sel.X)
	}
	for _, f := range decl.Type.Params.List {
		if _, variadic := f.Type.(*ast.Ellipsis); variadic {
			return false
		}
		if len(f.Names) == 0 {
			params = append(params, nil)
		}
		for _, n := range f.Names {
			params = append(params, n)
		}
	}
	args = append(args, call.Args...)
	if len(params) != len(args) {
		return false
	}
	if decl.Type.Results != nil {
		// named results are fine as documentation: refused only when the body refers to one of them (or returns bare)
		named := map[string]bool{}
		for _, f := range decl.Type.Results.List {
			for _, n := range f.Names {
				if n.Name != "_" {
					named[n.Name] = true
				}
			}
		}
		if len(named) > 0 {
			used := false
			ast.Inspect(decl.Body, func(n ast.Node) bool {
				switch x := n.(type) {
				case *ast.Ident:
					if named[x.Name] {
						used = true
					}
				case *ast.ReturnStmt:
					if len(x.Results) == 0 {
						used = true
					}
				}
				return !used
			})
			if used {
				return false
			}
		}
	}
	ok := true
	assigned := map[string]bool{}
	ast.Inspect(decl.Body, func(n ast.Node) bool {
		switch x := n.(type) {
		case *ast.LabeledStmt:
			ok = false
		case *ast.BranchStmt:
			if x.Tok == token.GOTO || x.Label != nil {
				ok = false
			}
		case *ast.DeferStmt:
			if !tail || b.ret != nil {
				ok = false
			}
		case *ast.AssignStmt:
			for _, l := range x.Lhs {
				if id, isId := ast.Unparen(l).(*ast.Ident); isId {
					assigned[id.Name] = true
				}
			}
		case *ast.IncDecStmt:
			if id, isId := ast.Unparen(x.X).(*ast.Ident); isId {
				assigned[id.Name] = true
			}
		case *ast.UnaryExpr:
			if x.Op == token.AND {
				if id, isId := ast.Unparen(x.X).(*ast.Ident); isId {
					assigned[id.Name] = true
				}
			}
		case *ast.RangeStmt:
			for _, l := range []ast.Expr{x.Key, x.Value} {
				if id, isId := l.(*ast.Ident); isId {
					assigned[id.Name] = true
				}
			}
		}
		return ok
	})
	if !ok {
		return false
	}
	ic := &InlinedCall{Call: call, Decl: decl, Orig: dec.Orig, Subst: map[*ast.Ident]ast.Expr{}, Lhs: lhs, Parent: b.parent}
	if ic.Orig == nil {
		ic.Orig = decl
	}
	callFree := func(e ast.Expr) bool {
		pure := true
		ast.Inspect(e, func(n ast.Node) bool {
			switch x := n.(type) {
			case *ast.CallExpr, *ast.FuncLit, *ast.CompositeLit:
				pure = false
			case *ast.UnaryExpr:
				// (&x of a variable or field is the same pointer wherever it is written; &T{...} is excluded by the
				// composite literal)
				if x.Op == token.ARROW {
					pure = false
				}
			}
			return pure
		})
		return pure
	}
	for i, p := range params {
		switch {
		case p == nil || p.Name == "_":
			if !callFree(args[i]) {
				b.add(args[i])
			}
		case callFree(args[i]) && !assigned[p.Name] && !dec.Bind[p]:
			ic.Subst[p] = args[i]
		default:
			b.add(&ast.AssignStmt{Lhs: []ast.Expr{p}, Tok: token.DEFINE, TokPos: call.Lparen, Rhs: []ast.Expr{args[i]}})
			ic.Bound = append(ic.Bound, p)
		}
	}
	b.g.Inlined = append(b.g.Inlined, ic)
	savedT, savedR, savedP := b.targets, b.ret, b.parent
	b.targets, b.parent = nil, ic
	b.depth++
	b.stack = append(b.stack, decl)
	var after *Block
	if condCtx != nil {
		b.ret = condCtx
	} else if !tail {
		after = b.newBlock("inline.after")
		b.ret = &retCtx{after: after, lhs: lhs, tok: tok}
	}
	b.stmtList(decl.Body.List)
	if b.cur != nil {
		if condCtx != nil {
			// a boolean helper cannot fall off its end
			b.jump(b.g.Panic)
		} else if tail {
			if b.ret != nil {
				b.jump(b.ret.after)
			} else {
				b.add(&ast.ReturnStmt{Return: decl.Body.Rbrace})
				b.jump(b.g.Exit)
			}
		} else {
			b.jump(after)
		}
	}
	b.stack = b.stack[:len(b.stack)-1]
	b.depth--
	b.targets, b.ret, b.parent = savedT, savedR, savedP
	b.cur = after
	if condCtx != nil {
		b.cur = nil
	}
	return true
}
