package flow

import (
	"os"
	"fmt"
	"go/ast"
	"go/constant"
	"go/token"
	"go/types"
	"sort"
	"strconv"
	"strings"
)

// Canon prints expressions in a vocabulary that does not depend on local naming:
// receiver -> recv, parameters -> p0, p1, ..., named results -> r0, ..., package-level objects ->
// pkgname.Name, single-assignment locals -> their defining expression, tuple results -> RES(call, i).
type Canon struct {
	Info   *types.Info
	Pkg    *types.Package
	roles  map[types.Object]string
	expand map[types.Object]ast.Expr
	tuple  map[types.Object]tupleDef
	names  map[types.Object]string // distinct locals sharing a name: err, err_2, err_3 (declaration order)
	alias  map[types.Object]LocalAlias // local -> the name (and ordinal among same-named locals) the rule tables know it by
	base   map[types.Object]string // local -> alias or source name, without scope suffix
	depth  int
	// obsCand: single-assignment locals whose definition contains calls. ObsOK (set by the owner of the call graph)
	// decides per use whether the definition may be substituted (all callees deterministic observers, nothing in
	// between that changes what they read).
	obsCand map[types.Object]ast.Expr
	pureCand map[types.Object]bool
	ObsOK   func(o types.Object, def ast.Expr, use *ast.Ident) bool
	// Inline, when set, gives the formula a boolean helper call stands for (nil: keep the call as an atom).
	Inline func(call *ast.CallExpr) *F
	// InlineExpr, when set, names the helpers whose call prints as their single returned expression (same package,
	// body `return e`, deterministic observer): the declaration, or nil.
	InlineExpr func(call *ast.CallExpr) *ast.FuncDecl
	env        map[types.Object]ast.Expr // parameters of the helpers being printed -> the caller's arguments
	idxLoops   map[types.Object]ast.Expr // loop counters -> the collection they count through
	rangeVals  map[types.Object]ast.Expr // range value variables -> the collection
	loopsDone  bool
	tupleCand  map[types.Object]bool
	madeLen    map[types.Object]ast.Expr
	isLit      bool
	body       *ast.BlockStmt
	inlBodies  []ast.Node
}

func (c *Canon) loops() {
	if c.loopsDone {
		return
	}
	c.loopsDone = true
	bodies := append([]ast.Node{}, c.inlBodies...)
	if c.body != nil {
		bodies = append(bodies, c.body)
	}
	c.idxLoops = IndexLoops(c.Info, bodies)
	c.rangeVals = RangeValues(c.Info, bodies)
}

// inlineCall binds the parameters of an expression helper to the arguments of call and returns the helper's returned
// expression; restore must be called when the expression has been printed. nil when the call is not inlined.
func (c *Canon) inlineCall(call *ast.CallExpr) (ast.Expr, func()) {
	if c.InlineExpr == nil || c.depth > 10 || call.Ellipsis.IsValid() {
		return nil, nil
	}
	decl := c.InlineExpr(call)
	if decl == nil || decl.Body == nil || len(decl.Body.List) != 1 {
		return nil, nil
	}
	ret, ok := decl.Body.List[0].(*ast.ReturnStmt)
	if !ok || len(ret.Results) != 1 {
		return nil, nil
	}
	var params []*ast.Ident
	var args []ast.Expr
	if decl.Recv != nil && len(decl.Recv.List) == 1 {
		sel, ok := ast.Unparen(call.Fun).(*ast.SelectorExpr)
		if !ok {
			return nil, nil
		}
		if len(decl.Recv.List[0].Names) == 1 {
			params = append(params, decl.Recv.List[0].Names[0])
		} else {
			params = append(params, nil)
		}
		args = append(args, sel.X)
	}
	for _, f := range decl.Type.Params.List {
		if _, variadic := f.Type.(*ast.Ellipsis); variadic {
			return nil, nil
		}
		if len(f.Names) == 0 {
			params = append(params, nil)
		}
		for _, n := range f.Names {
			params = append(params, n)
		}
	}
	args = append(args, call.Args...)
	if len(params) != len(args) {
		return nil, nil
	}
	if c.env == nil {
		c.env = map[types.Object]ast.Expr{}
	}
	type saved struct {
		o   types.Object
		e   ast.Expr
		had bool
	}
	var sv []saved
	for i, p := range params {
		if p == nil || p.Name == "_" {
			continue
		}
		o := c.Info.Defs[p]
		if o == nil {
			continue
		}
		old, had := c.env[o]
		sv = append(sv, saved{o, old, had})
		c.env[o] = args[i]
	}
	return ret.Results[0], func() {
		for _, x := range sv {
			if x.had {
				c.env[x.o] = x.e
			} else {
				delete(c.env, x.o)
			}
		}
	}
}

// AddInlined makes the canon of a function cover the helper bodies spliced into its graph (flow.BuildInlining):
// parameters that were not materialised print as the caller's argument, the helpers' locals are scanned and named like
// the function's own (after them, in call order), and the variables assigned from a spliced call are ordinary
// multiply-assigned locals. alias, when not nil, replaces the alias map (it now covers the helpers' locals).
func (c *Canon) AddInlined(body *ast.BlockStmt, inl []*InlinedCall, alias map[types.Object]LocalAlias) {
	if len(inl) == 0 {
		return
	}
	if alias != nil {
		c.alias = alias
	}
	for _, ic := range inl {
		c.inlBodies = append(c.inlBodies, ic.Decl.Body)
	}
	c.loopsDone = false
	bodies := []ast.Node{body}
	for _, ic := range inl {
		for p, arg := range ic.Subst {
			if o := c.Info.Defs[p]; o != nil {
				c.expand[o] = arg
			}
		}
		c.scanLocals(ic.Decl.Body)
		for _, p := range ic.Bound {
			bodies = append(bodies, p)
		}
		bodies = append(bodies, ic.Decl.Body)
	}
	for _, ic := range inl {
		// a helper with a single return statement defines the call's left-hand side once, by the returned expressions
		var rets []*ast.ReturnStmt
		ast.Inspect(ic.Decl.Body, func(n ast.Node) bool {
			switch x := n.(type) {
			case *ast.FuncLit:
				return false
			case *ast.ReturnStmt:
				rets = append(rets, x)
			}
			return true
		})
		for i, l := range ic.Lhs {
			if id, ok := ast.Unparen(l).(*ast.Ident); ok {
				if o := c.Info.ObjectOf(id); o != nil {
					_, wasSingle := c.obsCand[o]
					if c.tupleCand[o] {
						wasSingle = true
					}
					delete(c.expand, o)
					delete(c.obsCand, o)
					delete(c.tuple, o)
					if wasSingle && len(rets) == 1 && len(rets[0].Results) == len(ic.Lhs) {
						if res := rets[0].Results[i]; c.pureExpr(res) {
							c.expand[o] = res
						} else {
							c.obsCand[o] = res
						}
					}
				}
			}
		}
		// a bound parameter is assigned at every call of the helper: never a definition to print
		for _, p := range ic.Bound {
			if o := c.Info.Defs[p]; o != nil {
				delete(c.expand, o)
				delete(c.obsCand, o)
			}
		}
	}
	if c.isLit {
		// a function literal keeps the names its function gave; the helpers' locals are named in addition
		var extra []ast.Node
		for _, ic := range inl {
			for _, p := range ic.Bound {
				extra = append(extra, p)
			}
			extra = append(extra, ic.Decl.Body)
		}
		c.nameLocalsIn(extra)
		return
	}
	// name again over all bodies
	for o := range c.base {
		delete(c.names, o)
	}
	c.base = map[types.Object]string{}
	c.nameLocalsIn(bodies)
}

// LocalTerms lists the names under which the function's own locals print when they are not replaced by a definition.
func (c *Canon) LocalTerms() []string {
	seen := map[string]bool{}
	var out []string
	for o, n := range c.names {
		if _, isRole := c.roles[o]; isRole {
			continue
		}
		if !seen[n] {
			seen[n] = true
			out = append(out, n)
		}
	}
	for _, n := range c.base {
		if n != "" && !seen[n] {
			seen[n] = true
			out = append(out, n)
		}
	}
	sort.Strings(out)
	return out
}

// SingleDef is the defining expression of a local that is defined exactly once and never re-assigned or address-taken
// (nil otherwise), whether or not the local prints as that definition.
func (c *Canon) SingleDef(o types.Object) ast.Expr {
	if e, ok := c.expand[o]; ok {
		return e
	}
	if e, ok := c.obsCand[o]; ok {
		return e
	}
	return nil
}

// ConstOf is the exact constant value of e ("" when e is not constant).
func (c *Canon) ConstOf(e ast.Expr) string { return c.constOf(e) }

// ReplaceIdent replaces the identifier name in text (not where it is a selected field or method).
func ReplaceIdent(text, name, with string) string { return replaceIdent(text, name, with) }

func (c *Canon) obsDef(o types.Object, use *ast.Ident) (ast.Expr, bool) {
	if c.ObsOK == nil || use == nil {
		return nil, false
	}
	def, ok := c.obsCand[o]
	if !ok || !c.ObsOK(o, def, use) {
		return nil, false
	}
	return def, true
}

type tupleDef struct {
	call ast.Expr
	idx  int
}

// NewCanon analyses one function (declaration or literal) for roles and single-assignment locals.
// outer may be nil; for a function literal it supplies the enclosing function's roles/expansions.
func NewCanon(info *types.Info, pkg *types.Package, recv *ast.FieldList, ftype *ast.FuncType, body *ast.BlockStmt, outer *Canon) *Canon {
	return NewCanonAliased(info, pkg, recv, ftype, body, outer, nil)
}

// NewCanonAliased is NewCanon with a map of renamed locals: alias[o] is the name under which the rule tables know o.
// LocalAlias: the name a local carries in the rule vocabulary and its ordinal among the locals of that name (1 = no
// suffix, 2 = name_2, ...; 0 = number after the known ones).
type LocalAlias struct {
	Name string
	Ord  int
	// loop forms, relative to the form the rule tables were written for:
	// ElemName: for the counter i of a loop over X: X[i] prints as this name (the tables knew a range value variable).
	// IndexAs: for the value variable of a range over X: it prints as X[IndexAs] (the tables knew an index loop).
	ElemName string
	IndexAs  string
}

func NewCanonAliased(info *types.Info, pkg *types.Package, recv *ast.FieldList, ftype *ast.FuncType, body *ast.BlockStmt, outer *Canon, alias map[types.Object]LocalAlias) *Canon {
	c := &Canon{Info: info, Pkg: pkg, roles: map[types.Object]string{}, expand: map[types.Object]ast.Expr{}, tuple: map[types.Object]tupleDef{}, alias: alias, base: map[types.Object]string{}, obsCand: map[types.Object]ast.Expr{}}
	if outer != nil {
		c.alias = outer.alias
		for k, v := range outer.base {
			c.base[k] = v
		}
	}
	if outer != nil {
		for k, v := range outer.roles {
			c.roles[k] = v
		}
		for k, v := range outer.expand {
			c.expand[k] = v
		}
		for k, v := range outer.tuple {
			c.tuple[k] = v
		}
	}
	prefix := ""
	if outer != nil {
		prefix = "l" // parameters of a literal: lp0, lp1
	}
	if recv != nil {
		for _, f := range recv.List {
			for _, n := range f.Names {
				if o := info.Defs[n]; o != nil {
					c.roles[o] = "recv"
				}
			}
		}
	}
	i := 0
	if ftype != nil && ftype.Params != nil {
		for _, f := range ftype.Params.List {
			if len(f.Names) == 0 {
				i++
			}
			for _, n := range f.Names {
				if o := info.Defs[n]; o != nil {
					c.roles[o] = fmt.Sprintf("%sp%d", prefix, i)
				}
				i++
			}
		}
	}
	if ftype != nil && ftype.Results != nil {
		i = 0
		for _, f := range ftype.Results.List {
			if len(f.Names) == 0 {
				i++
			}
			for _, n := range f.Names {
				if o := info.Defs[n]; o != nil {
					c.roles[o] = fmt.Sprintf("%sr%d", prefix, i)
				}
				i++
			}
		}
	}
	c.names = map[types.Object]string{}
	if outer != nil {
		for k, v := range outer.names {
			c.names[k] = v
		}
	}
	c.body = body
	c.isLit = outer != nil
	if outer != nil && outer.madeLen != nil {
		c.madeLen = map[types.Object]ast.Expr{}
		for k, v := range outer.madeLen {
			c.madeLen[k] = v
		}
	}
	if outer != nil {
		c.idxLoops, c.rangeVals, c.loopsDone = outer.idxLoops, outer.rangeVals, outer.loopsDone
		if !outer.loopsDone {
			outer.loops()
			c.idxLoops, c.rangeVals, c.loopsDone = outer.idxLoops, outer.rangeVals, true
		}
	}
	if body != nil {
		c.scanLocals(body)
		if outer == nil {
			c.nameLocals(body)
		}
	}
	return c
}

// scanLocals finds locals that are defined exactly once and never re-assigned or address-taken.
func (c *Canon) scanLocals(body *ast.BlockStmt) {
	defs := map[types.Object]int{}
	single := map[types.Object]ast.Expr{}
	tup := map[types.Object]tupleDef{}
	bump := func(e ast.Expr) {
		if id, ok := e.(*ast.Ident); ok {
			if o := c.Info.ObjectOf(id); o != nil {
				defs[o] += 2 // re-assignment disqualifies
			}
		}
	}
	ast.Inspect(body, func(n ast.Node) bool {
		switch x := n.(type) {
		case *ast.FuncLit:
			// assignments inside closures still count against the variable
			return true
		case *ast.AssignStmt:
			for i, l := range x.Lhs {
				id, ok := l.(*ast.Ident)
				if !ok {
					continue
				}
				o := c.Info.Defs[id]
				if x.Tok == token.DEFINE && o != nil {
					defs[o]++
					if len(x.Lhs) == len(x.Rhs) {
						single[o] = x.Rhs[i]
					} else if len(x.Rhs) == 1 {
						tup[o] = tupleDef{x.Rhs[0], i}
					}
				} else {
					bump(l)
				}
			}
		case *ast.ValueSpec:
			for i, id := range x.Names {
				o := c.Info.Defs[id]
				if o == nil {
					continue
				}
				defs[o]++
				if len(x.Values) == len(x.Names) {
					single[o] = x.Values[i]
				} else if len(x.Values) == 1 {
					tup[o] = tupleDef{x.Values[0], i}
				} else {
					defs[o]++ // zero value then assigned later: not single
				}
			}
		case *ast.IncDecStmt:
			bump(x.X)
		case *ast.RangeStmt:
			if x.Key != nil {
				bump(x.Key)
				if id, ok := x.Key.(*ast.Ident); ok && x.Tok == token.DEFINE {
					if o := c.Info.Defs[id]; o != nil {
						defs[o] += 2
					}
				}
			}
			if x.Value != nil {
				bump(x.Value)
				if id, ok := x.Value.(*ast.Ident); ok && x.Tok == token.DEFINE {
					if o := c.Info.Defs[id]; o != nil {
						defs[o] += 2
					}
				}
			}
		case *ast.UnaryExpr:
			if x.Op == token.AND {
				bump(x.X)
			}
		}
		return true
	})
	// `slot := idx % n; idx++; use(slot)`: a definition that reads a variable assigned again somewhere in the function
	// names the same value only where no such assignment lies between the definition and the use: decided on the flow
	// graph, like a definition that calls an observer
	mutableOperand := func(e ast.Expr) bool {
		hit := false
		ast.Inspect(e, func(n ast.Node) bool {
			if id, ok := n.(*ast.Ident); ok {
				if v, isVar := c.Info.Uses[id].(*types.Var); isVar && !v.IsField() && defs[v] >= 2 {
					hit = true
				}
			}
			return !hit
		})
		return hit
	}
	for o, n := range defs {
		if n != 1 {
			continue
		}
		if _, isVar := o.(*types.Var); !isVar {
			continue
		}
		if e, ok := single[o]; ok {
			// x := make(T, n) and never assigned again (append would assign): len(x) is n
			if call, isCall := ast.Unparen(e).(*ast.CallExpr); isCall && len(call.Args) >= 2 {
				if fid, isId := call.Fun.(*ast.Ident); isId && fid.Name == "make" {
					if _, isBuiltin := c.Info.ObjectOf(fid).(*types.Builtin); isBuiltin {
						if c.madeLen == nil {
							c.madeLen = map[types.Object]ast.Expr{}
						}
						c.madeLen[o] = call.Args[1]
					}
				}
			}
		}
		if e, ok := single[o]; ok && c.pureExpr(e) && !mutableOperand(e) && !(PureRegion && c.readsMemory(e)) {
			c.expand[o] = e
		} else if ok {
			if c.pureExpr(e) {
				if c.pureCand == nil {
					c.pureCand = map[types.Object]bool{}
				}
				c.pureCand[o] = true
			}
			c.obsCand[o] = e
		} else if _, isTup := tup[o]; isTup {
			if c.tupleCand == nil {
				c.tupleCand = map[types.Object]bool{}
			}
			c.tupleCand[o] = true // defined once, by one result of a call: single once a spliced helper has one return
		}
	}
}

// pureExpr: no calls (conversions, len and cap excepted), receives, literals with identity. Only such
// definitions are substituted for a local; two locals defined by the same impure expression
// (time.Now(), make(chan T)) are different values and keep their own names.
// PureRegion: call-free definitions that read memory (a field, an element, through a pointer) go through the region check.
var PureRegion = os.Getenv("ZR_PURE_REGION") != "0"

// PureCand: o is defined once by a call-free expression that is expanded subject to the region check.
func (c *Canon) PureCand(o types.Object) bool { return c.pureCand[o] }

// readsMemory: e reads a field, an element or through a pointer (not just locals, constants and package-level names).
func (c *Canon) readsMemory(e ast.Expr) bool {
	hit := false
	ast.Inspect(e, func(n ast.Node) bool {
		switch x := n.(type) {
		case *ast.SelectorExpr:
			if sel := c.Info.Selections[x]; sel != nil && sel.Kind() == types.FieldVal {
				hit = true
			}
		case *ast.IndexExpr:
			if tv, ok := c.Info.Types[x.X]; ok && tv.IsValue() {
				hit = true
			}
		case *ast.StarExpr:
			if tv, ok := c.Info.Types[x.X]; ok && tv.IsValue() {
				hit = true
			}
		}
		return !hit
	})
	return hit
}

func (c *Canon) pureExpr(e ast.Expr) bool {
	pure := true
	ast.Inspect(e, func(n ast.Node) bool {
		switch x := n.(type) {
		case *ast.CallExpr:
			if tv, ok := c.Info.Types[x.Fun]; ok && tv.IsType() {
				return true
			}
			if id, ok := ast.Unparen(x.Fun).(*ast.Ident); ok {
				if b, ok := c.Info.ObjectOf(id).(*types.Builtin); ok && (b.Name() == "len" || b.Name() == "cap") {
					return true
				}
			}
			pure = false
		case *ast.UnaryExpr:
			if x.Op == token.ARROW || x.Op == token.AND {
				pure = false
			}
		case *ast.FuncLit, *ast.CompositeLit:
			pure = false
		}
		return pure
	})
	return pure
}

// nameLocals gives distinct objects with the same name distinct canonical names.
func (c *Canon) nameLocals(body *ast.BlockStmt) { c.nameLocalsIn([]ast.Node{body}) }

func (c *Canon) nameLocalsIn(bodies []ast.Node) {
	type ent struct {
		o   types.Object
		pos token.Pos
		ord int
	}
	by := map[string][]ent{}
	seq := token.Pos(0)
	for _, body := range bodies {
		ast.Inspect(body, func(n ast.Node) bool {
			id, ok := n.(*ast.Ident)
			if !ok {
				return true
			}
			if o := c.Info.Defs[id]; o != nil {
				if _, isVar := o.(*types.Var); isVar {
					if _, isRole := c.roles[o]; isRole {
						return true
					}
					name, ord := id.Name, 0
					if a, ok := c.alias[o]; ok {
						name, ord = a.Name, a.Ord
					}
					c.base[o] = name
					seq++ // declaration order: the function's own body first, spliced helpers after it in call order
					by[name] = append(by[name], ent{o, seq, ord})
				}
			}
			return true
		})
	}
	// implicit objects of type switches are in Implicits; they share the symbolic name
	for name, es := range by {
		sort.Slice(es, func(i, j int) bool { return es[i].pos < es[j].pos })
		used := map[int]bool{}
		for _, e := range es {
			if e.ord > 0 {
				used[e.ord] = true
			}
		}
		next := 1
		for _, e := range es {
			if _, ok := c.names[e.o]; ok {
				continue
			}
			k := e.ord
			if k == 0 {
				for used[next] {
					next++
				}
				k = next
				used[k] = true
			}
			if k == 1 {
				c.names[e.o] = name
			} else {
				c.names[e.o] = name + "_" + strconv.Itoa(k)
			}
		}
	}
}

func pkgName(p *types.Package) string {
	if p == nil {
		return ""
	}
	return p.Name()
}

// Term prints a (non-boolean-structured) expression canonically.
func (c *Canon) Term(e ast.Expr) string {
	c.depth++
	defer func() { c.depth-- }()
	if c.depth > 40 {
		return "<deep>"
	}
	if tv, ok := c.Info.Types[e]; ok && tv.Value != nil {
		// constants print by value unless they are a named constant (keep the name for readability)
		switch x := e.(type) {
		case *ast.Ident, *ast.SelectorExpr:
			_ = x
		default:
			return constString(tv.Value)
		}
	}
	switch x := e.(type) {
	case *ast.ParenExpr:
		return c.Term(x.X)
	case *ast.Ident:
		o := c.Info.ObjectOf(x)
		if o == nil {
			return x.Name
		}
		if arg, ok := c.env[o]; ok {
			// a parameter of the helper being printed: the caller's argument, printed outside the helper's bindings
			delete(c.env, o)
			t := c.Term(arg)
			c.env[o] = arg
			return t
		}
		if r, ok := c.roles[o]; ok {
			return r
		}
		if a, ok := c.alias[o]; ok && a.IndexAs != "" {
			c.loops()
			if X, isVal := c.rangeVals[o]; isVal {
				return c.Term(X) + "[" + a.IndexAs + "]"
			}
		}
		if def, ok := c.expand[o]; ok && c.depth < 12 {
			return c.Term(def)
		}
		if c.depth < 12 {
			if def, ok := c.obsDef(o, x); ok {
				return c.Term(def)
			}
		}
		if t, ok := c.tuple[o]; ok && c.depth < 12 {
			return "RES(" + c.Term(t.call) + ", " + strconv.Itoa(t.idx) + ")"
		}
		if o.Pkg() != nil && o.Parent() == o.Pkg().Scope() {
			return pkgName(o.Pkg()) + "." + o.Name()
		}
		if n, ok := c.names[o]; ok {
			return n
		}
		return o.Name()
	case *ast.SelectorExpr:
		if id, ok := x.X.(*ast.Ident); ok {
			if pn, ok := c.Info.ObjectOf(id).(*types.PkgName); ok {
				return pkgName(pn.Imported()) + "." + x.Sel.Name
			}
		}
		return c.Term(x.X) + "." + x.Sel.Name
	case *ast.CallExpr:
		if fid, isId := x.Fun.(*ast.Ident); isId && fid.Name == "len" && len(x.Args) == 1 {
			if aid, isArg := ast.Unparen(x.Args[0]).(*ast.Ident); isArg {
				if n, made := c.madeLen[c.Info.ObjectOf(aid)]; made && c.depth < 12 {
					return c.Term(n)
				}
			}
		}
		if e, restore := c.inlineCall(x); e != nil {
			t := c.Term(e)
			restore()
			return t
		}
		// a conversion to the type the operand already has is the operand
		if tv, ok := c.Info.Types[x.Fun]; ok && tv.IsType() && len(x.Args) == 1 {
			if at := c.Info.TypeOf(x.Args[0]); at != nil && types.Identical(at, tv.Type) {
				if atv, ok := c.Info.Types[x.Args[0]]; !ok || atv.Value == nil {
					return c.Term(x.Args[0])
				}
			}
		}
		var args []string
		for _, a := range x.Args {
			args = append(args, c.Term(a))
		}
		s := c.Term(x.Fun) + "(" + strings.Join(args, ", ")
		if x.Ellipsis.IsValid() {
			s += "..."
		}
		return s + ")"
	case *ast.StarExpr:
		return "*" + c.Term(x.X)
	case *ast.UnaryExpr:
		return x.Op.String() + c.Term(x.X)
	case *ast.BinaryExpr:
		l, r := c.Term(x.X), c.Term(x.Y)
		if (x.Op == token.ADD || x.Op == token.MUL) && r < l {
			if t := c.Info.TypeOf(x); t != nil {
				if b, ok := t.Underlying().(*types.Basic); ok && b.Info()&types.IsNumeric != 0 {
					l, r = r, l
				}
			}
		}
		return "(" + l + " " + x.Op.String() + " " + r + ")"
	case *ast.IndexExpr:
		if id, ok := ast.Unparen(x.Index).(*ast.Ident); ok {
			if a, ok := c.alias[c.Info.ObjectOf(id)]; ok && a.ElemName != "" {
				c.loops()
				if X, isLoop := c.idxLoops[c.Info.ObjectOf(id)]; isLoop && types.ExprString(X) == types.ExprString(x.X) {
					return a.ElemName
				}
			}
		}
		return c.Term(x.X) + "[" + c.Term(x.Index) + "]"
	case *ast.SliceExpr:
		s := c.Term(x.X) + "["
		if x.Low != nil {
			s += c.Term(x.Low)
		}
		s += ":"
		if x.High != nil {
			s += c.Term(x.High)
		}
		if x.Max != nil {
			s += ":" + c.Term(x.Max)
		}
		return s + "]"
	case *ast.TypeAssertExpr:
		if x.Type == nil {
			return c.Term(x.X) + ".(type)"
		}
		return c.Term(x.X) + ".(" + types.ExprString(x.Type) + ")"
	case *ast.BasicLit:
		return x.Value
	case *ast.FuncLit:
		return "funclit"
	case *ast.CompositeLit:
		var parts []string
		for _, el := range x.Elts {
			if kv, ok := el.(*ast.KeyValueExpr); ok {
				k := types.ExprString(kv.Key)
				parts = append(parts, k+": "+c.Term(kv.Value))
			} else {
				parts = append(parts, c.Term(el))
			}
		}
		tn := ""
		if x.Type != nil {
			tn = c.typeString(x.Type)
		}
		if len(x.Elts) > 0 {
			if _, keyed := x.Elts[0].(*ast.KeyValueExpr); keyed {
				if t := c.Info.TypeOf(x); t != nil {
					if _, isStruct := t.Underlying().(*types.Struct); isStruct {
						sort.Strings(parts)
					}
				}
			}
		}
		return tn + "{" + strings.Join(parts, ", ") + "}"
	case *ast.KeyValueExpr:
		return c.Term(x.Key) + ": " + c.Term(x.Value)
	case *ast.ArrayType, *ast.MapType, *ast.ChanType, *ast.FuncType, *ast.InterfaceType, *ast.StructType:
		return c.typeString(x)
	}
	return types.ExprString(e)
}

func (c *Canon) typeString(e ast.Expr) string {
	if t := c.Info.TypeOf(e); t != nil {
		return types.TypeString(t, func(p *types.Package) string { return p.Name() })
	}
	return types.ExprString(e)
}

func constString(v constant.Value) string {
	if v.Kind() == constant.String {
		return strconv.Quote(constant.StringVal(v))
	}
	return v.ExactString()
}

func (c *Canon) constOf(e ast.Expr) string {
	if id, ok := e.(*ast.Ident); ok && id.Name == "nil" {
		if _, isNil := c.Info.ObjectOf(id).(*types.Nil); isNil {
			return "nil"
		}
	}
	if tv, ok := c.Info.Types[e]; ok && tv.Value != nil {
		return constString(tv.Value)
	}
	return ""
}

// Formula canonicalises a raw formula: atoms get keys, comparisons are normalised to == and <.
func (c *Canon) Formula(f *F) *F {
	switch f.Op {
	case OpTrue, OpFalse:
		return f
	case OpNot:
		return Not(c.Formula(f.Kids[0]))
	case OpAnd:
		var ks []*F
		for _, k := range f.Kids {
			ks = append(ks, c.Formula(k))
		}
		return And(ks...)
	case OpOr:
		var ks []*F
		for _, k := range f.Kids {
			ks = append(ks, c.Formula(k))
		}
		return Or(ks...)
	}
	if f.Key != "" {
		return f
	}
	if f.Opq != "" {
		var parts []string
		for _, n := range f.OpqNodes {
			switch x := n.(type) {
			case *ast.AssignStmt:
				parts = append(parts, c.Term(x.Rhs[0]))
			case *ast.ExprStmt:
				parts = append(parts, c.Term(x.X))
			case ast.Expr:
				parts = append(parts, c.typeString(x))
			}
		}
		return &F{Op: OpAtom, Key: f.Opq + "(" + strings.Join(parts, ", ") + ")"}
	}
	return c.atom(f.Expr)
}

func (c *Canon) atom(e ast.Expr) *F {
	e = ast.Unparen(e)
	if tv, ok := c.Info.Types[e]; ok && tv.Value != nil && tv.Value.Kind() == constant.Bool {
		if constant.BoolVal(tv.Value) {
			return True()
		}
		return False()
	}
	switch x := e.(type) {
	case *ast.Ident:
		// a single-assignment boolean local expands to its defining formula
		if o := c.Info.ObjectOf(x); o != nil {
			if def, ok := c.expand[o]; ok && c.depth < 12 {
				if _, isRole := c.roles[o]; !isRole {
					c.depth++
					r := c.Formula(FromExpr(def))
					c.depth--
					return r
				}
			}
			if _, isRole := c.roles[o]; !isRole && c.depth < 12 {
				if def, ok := c.obsDef(o, x); ok {
					c.depth++
					r := c.Formula(FromExpr(def))
					c.depth--
					return r
				}
			}
		}
	case *ast.CallExpr:
		if e, restore := c.inlineCall(x); e != nil {
			c.depth++
			f := c.Formula(FromExpr(e))
			c.depth--
			restore()
			return f
		}
		if c.Inline != nil && c.depth < 12 {
			c.depth++
			f := c.Inline(x)
			c.depth--
			if f != nil {
				return f
			}
		}
	case *ast.UnaryExpr:
		if x.Op == token.NOT {
			return Not(c.Formula(FromExpr(x.X)))
		}
	case *ast.BinaryExpr:
		switch x.Op {
		case token.LAND, token.LOR:
			return c.Formula(FromExpr(x))
		case token.EQL, token.NEQ, token.LSS, token.GTR, token.LEQ, token.GEQ:
			// an expression helper on either side is compared as the expression it returns
			if cx, ok := ast.Unparen(x.X).(*ast.CallExpr); ok {
				if e, restore := c.inlineCall(cx); e != nil {
					c.depth++
					f := c.atom(&ast.BinaryExpr{X: e, Op: x.Op, OpPos: x.OpPos, Y: x.Y})
					c.depth--
					restore()
					return f
				}
			}
			if cy, ok := ast.Unparen(x.Y).(*ast.CallExpr); ok {
				if e, restore := c.inlineCall(cy); e != nil {
					c.depth++
					f := c.atom(&ast.BinaryExpr{X: x.X, Op: x.Op, OpPos: x.OpPos, Y: e})
					c.depth--
					restore()
					return f
				}
			}
			// (a - b) cmp 0  ==>  a cmp b (signed arithmetic, overflow disregarded)
			if nx, ny, ok := subZero(x.X, x.Y, func(e ast.Expr) bool { return c.constOf(e) == "0" }, func(e ast.Expr) bool {
				t := c.Info.TypeOf(e)
				if t == nil {
					return false
				}
				b, ok := t.Underlying().(*types.Basic)
				return ok && b.Info()&types.IsInteger != 0 && b.Info()&types.IsUnsigned == 0
			}, c.expandExpr); ok {
				return c.atom(&ast.BinaryExpr{X: nx, Op: x.Op, Y: ny, OpPos: x.OpPos})
			}
			l, r := c.Term(x.X), c.Term(x.Y)
			lc, rc := c.constOf(x.X), c.constOf(x.Y)
			// boolean comparisons with true/false
			if x.Op == token.EQL || x.Op == token.NEQ {
				if rc == "true" || rc == "false" {
					f := c.Formula(FromExpr(x.X))
					if (rc == "true") != (x.Op == token.EQL) {
						f = Not(f)
					}
					return f
				}
			}
			if x.Op == token.EQL || x.Op == token.NEQ {
				if t := c.Info.TypeOf(x.X); t != nil {
					if b, ok := t.Underlying().(*types.Basic); ok && b.Info()&types.IsBoolean != 0 {
						// boolean equality is an equivalence of formulas
						fa, fb := c.Formula(FromExpr(x.X)), c.Formula(FromExpr(x.Y))
						iff := Or(And(fa, fb), And(Not(fa), Not(fb)))
						if x.Op == token.NEQ {
							return Not(iff)
						}
						return iff
					}
				}
			}
			f := MakeCmp(x.Op, l, r, lc, rc)
			// a comparison of an unsigned operand with 0: the operand is non-negative (x > 0 and x != 0 say the same)
			unsigned := func(e ast.Expr) bool {
				t := c.Info.TypeOf(e)
				if t == nil {
					return false
				}
				b, ok := t.Underlying().(*types.Basic)
				return ok && b.Info()&types.IsUnsigned != 0
			}
			mark := func(g *F, t string) {
				for g != nil && g.Op == OpNot && len(g.Kids) == 1 {
					g = g.Kids[0]
				}
				if g != nil && g.Cmp != nil {
					g.Cmp.NonNeg = t
				}
			}
			if rc == "0" && unsigned(x.X) {
				mark(f, l)
			} else if lc == "0" && unsigned(x.Y) {
				mark(f, r)
			}
			return f
		}
	}
	return &F{Op: OpAtom, Key: c.Term(e)}
}

// MakeCmp builds the normalised comparison formula.
func MakeCmp(op token.Token, l, r, lc, rc string) *F {
	// bytes.Compare / strings.Compare return -1, 0 or 1: `== 1` is `> 0`, `== -1` is `< 0`
	if op == token.EQL || op == token.NEQ {
		isCmp := func(t string) bool { return strings.HasPrefix(t, "bytes.Compare(") || strings.HasPrefix(t, "strings.Compare(") }
		var f *F
		switch {
		case isCmp(l) && (rc == "1" || r == "1"):
			f = MakeCmp(token.GTR, l, "0", "", "0")
		case isCmp(l) && (rc == "-1" || r == "-1"):
			f = MakeCmp(token.LSS, l, "0", "", "0")
		case isCmp(r) && (lc == "1" || l == "1"):
			f = MakeCmp(token.GTR, r, "0", "", "0")
		case isCmp(r) && (lc == "-1" || l == "-1"):
			f = MakeCmp(token.LSS, r, "0", "", "0")
		}
		if f != nil {
			if op == token.NEQ {
				return Not(f)
			}
			return f
		}
	}
	switch op {
	case token.EQL, token.NEQ:
		if r < l {
			l, r, lc, rc = r, l, rc, lc
		}
		a := &F{Op: OpAtom, Key: l + " == " + r, Cmp: &Cmp{Op: "==", L: l, R: r, LConst: lc, RConst: rc}}
		if op == token.NEQ {
			return Not(a)
		}
		return a
	case token.LSS:
		return &F{Op: OpAtom, Key: l + " < " + r, Cmp: &Cmp{Op: "<", L: l, R: r, LConst: lc, RConst: rc}}
	case token.GTR:
		return &F{Op: OpAtom, Key: r + " < " + l, Cmp: &Cmp{Op: "<", L: r, R: l, LConst: rc, RConst: lc}}
	case token.GEQ:
		return Not(&F{Op: OpAtom, Key: l + " < " + r, Cmp: &Cmp{Op: "<", L: l, R: r, LConst: lc, RConst: rc}})
	case token.LEQ:
		return Not(&F{Op: OpAtom, Key: r + " < " + l, Cmp: &Cmp{Op: "<", L: r, R: l, LConst: rc, RConst: lc}})
	}
	return nil
}

// Footprint lists what a raw formula reads that can change between its evaluation and a later
// site: local variables (after expansion of single-assignment locals) and field access paths.
func (c *Canon) Footprint(f *F) (vars map[types.Object]bool, paths map[string]bool) {
	vars, paths = map[types.Object]bool{}, map[string]bool{}
	var expr func(e ast.Node, depth int)
	expr = func(e ast.Node, depth int) {
		if e == nil || depth > 12 {
			return
		}
		ast.Inspect(e, func(n ast.Node) bool {
			switch x := n.(type) {
			case *ast.FuncLit:
				return false
			case *ast.CallExpr:
				// an expression helper reads what the expression it returns reads
				if ie, restore := c.inlineCall(x); ie != nil {
					expr(ie, depth+1)
					restore()
					for _, a := range x.Args {
						expr(a, depth+1)
					}
					return false
				}
			case *ast.SelectorExpr:
				if sel := c.Info.Selections[x]; sel != nil && sel.Kind() == types.FieldVal {
					paths[c.Term(x)] = true
				}
			case *ast.IndexExpr:
				paths[c.Term(x)] = true
			case *ast.Ident:
				o := c.Info.ObjectOf(x)
				v, ok := o.(*types.Var)
				if !ok || v.IsField() {
					return true
				}
				if arg, bound := c.env[o]; bound {
					// a parameter of the expression helper being read: what the caller's argument reads
					delete(c.env, o)
					expr(arg, depth+1)
					c.env[o] = arg
					return true
				}
				if o.Pkg() != nil && o.Parent() == o.Pkg().Scope() {
					return true
				}
				if def, ok := c.expand[o]; ok {
					if _, isRole := c.roles[o]; !isRole {
						expr(def, depth+1)
						return true
					}
				}
				if def, ok := c.obsDef(o, x); ok {
					expr(def, depth+1)
					return true
				}
				vars[o] = true
			}
			return true
		})
	}
	var walk func(f *F)
	walk = func(f *F) {
		if f == nil {
			return
		}
		if f.Op == OpAtom {
			if f.Expr != nil {
				expr(f.Expr, 0)
			}
			for _, n := range f.OpqNodes {
				expr(n, 0)
			}
			return
		}
		for _, k := range f.Kids {
			walk(k)
		}
	}
	walk(f)
	return
}

// RootVar returns the variable at the root of an access path (x, x.f.g, x[i].f, *x ...), and
// whether the path stays inside the variable's own storage (no pointer dereference on the way).
func (c *Canon) RootVar(e ast.Expr) (types.Object, bool) {
	inside := true
	for {
		e = ast.Unparen(e)
		switch x := e.(type) {
		case *ast.Ident:
			return c.Info.ObjectOf(x), inside
		case *ast.SelectorExpr:
			if t := c.Info.TypeOf(x.X); t != nil {
				if _, isPtr := t.Underlying().(*types.Pointer); isPtr {
					inside = false
				}
			}
			e = x.X
		case *ast.IndexExpr:
			if t := c.Info.TypeOf(x.X); t != nil {
				switch t.Underlying().(type) {
				case *types.Slice, *types.Map, *types.Pointer:
					inside = false
				}
			}
			e = x.X
		case *ast.StarExpr:
			inside = false
			e = x.X
		default:
			return nil, false
		}
	}
}

// TermOfObj prints a variable object the way an identifier referring to it would print.
func (c *Canon) TermOfObj(o types.Object) string {
	if r, ok := c.roles[o]; ok {
		return r
	}
	if def, ok := c.expand[o]; ok {
		return c.Term(def)
	}
	if n, ok := c.names[o]; ok {
		return n
	}
	return o.Name()
}

// expandExpr replaces an identifier that is a single-assignment pure local by its definition.
func (c *Canon) expandExpr(e ast.Expr) ast.Expr {
	e = ast.Unparen(e)
	if id, ok := e.(*ast.Ident); ok {
		if o := c.Info.ObjectOf(id); o != nil {
			if _, isRole := c.roles[o]; !isRole {
				if def, ok := c.expand[o]; ok {
					return ast.Unparen(def)
				}
				if def, ok := c.obsDef(o, id); ok {
					return ast.Unparen(def)
				}
			}
		}
	}
	return e
}

// subZero recognises (a - b) op 0 and 0 op (a - b) and returns the operands to compare directly.
func subZero(x, y ast.Expr, isZero func(ast.Expr) bool, signed func(ast.Expr) bool, expand func(ast.Expr) ast.Expr) (ast.Expr, ast.Expr, bool) {
	try := func(d, z ast.Expr) (ast.Expr, ast.Expr, bool) {
		if !isZero(z) {
			return nil, nil, false
		}
		d = expand(d)
		be, ok := d.(*ast.BinaryExpr)
		if !ok || be.Op != token.SUB || !signed(be) {
			return nil, nil, false
		}
		return be.X, be.Y, true
	}
	if a, b, ok := try(x, y); ok {
		return a, b, true // (a-b) op 0 == a op b
	}
	if a, b, ok := try(y, x); ok {
		return b, a, true // 0 op (a-b) == b op a
	}
	return nil, nil, false
}

// BaseName is the name a rule uses for a local: its source name, or the name it had when the rule tables were
// written if it was recognised as renamed. Empty for objects that are not locals of the function.
func (c *Canon) BaseName(o types.Object) string { return c.base[o] }

// LocalSig describes one local variable independently of naming state: its type and the source text of everything
// assigned to it (its own name replaced by a placeholder), in source order.
type LocalSig struct {
	Obj  types.Object
	Name string
	Pos  token.Pos
	Sig  string
	Form string // "rv": the value variable of a range statement; "ix": a local defined as X[i] in an index loop over X
}

// LocalSignatures lists the locals declared in body (including those of nested function literals) in declaration order.
func LocalSignatures(info *types.Info, body *ast.BlockStmt) []LocalSig {
	return LocalSignaturesRoles(info, nil, nil, body)
}

// LocalSignaturesRoles is LocalSignatures with the receiver and parameters printed by role (recv, p0, ...), so that a
// renamed parameter does not change the signatures of the locals computed from it.
func LocalSignaturesRoles(info *types.Info, recv *ast.FieldList, ftype *ast.FuncType, body *ast.BlockStmt) []LocalSig {
	return LocalSignaturesInlined(info, recv, ftype, body, nil)
}

// LocalSignaturesInlined also lists the locals of the helper bodies spliced into the function's graph, after the
// function's own; a helper's parameters print as the caller's arguments do.
func LocalSignaturesInlined(info *types.Info, recv *ast.FieldList, ftype *ast.FuncType, body *ast.BlockStmt, inl []*InlinedCall) []LocalSig {
	roles := map[types.Object]string{}
	if recv != nil {
		for _, f := range recv.List {
			for _, n := range f.Names {
				if o := info.Defs[n]; o != nil {
					roles[o] = "recv"
				}
			}
		}
	}
	if ftype != nil && ftype.Params != nil {
		i := 0
		for _, f := range ftype.Params.List {
			if len(f.Names) == 0 {
				i++
			}
			for _, n := range f.Names {
				if o := info.Defs[n]; o != nil {
					roles[o] = "p" + strconv.Itoa(i)
				}
				i++
			}
		}
	}
	var order []types.Object
	pos := map[types.Object]token.Pos{}
	collect := func(n ast.Node) {
		ast.Inspect(n, func(n ast.Node) bool {
			if id, ok := n.(*ast.Ident); ok {
				if o := info.Defs[id]; o != nil {
					if _, isVar := o.(*types.Var); isVar {
						if _, isRole := roles[o]; isRole {
							return true
						}
						if _, seen := pos[o]; !seen {
							pos[o] = id.Pos()
							order = append(order, o)
						}
					}
				}
			}
			return true
		})
	}
	collect(body)
	for _, ic := range inl {
		for _, p := range ic.Bound {
			collect(p)
		}
		collect(ic.Decl.Body)
	}
	defs := map[types.Object][]string{}
	// text prints e with the local being described as §, the receiver/parameters by role, and every other local of
	// the function by its type: renaming any of them leaves the signature unchanged.
	var text func(e ast.Expr, own types.Object) string
	subst := map[types.Object]ast.Expr{}
	text = func(e ast.Expr, own types.Object) string {
		t := types.ExprString(e)
		repl := map[string]string{}
		ast.Inspect(e, func(n ast.Node) bool {
			id, ok := n.(*ast.Ident)
			if !ok {
				return true
			}
			o := info.ObjectOf(id)
			if o == nil {
				return true
			}
			if o == own {
				repl[id.Name] = "§"
			} else if r, isRole := roles[o]; isRole {
				repl[id.Name] = r
			} else if arg, isSub := subst[o]; isSub {
				repl[id.Name] = text(arg, nil)
			} else if _, isLocal := pos[o]; isLocal {
				repl[id.Name] = "‹" + types.TypeString(o.Type(), nil) + "›"
			}
			return true
		})
		names := make([]string, 0, len(repl))
		for n := range repl {
			names = append(names, n)
		}
		sort.Strings(names)
		// simultaneous replacement
		ph := map[string]string{}
		for i, n := range names {
			h := "\x01" + strconv.Itoa(i) + "\x02"
			nt := replaceIdent(t, n, h)
			if nt != t {
				ph[h] = repl[n]
				t = nt
			}
		}
		for h, v := range ph {
			t = strings.ReplaceAll(t, h, v)
		}
		return t
	}
	for _, ic := range inl {
		for p, arg := range ic.Subst {
			if o := info.Defs[p]; o != nil {
				subst[o] = arg
			}
		}
	}
	add := func(lhs ast.Expr, d func(own types.Object) string) {
		if id, ok := ast.Unparen(lhs).(*ast.Ident); ok {
			if o := info.ObjectOf(id); o != nil {
				if _, known := pos[o]; known {
					defs[o] = append(defs[o], d(o))
				}
			}
		}
	}
	forms := map[types.Object]string{}
	// loop forms: the counter of `for i := 0; i < len(X); i++` is the key of a range over X, and a local defined as
	// X[i] inside such a loop is the value of that range: both loop forms give the same signatures
	allBodies := []ast.Node{body}
	for _, ic := range inl {
		allBodies = append(allBodies, ic.Decl.Body)
	}
	idxLoops := IndexLoops(info, allBodies)
	elemOf := func(rhs ast.Expr) ast.Expr {
		ix, ok := ast.Unparen(rhs).(*ast.IndexExpr)
		if !ok {
			return nil
		}
		id, ok := ast.Unparen(ix.Index).(*ast.Ident)
		if !ok {
			return nil
		}
		if X, isLoop := idxLoops[info.ObjectOf(id)]; isLoop && types.ExprString(X) == types.ExprString(ix.X) {
			return X
		}
		return nil
	}
	scan := func(body ast.Node) {
		ast.Inspect(body, func(n ast.Node) bool {
			switch x := n.(type) {
			case *ast.AssignStmt:
				if len(x.Lhs) == len(x.Rhs) {
					for i, l := range x.Lhs {
						rhs := x.Rhs[i]
						if X := elemOf(rhs); X != nil && (x.Tok == token.DEFINE || x.Tok == token.ASSIGN) {
							add(l, func(own types.Object) string { forms[own] = "ix"; return "range value of " + text(X, own) })
							continue
						}
						add(l, func(own types.Object) string { return asgTok(x.Tok) + " " + text(rhs, own) })
					}
				} else if len(x.Rhs) == 1 {
					for i, l := range x.Lhs {
						i := i
						add(l, func(own types.Object) string { return fmt.Sprintf("%s #%d of %s", asgTok(x.Tok), i, text(x.Rhs[0], own)) })
					}
				}
			case *ast.IncDecStmt:
				add(x.X, func(types.Object) string { return x.Tok.String() })
			case *ast.RangeStmt:
				if x.Key != nil {
					add(x.Key, func(own types.Object) string { return "range key of " + text(x.X, own) })
				}
				if x.Value != nil {
					add(x.Value, func(own types.Object) string { forms[own] = "rv"; return "range value of " + text(x.X, own) })
				}
			case *ast.ValueSpec:
				for i, id := range x.Names {
					i := i
					// `var x T` alone says nothing; `var x = e` is `x := e`
					if len(x.Values) == 0 {
						continue
					}
					add(id, func(own types.Object) string {
						if i < len(x.Values) {
							return "= " + text(x.Values[i], own)
						}
						return fmt.Sprintf("= #%d of %s", i, text(x.Values[0], own))
					})
				}
			case *ast.TypeSwitchStmt:
				if as, ok := x.Assign.(*ast.AssignStmt); ok && len(as.Lhs) == 1 {
					add(as.Lhs[0], func(own types.Object) string { return "typeswitch " + text(as.Rhs[0], own) })
				}
			}
			return true
		})
	}
	scan(body)
	for _, ic := range inl {
		scan(ic.Decl.Body)
	}
	// a counter that runs to E, and the key of a range over a collection made with length E, count the same thing
	made := MadeLens(info, allBodies)
	for o, E := range CountLoops(info, allBodies) {
		if _, known := pos[o]; known {
			defs[o] = []string{"counts to " + text(E, o)}
		}
	}
	for o, X := range idxLoops {
		if _, known := pos[o]; known {
			defs[o] = []string{"range key of " + text(X, o)}
			if id, ok := ast.Unparen(X).(*ast.Ident); ok {
				if n, isMade := made[info.ObjectOf(id)]; isMade {
					defs[o] = []string{"counts to " + text(n, o)}
				}
			}
		}
	}
	var out []LocalSig
	for _, o := range order {
		// (order-insensitive: swapping the branches of an if/else does not change what a local is)
		ds := append([]string(nil), defs[o]...)
		sort.Strings(ds)
		out = append(out, LocalSig{Obj: o, Name: o.Name(), Pos: pos[o], Sig: types.TypeString(o.Type(), nil) + " | " + strings.Join(ds, " ; "), Form: forms[o]})
	}
	return out
}

// asgTok: `x := e` and `x = e` (after `var x T`) define x the same way.
func asgTok(t token.Token) string {
	if t == token.DEFINE {
		return "="
	}
	return t.String()
}

// replaceOwnName replaces the identifier name by a placeholder, except where it is a selected field or method.
func replaceOwnName(text, name string) string { return replaceIdent(text, name, "§") }

func replaceIdent(text, name, with string) string {
	if name == "" || name == "_" {
		return text
	}
	var b strings.Builder
	isW := func(c byte) bool {
		return c == '_' || c >= '0' && c <= '9' || c >= 'a' && c <= 'z' || c >= 'A' && c <= 'Z'
	}
	for i := 0; i < len(text); {
		if strings.HasPrefix(text[i:], name) && (i == 0 || !isW(text[i-1]) && text[i-1] != '.') && (i+len(name) == len(text) || !isW(text[i+len(name)])) {
			b.WriteString(with)
			i += len(name)
			continue
		}
		b.WriteByte(text[i])
		i++
	}
	return b.String()
}

// MethodReceivers lists the canonical receiver terms of the method calls inside a condition, with the method names
// called on each: `!it.Iterator.Valid()` yields {"it.Iterator": {"Valid"}}.
func (c *Canon) MethodReceivers(f *F) map[string]map[string]bool {
	out := map[string]map[string]bool{}
	var walk func(f *F)
	var visit func(e ast.Node)
	visit = func(e ast.Node) {
		ast.Inspect(e, func(n ast.Node) bool {
			switch x := n.(type) {
			case *ast.FuncLit:
				return false
			case *ast.CallExpr:
				// an expression helper observes what the expression it returns observes, not "the object through a method"
				if ie, restore := c.inlineCall(x); ie != nil {
					visit(ie)
					restore()
					for _, a := range x.Args {
						visit(a)
					}
					return false
				}
				if sel, ok := ast.Unparen(x.Fun).(*ast.SelectorExpr); ok {
					if s := c.Info.Selections[sel]; s != nil && s.Kind() == types.MethodVal {
						t := c.Term(sel.X)
						if out[t] == nil {
							out[t] = map[string]bool{}
						}
						out[t][sel.Sel.Name] = true
					}
				}
			}
			return true
		})
	}
	walk = func(f *F) {
		if f == nil {
			return
		}
		if f.Op == OpAtom {
			if f.Expr != nil {
				visit(f.Expr)
			}
			for _, n := range f.OpqNodes {
				visit(n)
			}
			return
		}
		for _, a := range f.Kids {
			walk(a)
		}
	}
	walk(f)
	return out
}

// RoleOf reports the role name (recv, p0, r0, ...) of a receiver, parameter or named result.
func (c *Canon) RoleOf(o types.Object) (string, bool) {
	r, ok := c.roles[o]
	return r, ok
}
