package flow

import (
	"go/ast"
	"go/token"
	"go/types"
)

// IndexLoops finds the variables that count through a collection: i in `for i := 0; i < len(X); i++` (i not assigned
// in the body) and in `for i := range X` / `for i, v := range X`. The result maps the variable to X.
func IndexLoops(info *types.Info, bodies []ast.Node) map[types.Object]ast.Expr {
	out := map[types.Object]ast.Expr{}
	for _, body := range bodies {
		ast.Inspect(body, func(n ast.Node) bool {
			switch x := n.(type) {
			case *ast.RangeStmt:
				if id, ok := x.Key.(*ast.Ident); ok && id.Name != "_" && x.Tok == token.DEFINE {
					if t := info.TypeOf(x.X); t != nil {
						switch t.Underlying().(type) {
						case *types.Slice, *types.Array, *types.Pointer, *types.Basic:
							if o := info.Defs[id]; o != nil {
								out[o] = x.X
							}
						}
					}
				}
			case *ast.ForStmt:
				as, ok := x.Init.(*ast.AssignStmt)
				if !ok || as.Tok != token.DEFINE || len(as.Lhs) != 1 || len(as.Rhs) != 1 {
					return true
				}
				id, ok := as.Lhs[0].(*ast.Ident)
				if !ok {
					return true
				}
				if bl, ok := as.Rhs[0].(*ast.BasicLit); !ok || bl.Value != "0" {
					return true
				}
				o := info.Defs[id]
				if o == nil {
					return true
				}
				cond, ok := x.Cond.(*ast.BinaryExpr)
				if !ok || cond.Op != token.LSS {
					return true
				}
				if ci, ok := ast.Unparen(cond.X).(*ast.Ident); !ok || info.ObjectOf(ci) != o {
					return true
				}
				call, ok := ast.Unparen(cond.Y).(*ast.CallExpr)
				if !ok || len(call.Args) != 1 {
					return true
				}
				if fn, ok := call.Fun.(*ast.Ident); !ok || fn.Name != "len" {
					return true
				}
				inc := false
				switch p := x.Post.(type) {
				case *ast.IncDecStmt:
					if pi, ok := p.X.(*ast.Ident); ok && info.ObjectOf(pi) == o && p.Tok == token.INC {
						inc = true
					}
				case *ast.AssignStmt:
					if len(p.Lhs) == 1 && len(p.Rhs) == 1 && p.Tok == token.ADD_ASSIGN {
						if pi, ok := p.Lhs[0].(*ast.Ident); ok && info.ObjectOf(pi) == o {
							if bl, ok := p.Rhs[0].(*ast.BasicLit); ok && bl.Value == "1" {
								inc = true
							}
						}
					}
				}
				if !inc {
					return true
				}
				assigned := false
				ast.Inspect(x.Body, func(m ast.Node) bool {
					switch y := m.(type) {
					case *ast.AssignStmt:
						for _, l := range y.Lhs {
							if li, ok := ast.Unparen(l).(*ast.Ident); ok && info.ObjectOf(li) == o {
								assigned = true
							}
						}
					case *ast.IncDecStmt:
						if li, ok := ast.Unparen(y.X).(*ast.Ident); ok && info.ObjectOf(li) == o {
							assigned = true
						}
					case *ast.UnaryExpr:
						if y.Op == token.AND {
							if li, ok := ast.Unparen(y.X).(*ast.Ident); ok && info.ObjectOf(li) == o {
								assigned = true
							}
						}
					}
					return !assigned
				})
				if !assigned {
					out[o] = call.Args[0]
				}
			}
			return true
		})
	}
	return out
}

// RangeValues maps the value variable of every `for _, v := range X` / `for k, v := range X` over a slice or array to X.
func RangeValues(info *types.Info, bodies []ast.Node) map[types.Object]ast.Expr {
	out := map[types.Object]ast.Expr{}
	for _, body := range bodies {
		ast.Inspect(body, func(n ast.Node) bool {
			if x, ok := n.(*ast.RangeStmt); ok && x.Tok == token.DEFINE {
				if id, ok := x.Value.(*ast.Ident); ok && id.Name != "_" {
					if t := info.TypeOf(x.X); t != nil {
						switch t.Underlying().(type) {
						case *types.Slice, *types.Array, *types.Pointer:
							if o := info.Defs[id]; o != nil {
								out[o] = x.X
							}
						}
					}
				}
			}
			return true
		})
	}
	return out
}
