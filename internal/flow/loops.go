package flow

import (
	"go/ast"
	"go/token"
	"go/types"
)

// IndexLoops finds the variables that count through a collection: i in `for i := 0; i < len(X); i++` (i not assigned
// in the body) and in `for i := range X` / `for i, v := range X`. The result maps the variable to X.
func IndexLoops(info *types.Info, bodies []ast.Node) map[types.Object]ast.Expr {
	out := map[types.Object]ast.Expr{}
	for _, body := range bodies {
		ast.Inspect(body, func(n ast.Node) bool {
			switch x := n.(type) {
			case *ast.RangeStmt:
				if id, ok := x.Key.(*ast.Ident); ok && id.Name != "_" && x.Tok == token.DEFINE {
					if t := info.TypeOf(x.X); t != nil {
						switch t.Underlying().(type) {
						case *types.Slice, *types.Array, *types.Pointer, *types.Basic:
							if o := info.Defs[id]; o != nil {
								out[o] = x.X
							}
						}
					}
				}
			case *ast.ForStmt:
				if o, bound := counterLoop(info, x); o != nil {
					if call, ok := ast.Unparen(bound).(*ast.CallExpr); ok && len(call.Args) == 1 {
						if fn, ok := call.Fun.(*ast.Ident); ok && fn.Name == "len" {
							out[o] = call.Args[0]
						}
					}
				}
			}
			return true
		})
	}
	return out
}

// RangeValues maps the value variable of every `for _, v := range X` / `for k, v := range X` over a slice or array to X.
func RangeValues(info *types.Info, bodies []ast.Node) map[types.Object]ast.Expr {
	out := map[types.Object]ast.Expr{}
	for _, body := range bodies {
		ast.Inspect(body, func(n ast.Node) bool {
			if x, ok := n.(*ast.RangeStmt); ok && x.Tok == token.DEFINE {
				if id, ok := x.Value.(*ast.Ident); ok && id.Name != "_" {
					if t := info.TypeOf(x.X); t != nil {
						switch t.Underlying().(type) {
						case *types.Slice, *types.Array, *types.Pointer:
							if o := info.Defs[id]; o != nil {
								out[o] = x.X
							}
						}
					}
				}
			}
			return true
		})
	}
	return out
}

// CountLoops maps the counter of every `for i := 0; i < E; i++` (i not assigned in the body) to E.
func CountLoops(info *types.Info, bodies []ast.Node) map[types.Object]ast.Expr {
	out := map[types.Object]ast.Expr{}
	for _, body := range bodies {
		ast.Inspect(body, func(n ast.Node) bool {
			if x, ok := n.(*ast.ForStmt); ok {
				if o, bound := counterLoop(info, x); o != nil {
					out[o] = bound
				}
			}
			return true
		})
	}
	return out
}

// counterLoop recognises `for i := 0; i < E; i++ { … }` with i neither assigned nor address-taken in the body.
func counterLoop(info *types.Info, x *ast.ForStmt) (types.Object, ast.Expr) {
	as, ok := x.Init.(*ast.AssignStmt)
	if !ok || as.Tok != token.DEFINE || len(as.Lhs) != 1 || len(as.Rhs) != 1 {
		return nil, nil
	}
	id, ok := as.Lhs[0].(*ast.Ident)
	if !ok {
		return nil, nil
	}
	if bl, ok := as.Rhs[0].(*ast.BasicLit); !ok || bl.Value != "0" {
		return nil, nil
	}
	o := info.Defs[id]
	if o == nil {
		return nil, nil
	}
	// `i < E`, possibly as the first conjunct of a longer condition: i still counts towards E
	var cond *ast.BinaryExpr
	for e := x.Cond; e != nil; {
		be, ok := ast.Unparen(e).(*ast.BinaryExpr)
		if !ok {
			return nil, nil
		}
		if be.Op == token.LAND {
			e = be.X
			continue
		}
		cond = be
		break
	}
	if cond == nil || cond.Op != token.LSS {
		return nil, nil
	}
	if ci, ok := ast.Unparen(cond.X).(*ast.Ident); !ok || info.ObjectOf(ci) != o {
		return nil, nil
	}
	inc := false
	switch p := x.Post.(type) {
	case *ast.IncDecStmt:
		if pi, ok := p.X.(*ast.Ident); ok && info.ObjectOf(pi) == o && p.Tok == token.INC {
			inc = true
		}
	case *ast.AssignStmt:
		if len(p.Lhs) == 1 && len(p.Rhs) == 1 && p.Tok == token.ADD_ASSIGN {
			if pi, ok := p.Lhs[0].(*ast.Ident); ok && info.ObjectOf(pi) == o {
				if bl, ok := p.Rhs[0].(*ast.BasicLit); ok && bl.Value == "1" {
					inc = true
				}
			}
		}
	}
	if !inc {
		return nil, nil
	}
	assigned := false
	ast.Inspect(x.Body, func(m ast.Node) bool {
		switch y := m.(type) {
		case *ast.AssignStmt:
			for _, l := range y.Lhs {
				if li, ok := ast.Unparen(l).(*ast.Ident); ok && info.ObjectOf(li) == o {
					assigned = true
				}
			}
		case *ast.IncDecStmt:
			if li, ok := ast.Unparen(y.X).(*ast.Ident); ok && info.ObjectOf(li) == o {
				assigned = true
			}
		case *ast.UnaryExpr:
			if y.Op == token.AND {
				if li, ok := ast.Unparen(y.X).(*ast.Ident); ok && info.ObjectOf(li) == o {
					assigned = true
				}
			}
		}
		return !assigned
	})
	if assigned {
		return nil, nil
	}
	return o, cond.Y
}

// MadeLens maps every local defined once as make(T, n, …), never assigned again and never address-taken, to n.
func MadeLens(info *types.Info, bodies []ast.Node) map[types.Object]ast.Expr {
	cnt := map[types.Object]int{}
	made := map[types.Object]ast.Expr{}
	bump := func(e ast.Expr) types.Object {
		if id, ok := ast.Unparen(e).(*ast.Ident); ok {
			if o := info.ObjectOf(id); o != nil {
				cnt[o]++
				return o
			}
		}
		return nil
	}
	for _, body := range bodies {
		ast.Inspect(body, func(n ast.Node) bool {
			switch x := n.(type) {
			case *ast.AssignStmt:
				for i, l := range x.Lhs {
					o := bump(l)
					if o == nil || len(x.Lhs) != len(x.Rhs) {
						continue
					}
					if call, ok := ast.Unparen(x.Rhs[i]).(*ast.CallExpr); ok && len(call.Args) >= 2 {
						if fid, ok := call.Fun.(*ast.Ident); ok && fid.Name == "make" {
							if _, isB := info.ObjectOf(fid).(*types.Builtin); isB {
								made[o] = call.Args[1]
							}
						}
					}
				}
			case *ast.ValueSpec:
				for i, id := range x.Names {
					o := info.Defs[id]
					if o == nil {
						continue
					}
					cnt[o]++
					if i < len(x.Values) && len(x.Names) == len(x.Values) {
						if call, ok := ast.Unparen(x.Values[i]).(*ast.CallExpr); ok && len(call.Args) >= 2 {
							if fid, ok := call.Fun.(*ast.Ident); ok && fid.Name == "make" {
								if _, isB := info.ObjectOf(fid).(*types.Builtin); isB {
									made[o] = call.Args[1]
								}
							}
						}
					}
				}
			case *ast.IncDecStmt:
				bump(x.X)
			case *ast.RangeStmt:
				if x.Key != nil {
					bump(x.Key)
				}
				if x.Value != nil {
					bump(x.Value)
				}
			case *ast.UnaryExpr:
				if x.Op == token.AND {
					bump(x.X)
				}
			}
			return true
		})
	}
	for o := range made {
		if cnt[o] != 1 {
			delete(made, o)
		}
	}
	return made
}
