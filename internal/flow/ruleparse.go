package flow

import (
	"fmt"
	"go/ast"
	"go/parser"
	"go/token"
	"go/types"
	"strconv"
	"strings"
)

// ConstLookup maps a canonical term ("raftpb.MsgVote") to its exact constant value, "" if unknown.
type ConstLookup func(key string) string

// ParseFormula parses a rule formula written in the canonical vocabulary (recv, p0.., pkg.Name,
// RES(call, i), `_` wildcards) into a canonical formula, without type information.
func ParseFormula(src string, consts ConstLookup) (*F, error) {
	e, err := parser.ParseExpr(src)
	if err != nil {
		return nil, fmt.Errorf("rule formula %q: %v", src, err)
	}
	p := &ruleParser{consts: consts}
	return p.formula(e), nil
}

func MustParse(src string, consts ConstLookup) *F {
	f, err := ParseFormula(src, consts)
	if err != nil {
		panic(err)
	}
	return f
}

type ruleParser struct{ consts ConstLookup }

func (p *ruleParser) formula(e ast.Expr) *F {
	e = ast.Unparen(e)
	switch x := e.(type) {
	case *ast.Ident:
		if x.Name == "true" {
			return True()
		}
		if x.Name == "false" {
			return False()
		}
	case *ast.UnaryExpr:
		if x.Op == token.NOT {
			return Not(p.formula(x.X))
		}
	case *ast.BinaryExpr:
		switch x.Op {
		case token.LAND:
			return And(p.formula(x.X), p.formula(x.Y))
		case token.LOR:
			return Or(p.formula(x.X), p.formula(x.Y))
		case token.EQL, token.NEQ, token.LSS, token.GTR, token.LEQ, token.GEQ:
			if nx, ny, ok := subZero(x.X, x.Y, func(e ast.Expr) bool {
				bl, ok := ast.Unparen(e).(*ast.BasicLit)
				return ok && bl.Value == "0"
			}, func(ast.Expr) bool { return true }, func(e ast.Expr) ast.Expr { return ast.Unparen(e) }); ok {
				return p.formula(&ast.BinaryExpr{X: nx, Op: x.Op, Y: ny})
			}
			l, r := p.term(x.X), p.term(x.Y)
			lc, rc := p.constOf(x.X, l), p.constOf(x.Y, r)
			if x.Op == token.EQL || x.Op == token.NEQ {
				if r == "true" || r == "false" {
					f := p.formula(x.X)
					if (r == "true") != (x.Op == token.EQL) {
						f = Not(f)
					}
					return f
				}
			}
			return MakeCmp(x.Op, l, r, lc, rc)
		}
	}
	return &F{Op: OpAtom, Key: p.term(e)}
}

func (p *ruleParser) constOf(e ast.Expr, key string) string {
	e = ast.Unparen(e)
	switch x := e.(type) {
	case *ast.BasicLit:
		if x.Kind == token.STRING || x.Kind == token.CHAR {
			return x.Value
		}
		return x.Value
	case *ast.Ident:
		if x.Name == "nil" {
			return "nil"
		}
	}
	if p.consts != nil {
		return p.consts(key)
	}
	return ""
}

func (p *ruleParser) term(e ast.Expr) string {
	switch x := e.(type) {
	case *ast.ParenExpr:
		return p.term(x.X)
	case *ast.Ident:
		return x.Name
	case *ast.SelectorExpr:
		return p.term(x.X) + "." + x.Sel.Name
	case *ast.CallExpr:
		var args []string
		for _, a := range x.Args {
			args = append(args, p.term(a))
		}
		s := p.term(x.Fun) + "(" + strings.Join(args, ", ")
		if x.Ellipsis.IsValid() {
			s += "..."
		}
		return s + ")"
	case *ast.StarExpr:
		return "*" + p.term(x.X)
	case *ast.UnaryExpr:
		return x.Op.String() + p.term(x.X)
	case *ast.BinaryExpr:
		l, r := p.term(x.X), p.term(x.Y)
		if (x.Op == token.ADD || x.Op == token.MUL) && r < l {
			l, r = r, l
		}
		return "(" + l + " " + x.Op.String() + " " + r + ")"
	case *ast.IndexExpr:
		return p.term(x.X) + "[" + p.term(x.Index) + "]"
	case *ast.SliceExpr:
		s := p.term(x.X) + "["
		if x.Low != nil {
			s += p.term(x.Low)
		}
		s += ":"
		if x.High != nil {
			s += p.term(x.High)
		}
		if x.Max != nil {
			s += ":" + p.term(x.Max)
		}
		return s + "]"
	case *ast.TypeAssertExpr:
		return p.term(x.X) + ".(" + types.ExprString(x.Type) + ")"
	case *ast.BasicLit:
		if x.Kind == token.INT {
			if v, err := strconv.ParseInt(x.Value, 0, 64); err == nil {
				return strconv.FormatInt(v, 10)
			}
		}
		return x.Value
	}
	return types.ExprString(e)
}
