package flow

import (
	"go/ast"
	"go/token"
	"regexp"
	"sort"
	"strings"
)

type Op int

const (
	OpTrue Op = iota
	OpFalse
	OpAtom
	OpNot
	OpAnd
	OpOr
)

// F is a propositional formula. Before canonicalisation atoms carry Expr; afterwards Key (and the
// comparison structure in Cmp).
type F struct {
	Op   Op
	Expr ast.Expr // raw atom
	Opq  string   // opaque atom label (type switch cases)
	OpqNodes []ast.Node
	Key  string   // canonical atom
	Cmp  *Cmp
	Kids []*F
}

// Cmp describes a comparison atom "L op R" with op in {"==", "<"}.
type Cmp struct {
	Op     string
	L, R   string
	LConst string // exact constant value of the side, "" if not constant
	RConst string
	NonNeg string // a side known to be non-negative from its type (an unsigned integer): `0 < t` or `0 == t` holds
}

func True() *F  { return &F{Op: OpTrue} }
func False() *F { return &F{Op: OpFalse} }
func Not(f *F) *F {
	switch f.Op {
	case OpTrue:
		return False()
	case OpFalse:
		return True()
	case OpNot:
		return f.Kids[0]
	}
	return &F{Op: OpNot, Kids: []*F{f}}
}
func And(fs ...*F) *F {
	var kids []*F
	for _, f := range fs {
		if f == nil || f.Op == OpTrue {
			continue
		}
		if f.Op == OpFalse {
			return False()
		}
		if f.Op == OpAnd {
			kids = append(kids, f.Kids...)
		} else {
			kids = append(kids, f)
		}
	}
	if len(kids) == 0 {
		return True()
	}
	if len(kids) == 1 {
		return kids[0]
	}
	return &F{Op: OpAnd, Kids: kids}
}
func Or(fs ...*F) *F {
	var kids []*F
	for _, f := range fs {
		if f == nil || f.Op == OpFalse {
			continue
		}
		if f.Op == OpTrue {
			return True()
		}
		if f.Op == OpOr {
			kids = append(kids, f.Kids...)
		} else {
			kids = append(kids, f)
		}
	}
	if len(kids) == 0 {
		return False()
	}
	if len(kids) == 1 {
		return kids[0]
	}
	return &F{Op: OpOr, Kids: kids}
}
func AtomKey(k string) *F { return &F{Op: OpAtom, Key: k} }

func Opaque(kind string, a, b ast.Node) *F {
	return &F{Op: OpAtom, Opq: kind, OpqNodes: []ast.Node{a, b}}
}

// FromExpr decomposes &&, ||, ! and parentheses; everything else is an atom.
func FromExpr(e ast.Expr) *F {
	switch x := e.(type) {
	case *ast.ParenExpr:
		return FromExpr(x.X)
	case *ast.UnaryExpr:
		if x.Op == token.NOT {
			return Not(FromExpr(x.X))
		}
	case *ast.BinaryExpr:
		switch x.Op {
		case token.LAND:
			return And(FromExpr(x.X), FromExpr(x.Y))
		case token.LOR:
			return Or(FromExpr(x.X), FromExpr(x.Y))
		}
	case *ast.Ident:
		if x.Name == "true" {
			return True()
		}
		if x.Name == "false" {
			return False()
		}
	}
	return &F{Op: OpAtom, Expr: e}
}

func (f *F) String() string {
	switch f.Op {
	case OpTrue:
		return "true"
	case OpFalse:
		return "false"
	case OpAtom:
		if f.Key != "" {
			return f.Key
		}
		if f.Opq != "" {
			return "<" + f.Opq + ">"
		}
		return "<raw>"
	case OpNot:
		return "!(" + f.Kids[0].String() + ")"
	case OpAnd, OpOr:
		sep := " && "
		if f.Op == OpOr {
			sep = " || "
		}
		var ss []string
		for _, k := range f.Kids {
			s := k.String()
			if k.Op == OpAnd || k.Op == OpOr {
				s = "(" + s + ")"
			}
			ss = append(ss, s)
		}
		return strings.Join(ss, sep)
	}
	return "?"
}

// Atoms collects the distinct atoms of a canonical formula.
func (f *F) Atoms(into map[string]*F) {
	if f.Op == OpAtom {
		if _, ok := into[f.Key]; !ok {
			into[f.Key] = f
		}
		return
	}
	for _, k := range f.Kids {
		k.Atoms(into)
	}
}

func (f *F) Eval(val map[string]bool) bool {
	switch f.Op {
	case OpTrue:
		return true
	case OpFalse:
		return false
	case OpAtom:
		return val[f.Key]
	case OpNot:
		return !f.Kids[0].Eval(val)
	case OpAnd:
		for _, k := range f.Kids {
			if !k.Eval(val) {
				return false
			}
		}
		return true
	case OpOr:
		for _, k := range f.Kids {
			if k.Eval(val) {
				return true
			}
		}
		return false
	}
	return false
}

// MaxAtoms bounds the truth table; more atoms means "undecided".
const MaxAtoms = 20

type ImplResult struct {
	Holds     bool
	Undecided string          // non-empty: why no verdict
	Counter   map[string]bool // a row with PC true and goal false
	NAtoms    int
}

// globMatch: rule atoms may contain the wildcard identifier `_`, matching any text.
func globMatch(pat, s string) bool {
	if !strings.Contains(pat, "_") {
		return pat == s
	}
	parts := wildRe.Split(pat, -1)
	var sb strings.Builder
	sb.WriteString("^")
	for i, p := range parts {
		if i > 0 {
			sb.WriteString(".*")
		}
		sb.WriteString(regexp.QuoteMeta(p))
	}
	sb.WriteString("$")
	re, err := regexp.Compile(sb.String())
	if err != nil {
		return false
	}
	return re.MatchString(s)
}

// a lone underscore token (not part of an identifier)
var wildRe = regexp.MustCompile(`(?:^|\b)_(?:\b|$)`)

// Unify rewrites wildcard atoms of goal to the unique matching atom of pc.
func Unify(goal, pc *F) (*F, string) {
	pcAtoms := map[string]*F{}
	pc.Atoms(pcAtoms)
	var bad string
	var rec func(f *F) *F
	rec = func(f *F) *F {
		if f.Op == OpAtom {
			if !wildRe.MatchString(f.Key) {
				return f
			}
			var ms []string
			for k := range pcAtoms {
				if globMatch(f.Key, k) {
					ms = append(ms, k)
				}
			}
			sort.Strings(ms)
			if len(ms) == 1 {
				return pcAtoms[ms[0]]
			}
			if len(ms) > 1 {
				bad = "wildcard atom " + f.Key + " matches several path-condition atoms: " + strings.Join(ms, " | ")
			}
			return f
		}
		if len(f.Kids) == 0 {
			return f
		}
		nf := &F{Op: f.Op}
		for _, k := range f.Kids {
			nf.Kids = append(nf.Kids, rec(k))
		}
		return nf
	}
	out := rec(goal)
	return out, bad
}

// Implies decides pc => goal by exhaustive truth table over their atoms, under a small theory:
// x==c1 and x==c2 exclude each other for distinct constants; a<b, b<a, a==b are mutually exclusive
// (and exhaustive when all three atoms are present); 0<len(x) and 0==len(x) are exhaustive.
func Implies(pc, goal *F) ImplResult {
	goal, bad := Unify(goal, pc)
	if bad != "" {
		return ImplResult{Undecided: bad}
	}
	atoms := map[string]*F{}
	pc.Atoms(atoms)
	goal.Atoms(atoms)
	var keys []string
	for k := range atoms {
		keys = append(keys, k)
	}
	sort.Strings(keys)
	n := len(keys)
	if n > MaxAtoms {
		return ImplResult{Undecided: "too many atoms", NAtoms: n}
	}
	type excl struct{ a, b int }
	var excls []excl
	var exhaust [][]int
	nonNeg := map[string]bool{}
	var collectNN func(f *F)
	collectNN = func(f *F) {
		if f == nil {
			return
		}
		if f.Op == OpAtom && f.Cmp != nil && f.Cmp.NonNeg != "" {
			nonNeg[f.Cmp.NonNeg] = true
		}
		for _, k := range f.Kids {
			collectNN(k)
		}
	}
	collectNN(pc)
	collectNN(goal)
	idx := map[string]int{}
	for i, k := range keys {
		idx[k] = i
	}
	for i := 0; i < n; i++ {
		ci := atoms[keys[i]].Cmp
		if ci == nil {
			continue
		}
		for j := i + 1; j < n; j++ {
			cj := atoms[keys[j]].Cmp
			if cj == nil {
				continue
			}
			if ci.Op == "==" && cj.Op == "==" {
				// same variable side, distinct constants
				for _, p := range [][4]string{{ci.L, ci.RConst, cj.L, cj.RConst}, {ci.L, ci.RConst, cj.R, cj.LConst}, {ci.R, ci.LConst, cj.L, cj.RConst}, {ci.R, ci.LConst, cj.R, cj.LConst}} {
					if p[0] == p[2] && p[1] != "" && p[3] != "" && p[1] != p[3] {
						excls = append(excls, excl{i, j})
					}
				}
			}
			sameSet := (ci.L == cj.L && ci.R == cj.R) || (ci.L == cj.R && ci.R == cj.L)
			if sameSet && !(ci.Op == "==" && cj.Op == "==") {
				excls = append(excls, excl{i, j})
			}
		}
		if ci.Op == "<" {
			// trichotomy
			rev, okr := idx[ci.R+" < "+ci.L]
			eqk := ci.L + " == " + ci.R
			if ci.R < ci.L {
				eqk = ci.R + " == " + ci.L
			}
			eq, oke := idx[eqk]
			if okr && oke && i < rev {
				exhaust = append(exhaust, []int{i, rev, eq})
			}
			if oke && ci.L == "0" && (strings.HasPrefix(ci.R, "len(") || nonNeg[ci.R]) {
				exhaust = append(exhaust, []int{i, eq})
			}
			// integer constants on one side: x < c1 implies x < c2 for c1 <= c2 is not modelled
		}
	}
	val := make(map[string]bool, n)
	for row := 0; row < 1<<uint(n); row++ {
		ok := true
		for _, e := range excls {
			if row&(1<<uint(e.a)) != 0 && row&(1<<uint(e.b)) != 0 {
				ok = false
				break
			}
		}
		if !ok {
			continue
		}
		for _, ex := range exhaust {
			any := false
			for _, i := range ex {
				if row&(1<<uint(i)) != 0 {
					any = true
				}
			}
			if !any {
				ok = false
				break
			}
		}
		if !ok {
			continue
		}
		for i, k := range keys {
			val[k] = row&(1<<uint(i)) != 0
		}
		if pc.Eval(val) && !goal.Eval(val) {
			cp := map[string]bool{}
			for k, v := range val {
				cp[k] = v
			}
			return ImplResult{Holds: false, Counter: cp, NAtoms: n}
		}
	}
	return ImplResult{Holds: true, NAtoms: n}
}

// Simplify applies cheap, sound rewrites: x || !x = true, x && !x = false, duplicate removal, and
// factoring of conjuncts common to all disjuncts ((a && x) || (b && x) = x && (a || b)).
func Simplify(f *F) *F {
	switch f.Op {
	case OpNot:
		k := Simplify(f.Kids[0])
		return Not(k)
	case OpAnd, OpOr:
		var ks []*F
		seen := map[string]bool{}
		for _, k := range f.Kids {
			k = Simplify(k)
			s := k.String()
			if seen[s] {
				continue
			}
			seen[s] = true
			ks = append(ks, k)
		}
		// complementary pair
		for _, k := range ks {
			if seen[Not(k).String()] {
				if f.Op == OpOr {
					return True()
				}
				return False()
			}
		}
		if f.Op == OpAnd {
			return And(ks...)
		}
		// factor common conjuncts out of a disjunction
		conj := func(k *F) []*F {
			if k.Op == OpAnd {
				return k.Kids
			}
			return []*F{k}
		}
		if len(ks) >= 2 {
			common := map[string]*F{}
			for _, c := range conj(ks[0]) {
				common[c.String()] = c
			}
			for _, k := range ks[1:] {
				have := map[string]bool{}
				for _, c := range conj(k) {
					have[c.String()] = true
				}
				for s := range common {
					if !have[s] {
						delete(common, s)
					}
				}
			}
			if len(common) > 0 {
				var outer []*F
				var keys []string
				for s := range common {
					keys = append(keys, s)
				}
				sort.Strings(keys)
				for _, s := range keys {
					outer = append(outer, common[s])
				}
				var rest []*F
				for _, k := range ks {
					var left []*F
					for _, c := range conj(k) {
						if _, ok := common[c.String()]; !ok {
							left = append(left, c)
						}
					}
					rest = append(rest, And(left...))
				}
				return And(append(outer, Simplify(Or(rest...)))...)
			}
		}
		return Or(ks...)
	}
	return f
}
