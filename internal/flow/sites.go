package flow

import (
	"go/ast"
	"go/token"
	"go/types"
	"sort"

	"golang.org/x/tools/go/types/typeutil"
)

type SiteKind int

const (
	SCall SiteKind = iota
	SStore
	SSend
	SRecv
	SReturn
	SRange
	SUse // synthetic: a read of a variable (built on demand, not part of CollectSites)
)

func (k SiteKind) String() string {
	return [...]string{"call", "store", "send", "recv", "return", "range", "use"}[k]
}

// Site is one event inside a function: a call, a store, a channel operation, a return.
type Site struct {
	Kind    SiteKind
	Block   *Block
	NodeIdx int
	Pos     token.Pos
	ord     token.Pos // ordering inside the node

	Call     *ast.CallExpr
	Callee   *types.Func // nil for dynamic calls and builtins
	Builtin  string      // "delete", "close", "append", ...
	Deferred bool
	Go       bool

	LHS   ast.Expr
	RHS   ast.Expr    // nil for tuple assignment / inc-dec
	Tuple ast.Expr    // the single right-hand side of a tuple assignment
	TupleIdx int
	Field *types.Var  // LHS (or its map/slice base) is a selector of this struct field
	Index bool        // LHS is base[index] where base is Field
	Local types.Object // LHS is this local variable / parameter
	Tok   token.Token

	Chan ast.Expr
	Ret  *ast.ReturnStmt
	Rng  *ast.RangeStmt

	Ctx *F // raw short-circuit context inside a condition

	Use     *ast.Ident // SUse: the identifier
	Parents []ast.Node // SUse: enclosing nodes inside the statement, outermost first
}

// VarUses lists the reads of a variable in the graph (assignments to it and function literals are
// not included), as synthetic sites ordered like real ones.
func VarUses(g *Graph, info *types.Info, obj types.Object) []*Site {
	var out []*Site
	for _, b := range g.Blocks {
		for i, n := range b.Nodes {
			var stack []ast.Node
			root := ast.Node(n)
			if rh, ok := n.(*RangeHead); ok {
				root = rh.Stmt.X
			}
			ast.Inspect(root, func(c ast.Node) bool {
				if c == nil {
					stack = stack[:len(stack)-1]
					return true
				}
				if _, ok := c.(*ast.FuncLit); ok {
					return false
				}
				if id, ok := c.(*ast.Ident); ok && info.Uses[id] == obj {
					isLHS := false
					if len(stack) > 0 {
						switch p := stack[len(stack)-1].(type) {
						case *ast.AssignStmt:
							for _, l := range p.Lhs {
								if l == ast.Expr(id) {
									isLHS = true
								}
							}
						}
					}
					if !isLHS {
						ps := make([]ast.Node, len(stack))
						copy(ps, stack)
						out = append(out, &Site{Kind: SUse, Block: b, NodeIdx: i, Pos: id.Pos(), ord: id.Pos(), Use: id, Parents: ps, Ctx: True()})
					}
				}
				stack = append(stack, c)
				return true
			})
		}
	}
	return out
}

// Before reports whether a is evaluated before b on every path containing both, within straight-line
// order of one block; across blocks use dominance.
func (a *Site) SameBlockBefore(b *Site) bool {
	if a.Block != b.Block {
		return false
	}
	if a.NodeIdx != b.NodeIdx {
		return a.NodeIdx < b.NodeIdx
	}
	return a.ord < b.ord
}

// CollectSites enumerates the sites of a graph; FuncLit bodies are not entered.
func CollectSites(g *Graph, info *types.Info) []*Site {
	var out []*Site
	for _, b := range g.Blocks {
		for i, n := range b.Nodes {
			out = append(out, nodeSites(b, i, n, info)...)
		}
	}
	sort.SliceStable(out, func(i, j int) bool {
		if out[i].Block.Index != out[j].Block.Index {
			return out[i].Block.Index < out[j].Block.Index
		}
		if out[i].NodeIdx != out[j].NodeIdx {
			return out[i].NodeIdx < out[j].NodeIdx
		}
		return out[i].ord < out[j].ord
	})
	return out
}

func fieldOf(e ast.Expr, info *types.Info) *types.Var {
	e = ast.Unparen(e)
	if se, ok := e.(*ast.SelectorExpr); ok {
		if sel := info.Selections[se]; sel != nil && sel.Kind() == types.FieldVal {
			if v, ok := sel.Obj().(*types.Var); ok {
				return v
			}
		}
	}
	return nil
}

func nodeSites(b *Block, idx int, n ast.Node, info *types.Info) []*Site {
	var out []*Site
	add := func(s *Site) {
		s.Block, s.NodeIdx = b, idx
		out = append(out, s)
	}
	store := func(lhs, rhs ast.Expr, tok token.Token, end token.Pos) {
		s := &Site{Kind: SStore, LHS: lhs, RHS: rhs, Tok: tok, Pos: lhs.Pos(), ord: end}
		l := ast.Unparen(lhs)
		if st, ok := l.(*ast.StarExpr); ok {
			l = ast.Unparen(st.X)
		}
		if f := fieldOf(l, info); f != nil {
			s.Field = f
		} else if ix, ok := l.(*ast.IndexExpr); ok {
			if f := fieldOf(ix.X, info); f != nil {
				s.Field, s.Index = f, true
			} else if id, ok := ast.Unparen(ix.X).(*ast.Ident); ok {
				s.Local, s.Index = info.ObjectOf(id), true
			}
		} else if id, ok := l.(*ast.Ident); ok {
			s.Local = info.ObjectOf(id)
		}
		add(s)
	}
	var walk func(n ast.Node, ctx *F, deferred, gostmt bool)
	walk = func(n ast.Node, ctx *F, deferred, gostmt bool) {
		if n == nil {
			return
		}
		switch x := n.(type) {
		case *ast.FuncLit:
			return
		case *RangeHead:
			add(&Site{Kind: SRange, Rng: x.Stmt, Pos: x.Stmt.For, ord: x.Stmt.For})
			return
		case *ast.AssignStmt:
			for _, r := range x.Rhs {
				walk(r, ctx, false, false)
			}
			for i, l := range x.Lhs {
				walk(l, ctx, false, false) // index expressions may contain calls
				var rhs ast.Expr
				if len(x.Lhs) == len(x.Rhs) {
					rhs = x.Rhs[i]
				} else if len(x.Rhs) == 1 {
					rhs = x.Rhs[0]
				}
				if id, ok := l.(*ast.Ident); ok && id.Name == "_" {
					continue
				}
				tok := x.Tok
				// x += 1, x -= 1 and x = x + 1 are x++ / x-- spelled differently: rules that speak about an increment
				// must not depend on the spelling
				if len(x.Lhs) == len(x.Rhs) && rhs != nil {
					isOne := func(e ast.Expr) bool {
						tv, ok := info.Types[e]
						return ok && tv.Value != nil && tv.Value.ExactString() == "1"
					}
					switch {
					case tok == token.ADD_ASSIGN && isOne(rhs):
						tok, rhs = token.INC, nil
					case tok == token.SUB_ASSIGN && isOne(rhs):
						tok, rhs = token.DEC, nil
					case tok == token.ASSIGN:
						if be, ok := ast.Unparen(rhs).(*ast.BinaryExpr); ok && (be.Op == token.ADD || be.Op == token.SUB) {
							same := types.ExprString(ast.Unparen(be.X)) == types.ExprString(ast.Unparen(l))
							if same && isOne(be.Y) {
								if be.Op == token.ADD {
									tok, rhs = token.INC, nil
								} else {
									tok, rhs = token.DEC, nil
								}
							} else if be.Op == token.ADD && isOne(be.X) && types.ExprString(ast.Unparen(be.Y)) == types.ExprString(ast.Unparen(l)) {
								tok, rhs = token.INC, nil
							}
						}
					}
				}
				store(l, rhs, tok, x.End())
				if len(x.Lhs) != len(x.Rhs) {
					out[len(out)-1].RHS = nil
					out[len(out)-1].Tuple = rhs
					out[len(out)-1].TupleIdx = i
					out[len(out)-1].Call, _ = ast.Unparen(rhs).(*ast.CallExpr)
				}
			}
			return
		case *ast.ValueSpec:
			for _, v := range x.Values {
				walk(v, ctx, false, false)
			}
			for i, id := range x.Names {
				if id.Name == "_" {
					continue
				}
				var rhs ast.Expr
				if len(x.Values) == len(x.Names) {
					rhs = x.Values[i]
				}
				store(id, rhs, token.DEFINE, x.End())
			}
			return
		case *ast.IncDecStmt:
			walk(x.X, ctx, false, false)
			store(x.X, nil, x.Tok, x.End())
			return
		case *ast.SendStmt:
			walk(x.Chan, ctx, false, false)
			walk(x.Value, ctx, false, false)
			add(&Site{Kind: SSend, Chan: x.Chan, RHS: x.Value, Pos: x.Arrow, ord: x.End()})
			return
		case *ast.ReturnStmt:
			for _, r := range x.Results {
				walk(r, ctx, false, false)
			}
			add(&Site{Kind: SReturn, Ret: x, Pos: x.Return, ord: x.End()})
			return
		case *ast.DeferStmt:
			walkCall(x.Call, ctx, true, false, walk, add, info)
			return
		case *ast.GoStmt:
			walkCall(x.Call, ctx, false, true, walk, add, info)
			return
		case *ast.UnaryExpr:
			walk(x.X, ctx, false, false)
			if x.Op == token.ARROW {
				add(&Site{Kind: SRecv, Chan: x.X, Pos: x.OpPos, ord: x.End(), Ctx: ctx})
			}
			return
		case *ast.BinaryExpr:
			if x.Op == token.LAND {
				walk(x.X, ctx, false, false)
				walk(x.Y, And(ctx, FromExpr(x.X)), false, false)
				return
			}
			if x.Op == token.LOR {
				walk(x.X, ctx, false, false)
				walk(x.Y, And(ctx, Not(FromExpr(x.X))), false, false)
				return
			}
			walk(x.X, ctx, false, false)
			walk(x.Y, ctx, false, false)
			return
		case *ast.CallExpr:
			walkCall(x, ctx, false, false, walk, add, info)
			return
		}
		// generic descent in source order
		var kids []ast.Node
		ast.Inspect(n, func(c ast.Node) bool {
			if c == nil || c == n {
				return c == n
			}
			kids = append(kids, c)
			return false
		})
		for _, k := range kids {
			walk(k, ctx, false, false)
		}
	}
	walk(n, nil, false, false)
	for _, s := range out {
		if s.Ctx == nil {
			s.Ctx = True()
		}
	}
	return out
}

func walkCall(x *ast.CallExpr, ctx *F, deferred, gostmt bool, walk func(ast.Node, *F, bool, bool), add func(*Site), info *types.Info) {
	// arguments and the function expression are evaluated first
	if _, isLit := ast.Unparen(x.Fun).(*ast.FuncLit); !isLit {
		walk(x.Fun, ctx, false, false)
	}
	for _, a := range x.Args {
		walk(a, ctx, false, false)
	}
	s := &Site{Kind: SCall, Call: x, Pos: x.Lparen, ord: x.Rparen, Deferred: deferred, Go: gostmt, Ctx: ctx}
	switch c := typeutil.Callee(info, x).(type) {
	case *types.Func:
		s.Callee = c
	case *types.Builtin:
		s.Builtin = c.Name()
	}
	if tv, ok := info.Types[x.Fun]; ok && tv.IsType() {
		return // conversion, not a call
	}
	add(s)
}
