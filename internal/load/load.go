// Package load turns /repo's current working tree into a type-checked (and optionally SSA) program.
//
// The gorocksdb cgo binding does not build in this sandbox, so loading goes through a derived module
// file (/repo/go.mod + replace gorocksdb => generated stub), regenerated on every run. Nothing is
// written under /repo.
package load

import (
	"fmt"
	"go/ast"
	"go/token"
	"go/types"
	"os"
	"path/filepath"
	"sort"
	"strings"

	"golang.org/x/tools/go/packages"
	"golang.org/x/tools/go/ssa"
	"golang.org/x/tools/go/ssa/ssautil"
)

const ModPath = "github.com/youzan/ZanRedisDB"

// MinPackages is the number of module packages counted by hand on the pinned tree; fewer means the
// loader saw less than the build does and every verdict would be vacuous.
const MinPackages = 44

type Config struct {
	Repo     string            // /repo
	VerifDir string            // /verif
	Overlay  map[string][]byte // absolute file name -> content (mutation self-test)
	AllSyntax bool             // load dependencies with syntax too (whole-program SSA)
	Patterns []string          // default ./...
}

type Program struct {
	Fset  *token.FileSet
	Pkgs  []*packages.Package // module packages, sorted by path
	ByPath map[string]*packages.Package
	All   []*packages.Package // including deps when AllSyntax

	SSA     *ssa.Program
	SSAPkgs map[string]*ssa.Package

	funcs map[string]*Func // by qualified name
	byObj map[*types.Func]*Func
	Repo  string
}

// Func is one source function or method of a module package.
type Func struct {
	Name string // e.g. raft.(*raft).Step, node.NewKVNode
	Decl *ast.FuncDecl
	Obj  *types.Func
	Pkg  *packages.Package
}

func env() []string {
	e := os.Environ()
	e = append(e, "GOFLAGS=-mod=mod", "GOPROXY=off", "GOSUMDB=off", "GOTOOLCHAIN=local", "GOWORK=off", "CGO_ENABLED=1")
	return e
}

// DeriveModfile writes <verif>/.work/go.mod = /repo/go.mod + replace of gorocksdb by the stub.
func DeriveModfile(repo, verif string) (string, error) {
	work := filepath.Join(verif, ".work")
	if err := os.MkdirAll(work, 0o755); err != nil {
		return "", err
	}
	gm, err := os.ReadFile(filepath.Join(repo, "go.mod"))
	if err != nil {
		return "", err
	}
	stub := filepath.Join(verif, ".cache", "gorocksdb-stub")
	if _, err := os.Stat(filepath.Join(stub, "go.mod")); err != nil {
		return "", fmt.Errorf("gorocksdb stub missing (%v): run setup", err)
	}
	out := string(gm) + "\nreplace github.com/youzan/gorocksdb => " + stub + "\n"
	mf := filepath.Join(work, "go.mod")
	if old, err := os.ReadFile(mf); err != nil || string(old) != out {
		if err := os.WriteFile(mf, []byte(out), 0o644); err != nil {
			return "", err
		}
	}
	gs, err := os.ReadFile(filepath.Join(repo, "go.sum"))
	if err == nil {
		sf := filepath.Join(work, "go.sum")
		if old, err := os.ReadFile(sf); err != nil || string(old) != string(gs) {
			if err := os.WriteFile(sf, gs, 0o644); err != nil {
				return "", err
			}
		}
	}
	return mf, nil
}

func Load(c Config) (*Program, error) {
	mf, err := DeriveModfile(c.Repo, c.VerifDir)
	if err != nil {
		return nil, err
	}
	mode := packages.NeedName | packages.NeedFiles | packages.NeedCompiledGoFiles | packages.NeedImports |
		packages.NeedTypes | packages.NeedTypesSizes | packages.NeedSyntax | packages.NeedTypesInfo | packages.NeedModule
	if c.AllSyntax {
		mode |= packages.NeedDeps
	}
	pats := c.Patterns
	if len(pats) == 0 {
		pats = []string{"./..."}
	}
	fset := token.NewFileSet()
	cfg := &packages.Config{
		Mode:       mode | packages.NeedDeps,
		Dir:        c.Repo,
		Env:        env(),
		Fset:       fset,
		BuildFlags: []string{"-modfile=" + mf},
		Overlay:    c.Overlay,
		Tests:      false,
	}
	if !c.AllSyntax {
		// typed syntax for the initial (module) packages, export data for dependencies
		cfg.Mode = packages.LoadSyntax | packages.NeedModule
	} else {
		cfg.Mode = packages.LoadAllSyntax | packages.NeedModule
	}
	initial, err := packages.Load(cfg, pats...)
	if err != nil {
		return nil, err
	}
	p := &Program{Fset: fset, ByPath: map[string]*packages.Package{}, funcs: map[string]*Func{}, byObj: map[*types.Func]*Func{}, Repo: c.Repo}
	var errs []string
	for _, pkg := range initial {
		if !strings.HasPrefix(pkg.PkgPath, ModPath) {
			continue
		}
		for _, e := range pkg.Errors {
			errs = append(errs, fmt.Sprintf("%s: %v", pkg.PkgPath, e))
		}
		if pkg.IllTyped {
			errs = append(errs, fmt.Sprintf("%s: ill-typed", pkg.PkgPath))
		}
		p.Pkgs = append(p.Pkgs, pkg)
		p.ByPath[pkg.PkgPath] = pkg
	}
	if len(errs) > 0 {
		sort.Strings(errs)
		if len(errs) > 20 {
			errs = errs[:20]
		}
		return nil, fmt.Errorf("type errors in module packages:\n  %s", strings.Join(errs, "\n  "))
	}
	sort.Slice(p.Pkgs, func(i, j int) bool { return p.Pkgs[i].PkgPath < p.Pkgs[j].PkgPath })
	if len(pats) == 1 && pats[0] == "./..." && len(p.Pkgs) < MinPackages {
		return nil, fmt.Errorf("only %d module packages loaded, expected at least %d", len(p.Pkgs), MinPackages)
	}
	p.All = initial
	p.index()
	return p, nil
}

// BuildSSA builds SSA for the loaded packages (function bodies for module packages; for dependencies
// only when loaded with AllSyntax).
func (p *Program) BuildSSA() {
	if p.SSA != nil {
		return
	}
	mode := ssa.InstantiateGenerics
	var prog *ssa.Program
	var pkgs []*ssa.Package
	if len(p.All) > 0 && p.All[0].Types != nil {
		// AllPackages creates SSA packages for all dependencies too (with bodies where syntax is present)
		prog, pkgs = ssautil.AllPackages(p.All, mode)
	}
	prog.Build()
	p.SSA = prog
	p.SSAPkgs = map[string]*ssa.Package{}
	for _, sp := range pkgs {
		if sp != nil {
			p.SSAPkgs[sp.Pkg.Path()] = sp
		}
	}
	for _, sp := range prog.AllPackages() {
		if _, ok := p.SSAPkgs[sp.Pkg.Path()]; !ok {
			p.SSAPkgs[sp.Pkg.Path()] = sp
		}
	}
}

func recvName(fd *ast.FuncDecl) string {
	if fd.Recv == nil || len(fd.Recv.List) == 0 {
		return ""
	}
	t := fd.Recv.List[0].Type
	star := false
	if s, ok := t.(*ast.StarExpr); ok {
		star = true
		t = s.X
	}
	if ix, ok := t.(*ast.IndexExpr); ok {
		t = ix.X
	}
	id, ok := t.(*ast.Ident)
	if !ok {
		return "?"
	}
	if star {
		return "(*" + id.Name + ")"
	}
	return id.Name
}

// ShortPkg returns the module-relative package path ("raft", "cluster/pdnode_coord", "" for the root).
func ShortPkg(path string) string {
	s := strings.TrimPrefix(path, ModPath)
	return strings.TrimPrefix(s, "/")
}

func (p *Program) index() {
	for _, pkg := range p.Pkgs {
		sp := ShortPkg(pkg.PkgPath)
		for _, f := range pkg.Syntax {
			for _, d := range f.Decls {
				fd, ok := d.(*ast.FuncDecl)
				if !ok {
					continue
				}
				obj, _ := pkg.TypesInfo.Defs[fd.Name].(*types.Func)
				if obj == nil {
					continue
				}
				name := sp + "." + fd.Name.Name
				if r := recvName(fd); r != "" {
					name = sp + "." + r + "." + fd.Name.Name
				}
				fn := &Func{Name: name, Decl: fd, Obj: obj, Pkg: pkg}
				if _, dup := p.funcs[name]; dup && fd.Name.Name != "init" && fd.Name.Name != "_" {
					// keep first; duplicates only happen for init / blank
					continue
				}
				p.funcs[name] = fn
				p.byObj[obj] = fn
			}
		}
	}
}

// Func resolves a qualified name such as "raft.(*raft).Step"; nil if absent.
func (p *Program) Func(name string) *Func { return p.funcs[name] }

// FuncOf returns the source function for a types.Func of the module (nil for others).
func (p *Program) FuncOf(obj *types.Func) *Func {
	if obj == nil {
		return nil
	}
	if f := p.byObj[obj]; f != nil {
		return f
	}
	if o := obj.Origin(); o != obj {
		return p.byObj[o]
	}
	return nil
}

func (p *Program) Funcs() []*Func {
	var out []*Func
	for _, f := range p.funcs {
		out = append(out, f)
	}
	sort.Slice(out, func(i, j int) bool { return out[i].Name < out[j].Name })
	return out
}

// Pos formats a position relative to the repository root.
func (p *Program) Pos(pos token.Pos) string {
	if !pos.IsValid() {
		return "-"
	}
	ps := p.Fset.Position(pos)
	rel, err := filepath.Rel(p.Repo, ps.Filename)
	if err != nil || strings.HasPrefix(rel, "..") {
		rel = ps.Filename
	}
	return fmt.Sprintf("%s:%d", rel, ps.Line)
}

// QualName gives the qualified name used by rule tables for a function object, also for functions
// outside the module ("time.Now", "os.(*File).Sync", "(io.Writer).Write" -> "io.Writer.Write").
func QualName(obj *types.Func) string {
	if obj == nil {
		return ""
	}
	pkg := ""
	if obj.Pkg() != nil {
		pkg = obj.Pkg().Path()
		if strings.HasPrefix(pkg, ModPath) {
			pkg = ShortPkg(pkg)
		}
	}
	sig, _ := obj.Type().(*types.Signature)
	if sig != nil && sig.Recv() != nil {
		t := sig.Recv().Type()
		star := false
		if pt, ok := t.(*types.Pointer); ok {
			star = true
			t = pt.Elem()
		}
		tn := "?"
		switch x := t.(type) {
		case *types.Named:
			tn = x.Obj().Name()
			if x.Obj().Pkg() != nil {
				pkg = x.Obj().Pkg().Path()
				if strings.HasPrefix(pkg, ModPath) {
					pkg = ShortPkg(pkg)
				}
			}
		case *types.Alias:
			tn = x.Obj().Name()
		}
		if star {
			return pkg + ".(*" + tn + ")." + obj.Name()
		}
		return pkg + "." + tn + "." + obj.Name()
	}
	return pkg + "." + obj.Name()
}
