#!/bin/sh
# Builds the framework offline from files on disk only: stub generator, checker, gorocksdb stub.
set -e
cd "$(dirname "$0")"
V=$(pwd)
export GOFLAGS=-mod=mod GOPROXY=off GOSUMDB=off GOTOOLCHAIN=local GOWORK=off
mkdir -p bin .cache .work evidence
go build -o bin/stubgen ./cmd/stubgen
go build -o bin/zrcheck ./cmd/zrcheck
cp /repo/go.mod .work/base.mod
cp /repo/go.sum .work/base.sum 2>/dev/null || true
D=$(cd /repo && go list -modfile="$V/.work/base.mod" -m -f '{{.Dir}}' github.com/youzan/gorocksdb)
bin/stubgen "$D" .cache/gorocksdb-stub github.com/youzan/gorocksdb
echo "$D" > .cache/stub.stamp
# warm the build cache (cgo of package engine, export data of dependencies)
bin/zrcheck warm || true
