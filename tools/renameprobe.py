#!/usr/bin/env python3
# Robustness probe (not a check): renames, one at a time, every local variable that the rule tables mention by name
# inside a function the rule tables anchor on, and runs the property's rules on the variant through the overlay.
# A behaviour-preserving rename must leave the verdict at exit 0. usage: python3 tools/renameprobe.py [-j N] [Cxx ...]
import json, os, re, subprocess, sys, tempfile, shutil, glob
from concurrent.futures import ThreadPoolExecutor
V = os.path.dirname(os.path.dirname(os.path.abspath(__file__)))
REPO = os.environ.get("REPO", "/repo")
vocab = json.load(open(V + "/vocab.json"))
jobs = 8
args = [a for a in sys.argv[1:]]
if "-j" in args:
    i = args.index("-j"); jobs = int(args[i + 1]); del args[i:i + 2]
only = set(args)
# function -> file: from `go list`-free heuristic: search the repo for the declaration
def find_decl(fn):
    # fn like "rockredis.(*RockDB).ltrim2" or "wal.ValidSnapshotEntries" or "cluster/pdnode_coord.getNodeNameList"
    m = re.match(r"^(.*?)\.(?:\(\*?(\w+)\)\.)?(\w+)$", fn)
    if not m:
        return None
    pkg, recv, name = m.groups()
    d = f"{REPO}/{pkg}"
    if not os.path.isdir(d):
        return None
    for f in sorted(glob.glob(d + "/*.go")):
        if f.endswith("_test.go"):
            continue
        src = open(f).read()
        if recv:
            rx = re.compile(r"^func \(\w+ \*?%s\) %s\(" % (re.escape(recv), re.escape(name)), re.M)
        else:
            rx = re.compile(r"^func %s\(" % re.escape(name), re.M)
        mm = rx.search(src)
        if mm:
            end = src.find("\n}\n", mm.start())
            if end < 0:
                continue
            return f, mm.start(), end + 3
    return None
tasks = []
for pf in sorted(glob.glob(V + "/props/c[0-9][0-9].go")):
    pid = "C" + os.path.basename(pf)[1:3]
    if only and pid not in only:
        continue
    ptxt = open(pf).read()
    strings = " ".join(re.findall(r'"((?:[^"\\]|\\.)*)"', ptxt))
    idents = set(re.findall(r"[A-Za-z_]\w*", strings))
    for fn, locs in vocab.items():
        if '"' + fn + '"' not in ptxt:
            continue
        for name in locs:
            base = name
            if base in idents and len(base) > 1 and base not in ("err", "ok"):
                tasks.append((pid, fn, base))
tmp = tempfile.mkdtemp(prefix="renprobe-", dir=V + "/.work")
def run(t):
    pid, fn, name = t
    loc = find_decl(fn)
    if not loc:
        return t, "skip", "declaration not found"
    f, a, b = loc
    src = open(f).read()
    new = name + "Renamed"
    body = re.sub(r"(?<![\w.])%s\b(?!\s*:[^=])" % re.escape(name), new, src[a:b])
    if body == src[a:b]:
        return t, "skip", "no occurrence"
    out = f"{tmp}/{pid}-{abs(hash((fn, name)))}.go"
    open(out, "w").write(src[:a] + body + src[b:])
    p = subprocess.run([V + "/bin/zrcheck", "-repo", REPO, "-verif", V, "-no-evidence", "-overlay", f"{f}={out}", "check", pid, "quick"],
                       capture_output=True, text=True, env=dict(os.environ, ZR_MUTANT="1"))
    os.remove(out)
    msg = ""
    if p.returncode != 0:
        lines = [l for l in (p.stdout + p.stderr).splitlines() if l.startswith("  rule") or l.startswith("UNDECIDED") or "load failed" in l or "type errors" in l]
        msg = " | ".join(l.strip()[:160] for l in lines[:3])
    return t, p.returncode, msg
bad = 0
with ThreadPoolExecutor(jobs) as ex:
    for t, rc, msg in ex.map(run, tasks):
        if rc == "skip":
            continue
        if rc != 0:
            bad += 1
            print(f"{t[0]} {t[1]} rename {t[2]}: exit {rc}: {msg}")
print(f"{len(tasks)} renames tried, {bad} changed the verdict")
shutil.rmtree(tmp, ignore_errors=True)
