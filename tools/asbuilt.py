#!/usr/bin/env python3
# Regenerates the "as built" tables of DESIGN.md (between the ASBUILT markers) from the evidence files,
# the mutant tables and the seeded changes. usage: python3 tools/asbuilt.py  (run the checks first)
import json, glob, os, re
V = os.path.dirname(os.path.dirname(os.path.abspath(__file__)))
man = json.load(open(V + "/MANIFEST.json"))
out = []
out.append("| property | clauses (rule ids) | obligations on this tree | mutants (own) | seeded changes caught / confirmed |")
out.append("|---|---|---|---|---|")
seeds = {}
for f in sorted(glob.glob(V + "/seeded/C*-*/meta.json")):
    m = json.load(open(f))
    seeds.setdefault(m["property"], []).append(m)
tot_ob = tot_mut = 0
for c in man["checks"]:
    pid = c["property_id"]
    ev = json.load(open(f"{V}/evidence/{pid}.json"))
    cov = ev["coverage"]
    per = cov.get("obligations_per_rule", {})
    clauses = cov.get("clauses", {})
    nmut = 0
    mp = f"{V}/mutants/{pid}.json"
    if os.path.exists(mp):
        ms = json.load(open(mp))
        nmut = len(ms)
    ss = seeds.get(pid, [])
    caught = sum(1 for s in ss if s["detected_by"])
    n = sum(per.values())
    tot_ob += n
    tot_mut += nmut
    rules = ", ".join("%s %d" % (k.split("-")[1], v) for k, v in sorted(per.items()))
    out.append(f"| {pid} | {rules} | {n} | {nmut} | {caught} / {len(ss)} |")
out.append(f"| total | | {tot_ob} | {tot_mut} | {sum(1 for v in seeds.values() for s in v if s['detected_by'])} / {sum(len(v) for v in seeds.values())} |")
out.append("")
out.append("Clause texts (from the registry, as written into the evidence files):")
out.append("")
for c in man["checks"]:
    pid = c["property_id"]
    ev = json.load(open(f"{V}/evidence/{pid}.json"))
    for k, v in sorted(ev["coverage"].get("clauses", {}).items()):
        out.append(f"* `{k}` {v}")
out.append("")
out.append("Seeded changes and the rules that report them (`seeded/<id>/meta.json`; recomputed by `seeded/redetect.py`):")
out.append("")
out.append("| seeded change | what it does (one line) | needs, to manifest | reported by |")
out.append("|---|---|---|---|")
def one(s, n=150):
    s = re.sub(r"\s+", " ", s or "").strip()
    return (s[:n] + "…") if len(s) > n else s
for pid in sorted(seeds):
    for m in seeds[pid]:
        det = "; ".join(f"{d['check']}: {', '.join(d['rules'])}" for d in m["detected_by"]) or "**missed** — " + one(m.get("missed_reason", ""), 200)
        out.append(f"| {m['id']} | {one(m['summary'])} | {one(m['needs_to_manifest'], 120)} | {det} |")
txt = "\n".join(out)
p = V + "/DESIGN.md"
s = open(p).read()
a, b = "<!-- ASBUILT:BEGIN -->", "<!-- ASBUILT:END -->"
if a in s and b in s:
    s = s[:s.index(a) + len(a)] + "\n" + txt + "\n" + s[s.index(b):]
    open(p, "w").write(s)
    print("DESIGN.md updated")
else:
    print(txt)
