package main

import (
	"encoding/json"
	"fmt"
	"os"
	"os/exec"
	"path/filepath"
	"strings"
	"sync"
)

// A mutant is a source edit that breaks one clause while still type-checking. The self-test re-runs
// the property's rules on the working tree with the edit supplied through the loader's overlay
// (nothing is written under /repo) and requires the named rule to report a violation.
type mutant struct {
	Name   string `json:"name"`
	File   string `json:"file"` // relative to the repository root
	Old    string `json:"old"`
	New    string `json:"new"`
	Expect string `json:"expect"` // rule id that must fire
	Why    string `json:"why"`
	Silent bool   `json:"silent"` // behaviour-preserving or harmless edit: no rule may fire
}

type mutantResult struct {
	Name     string   `json:"name"`
	Expect   string   `json:"expect"`
	Outcome  string   `json:"outcome"` // detected | MISSED | skipped | broken
	Fired    []string `json:"fired,omitempty"`
	Detail   string   `json:"detail,omitempty"`
}

func loadMutants(verif, id string) ([]mutant, error) {
	b, err := os.ReadFile(filepath.Join(verif, "mutants", id+".json"))
	if err != nil {
		if os.IsNotExist(err) {
			return nil, nil
		}
		return nil, err
	}
	var ms []mutant
	if err := json.Unmarshal(b, &ms); err != nil {
		return nil, fmt.Errorf("mutants/%s.json: %v", id, err)
	}
	return ms, nil
}

func runMutants(id string, o runOpts) ([]mutantResult, bool) {
	ms, err := loadMutants(o.verif, id)
	if err != nil {
		fmt.Fprintln(os.Stderr, "zrcheck:", err)
		return nil, false
	}
	tmp := filepath.Join(o.verif, ".work", "mut-"+id)
	os.RemoveAll(tmp)
	os.MkdirAll(tmp, 0o755)
	defer os.RemoveAll(tmp)
	self, _ := os.Executable()
	results := make([]mutantResult, len(ms))
	sem := make(chan struct{}, 4)
	var wg sync.WaitGroup
	for i, m := range ms {
		wg.Add(1)
		go func(i int, m mutant) {
			defer wg.Done()
			sem <- struct{}{}
			defer func() { <-sem }()
			res := mutantResult{Name: m.Name, Expect: m.Expect}
			defer func() { results[i] = res }()
			src := filepath.Join(o.repo, m.File)
			b, err := os.ReadFile(src)
			if err != nil {
				res.Outcome, res.Detail = "skipped", err.Error()
				return
			}
			if n := strings.Count(string(b), m.Old); n != 1 {
				res.Outcome, res.Detail = "skipped", fmt.Sprintf("the fragment to edit occurs %d times in %s (the source changed); mutant not applicable", n, m.File)
				return
			}
			mf := filepath.Join(tmp, fmt.Sprintf("m%d.go", i))
			os.WriteFile(mf, []byte(strings.Replace(string(b), m.Old, m.New, 1)), 0o644)
			out := filepath.Join(tmp, fmt.Sprintf("m%d.json", i))
			cmd := exec.Command(self, "-repo", o.repo, "-verif", o.verif, "-no-evidence", "-json", out, "-overlay", src+"="+mf, "check", id, "quick")
			cmd.Env = append(os.Environ(), "ZR_MUTANT=1")
			cmb, _ := cmd.CombinedOutput()
			jb, err := os.ReadFile(out)
			if err != nil {
				res.Outcome, res.Detail = "broken", "no result (mutant does not type-check?): "+clipStr(string(cmb), 300)
				return
			}
			var obs []struct {
				Rule, Construct, Status string
			}
			json.Unmarshal(jb, &obs)
			hit := false
			for _, ob := range obs {
				if ob.Status == "VIOLATION" {
					res.Fired = append(res.Fired, ob.Rule+" "+ob.Construct)
					if ob.Rule == m.Expect {
						hit = true
					}
				}
			}
			if m.Silent {
				if len(res.Fired) == 0 && cmd.ProcessState.ExitCode() == 0 {
					res.Outcome = "silent (as required)"
				} else {
					res.Outcome = "MISSED"
					res.Detail = "a harmless edit raised an alarm: " + clipStr(string(cmb), 300)
				}
			} else if hit {
				res.Outcome = "detected"
			} else {
				res.Outcome = "MISSED"
				res.Detail = clipStr(string(cmb), 300)
			}
		}(i, m)
	}
	wg.Wait()
	ok := true
	for _, r := range results {
		fmt.Printf("  mutant %-40s expect %-8s %s %s\n", r.Name, r.Expect, r.Outcome, r.Detail)
		if r.Outcome == "MISSED" || r.Outcome == "broken" {
			ok = false
		}
	}
	return results, ok
}

func clipStr(s string, n int) string {
	if len(s) > n {
		return s[:n] + "…"
	}
	return s
}

// Seeded changes (/verif/seeded/<name>/patch.diff) are realistic property-breaking edits produced outside this
// tree and confirmed by a failing demonstration. Those whose meta.json names this check under detected_by are
// re-applied (through the overlay, nothing is written under /repo) on every thorough run; one of the named rules
// must fire.
type seedMeta struct {
	Property   string `json:"property"`
	DetectedBy []struct {
		Check string   `json:"check"`
		Rules []string `json:"rules"`
	} `json:"detected_by"`
}

func runSeeds(id string, o runOpts) ([]mutantResult, bool) {
	dirs, _ := filepath.Glob(filepath.Join(o.verif, "seeded", "*", "meta.json"))
	tmp := filepath.Join(o.verif, ".work", "seed-"+id)
	os.RemoveAll(tmp)
	defer os.RemoveAll(tmp)
	self, _ := os.Executable()
	type job struct {
		name  string
		dir   string
		rules []string
	}
	var jobs []job
	for _, mf := range dirs {
		b, err := os.ReadFile(mf)
		if err != nil {
			continue
		}
		var m seedMeta
		if json.Unmarshal(b, &m) != nil {
			continue
		}
		for _, d := range m.DetectedBy {
			if d.Check == id {
				jobs = append(jobs, job{filepath.Base(filepath.Dir(mf)), filepath.Dir(mf), d.Rules})
			}
		}
	}
	results := make([]mutantResult, len(jobs))
	sem := make(chan struct{}, 4)
	var wg sync.WaitGroup
	for i, j := range jobs {
		wg.Add(1)
		go func(i int, j job) {
			defer wg.Done()
			sem <- struct{}{}
			defer func() { <-sem }()
			res := mutantResult{Name: "seeded/" + j.name, Expect: strings.Join(j.rules, "|")}
			defer func() { results[i] = res }()
			pb, err := os.ReadFile(filepath.Join(j.dir, "patch.diff"))
			if err != nil {
				res.Outcome, res.Detail = "skipped", err.Error()
				return
			}
			work := filepath.Join(tmp, j.name)
			var files []string
			for _, ln := range strings.Split(string(pb), "\n") {
				if strings.HasPrefix(ln, "+++ b/") {
					files = append(files, strings.TrimSpace(strings.TrimPrefix(ln, "+++ b/")))
				}
			}
			for _, f := range files {
				os.MkdirAll(filepath.Dir(filepath.Join(work, f)), 0o755)
				if sb, err := os.ReadFile(filepath.Join(o.repo, f)); err == nil {
					os.WriteFile(filepath.Join(work, f), sb, 0o644)
				}
			}
			pc := exec.Command("patch", "-p1", "-s", "-f", "-d", work, "-i", filepath.Join(j.dir, "patch.diff"))
			if out, err := pc.CombinedOutput(); err != nil {
				res.Outcome, res.Detail = "skipped", "the seeded patch no longer applies (the source changed): "+clipStr(string(out), 160)
				return
			}
			out := filepath.Join(work, "result.json")
			args := []string{"-repo", o.repo, "-verif", o.verif, "-no-evidence", "-json", out}
			for _, f := range files {
				args = append(args, "-overlay", filepath.Join(o.repo, f)+"="+filepath.Join(work, f))
			}
			args = append(args, "check", id, "quick")
			cmd := exec.Command(self, args...)
			cmd.Env = append(os.Environ(), "ZR_MUTANT=1")
			cmb, _ := cmd.CombinedOutput()
			jb, err := os.ReadFile(out)
			if err != nil {
				res.Outcome, res.Detail = "broken", "no result: "+clipStr(string(cmb), 300)
				return
			}
			var obs []struct {
				Rule, Construct, Status string
			}
			json.Unmarshal(jb, &obs)
			hit := false
			for _, ob := range obs {
				if ob.Status == "VIOLATION" {
					res.Fired = append(res.Fired, ob.Rule+" "+ob.Construct)
					for _, want := range j.rules {
						if ob.Rule == want {
							hit = true
						}
					}
				}
			}
			if hit {
				res.Outcome = "detected"
			} else {
				res.Outcome, res.Detail = "MISSED", clipStr(string(cmb), 300)
			}
		}(i, j)
	}
	wg.Wait()
	ok := true
	for _, r := range results {
		fmt.Printf("  %-47s expect %-8s %s %s\n", r.Name, r.Expect, r.Outcome, r.Detail)
		if r.Outcome == "MISSED" || r.Outcome == "broken" {
			ok = false
		}
	}
	return results, ok
}
