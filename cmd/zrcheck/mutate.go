package main

import (
	"encoding/json"
	"fmt"
	"os"
	"os/exec"
	"path/filepath"
	"strings"
	"sync"
)

// A mutant is a source edit that breaks one clause while still type-checking. The self-test re-runs
// the property's rules on the working tree with the edit supplied through the loader's overlay
// (nothing is written under /repo) and requires the named rule to report a violation.
type mutant struct {
	Name   string `json:"name"`
	File   string `json:"file"` // relative to the repository root
	Old    string `json:"old"`
	New    string `json:"new"`
	Expect string `json:"expect"` // rule id that must fire
	Why    string `json:"why"`
	Silent bool   `json:"silent"` // behaviour-preserving or harmless edit: no rule may fire
}

type mutantResult struct {
	Name     string   `json:"name"`
	Expect   string   `json:"expect"`
	Outcome  string   `json:"outcome"` // detected | MISSED | skipped | broken
	Fired    []string `json:"fired,omitempty"`
	Detail   string   `json:"detail,omitempty"`
}

func loadMutants(verif, id string) ([]mutant, error) {
	b, err := os.ReadFile(filepath.Join(verif, "mutants", id+".json"))
	if err != nil {
		if os.IsNotExist(err) {
			return nil, nil
		}
		return nil, err
	}
	var ms []mutant
	if err := json.Unmarshal(b, &ms); err != nil {
		return nil, fmt.Errorf("mutants/%s.json: %v", id, err)
	}
	return ms, nil
}

func runMutants(id string, o runOpts) ([]mutantResult, bool) {
	ms, err := loadMutants(o.verif, id)
	if err != nil {
		fmt.Fprintln(os.Stderr, "zrcheck:", err)
		return nil, false
	}
	tmp := filepath.Join(o.verif, ".work", "mut-"+id)
	os.RemoveAll(tmp)
	os.MkdirAll(tmp, 0o755)
	defer os.RemoveAll(tmp)
	self, _ := os.Executable()
	results := make([]mutantResult, len(ms))
	sem := make(chan struct{}, 4)
	var wg sync.WaitGroup
	for i, m := range ms {
		wg.Add(1)
		go func(i int, m mutant) {
			defer wg.Done()
			sem <- struct{}{}
			defer func() { <-sem }()
			res := mutantResult{Name: m.Name, Expect: m.Expect}
			defer func() { results[i] = res }()
			src := filepath.Join(o.repo, m.File)
			b, err := os.ReadFile(src)
			if err != nil {
				res.Outcome, res.Detail = "skipped", err.Error()
				return
			}
			if n := strings.Count(string(b), m.Old); n != 1 {
				res.Outcome, res.Detail = "skipped", fmt.Sprintf("the fragment to edit occurs %d times in %s (the source changed); mutant not applicable", n, m.File)
				return
			}
			mf := filepath.Join(tmp, fmt.Sprintf("m%d.go", i))
			os.WriteFile(mf, []byte(strings.Replace(string(b), m.Old, m.New, 1)), 0o644)
			out := filepath.Join(tmp, fmt.Sprintf("m%d.json", i))
			cmd := exec.Command(self, "-repo", o.repo, "-verif", o.verif, "-no-evidence", "-json", out, "-overlay", src+"="+mf, "check", id, "quick")
			cmd.Env = append(os.Environ(), "ZR_MUTANT=1")
			cmb, _ := cmd.CombinedOutput()
			jb, err := os.ReadFile(out)
			if err != nil {
				res.Outcome, res.Detail = "broken", "no result (mutant does not type-check?): "+clipStr(string(cmb), 300)
				return
			}
			var obs []struct {
				Rule, Construct, Status string
			}
			json.Unmarshal(jb, &obs)
			hit := false
			for _, ob := range obs {
				if ob.Status == "VIOLATION" {
					res.Fired = append(res.Fired, ob.Rule+" "+ob.Construct)
					if ob.Rule == m.Expect {
						hit = true
					}
				}
			}
			if m.Silent {
				if len(res.Fired) == 0 && cmd.ProcessState.ExitCode() == 0 {
					res.Outcome = "silent (as required)"
				} else {
					res.Outcome = "MISSED"
					res.Detail = "a harmless edit raised an alarm: " + clipStr(string(cmb), 300)
				}
			} else if hit {
				res.Outcome = "detected"
			} else {
				res.Outcome = "MISSED"
				res.Detail = clipStr(string(cmb), 300)
			}
		}(i, m)
	}
	wg.Wait()
	ok := true
	for _, r := range results {
		fmt.Printf("  mutant %-40s expect %-8s %s %s\n", r.Name, r.Expect, r.Outcome, r.Detail)
		if r.Outcome == "MISSED" || r.Outcome == "broken" {
			ok = false
		}
	}
	return results, ok
}

func clipStr(s string, n int) string {
	if len(s) > n {
		return s[:n] + "…"
	}
	return s
}
