// zrcheck decides the structural clauses of the ZanRedisDB properties from /repo's current source.
package main

import (
	"flag"
	"fmt"
	"os"

	"verif/internal/an"
	"verif/internal/load"
)

func main() {
	repo := flag.String("repo", "/repo", "repository root")
	verif := flag.String("verif", "/verif", "verification root")
	noEv := flag.Bool("no-evidence", false, "do not write evidence files")
	verbose := flag.Bool("v", false, "print every obligation")
	jsonOut := flag.String("json", "", "write all obligations to this file")
	var overlays multiFlag
	flag.Var(&overlays, "overlay", "<repo file>=<replacement file> (mutation self-test)")
	flag.Parse()
	args := flag.Args()
	if len(args) == 0 {
		fmt.Fprintln(os.Stderr, "usage: zrcheck dump <func> [filter] | check <Cxx> <quick|thorough>")
		os.Exit(2)
	}
	switch args[0] {
	case "dump":
		p, err := load.Load(load.Config{Repo: *repo, VerifDir: *verif})
		if err != nil {
			fmt.Fprintln(os.Stderr, "load:", err)
			os.Exit(2)
		}
		w := an.NewWorld(p)
		f := ""
		if len(args) > 2 {
			f = args[2]
		}
		if err := dump(w, args[1], f); err != nil {
			fmt.Fprintln(os.Stderr, err)
			os.Exit(2)
		}
	case "candidates":
		p, err := load.Load(load.Config{Repo: *repo, VerifDir: *verif})
		if err != nil {
			fmt.Fprintln(os.Stderr, "load:", err)
			os.Exit(2)
		}
		pk := "rockredis"
		if len(args) > 1 {
			pk = args[1]
		}
		listDecoderCandidates(p, pk)
	case "vocab":
		// regenerate vocab.json: the signatures of the locals of every function the rule tables look into
		if err := writeVocab(*repo, *verif); err != nil {
			fmt.Fprintln(os.Stderr, err)
			os.Exit(2)
		}
	case "manifest":
		if err := writeManifest(*verif); err != nil {
			fmt.Fprintln(os.Stderr, err)
			os.Exit(2)
		}
	case "warm":
		if _, err := load.Load(load.Config{Repo: *repo, VerifDir: *verif}); err != nil {
			fmt.Fprintln(os.Stderr, "load:", err)
			os.Exit(2)
		}
		fmt.Println("warm: ok")
	case "replay":
		// re-run the property and print the obligation recorded in the replay file
		if len(args) < 3 {
			fmt.Fprintln(os.Stderr, "usage: zrcheck replay <Cxx> <file>")
			os.Exit(2)
		}
		b, err := os.ReadFile(args[2])
		if err == nil {
			fmt.Printf("recorded obligation:\n%s\n", b)
		}
		os.Exit(runCheck(args[1], "quick", runOpts{repo: *repo, verif: *verif, noEvidence: true, verbose: false}))
	case "check":
		if len(args) < 3 {
			fmt.Fprintln(os.Stderr, "usage: zrcheck check <Cxx> <quick|thorough>")
			os.Exit(2)
		}
		os.Exit(runCheck(args[1], args[2], runOpts{repo: *repo, verif: *verif, overlays: overlays, noEvidence: *noEv, verbose: *verbose, jsonOut: *jsonOut}))
	default:
		fmt.Fprintln(os.Stderr, "unknown command", args[0])
		os.Exit(2)
	}
}

type multiFlag []string

func (m *multiFlag) String() string     { return fmt.Sprint(*m) }
func (m *multiFlag) Set(s string) error { *m = append(*m, s); return nil }
