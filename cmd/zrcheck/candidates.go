package main

import (
	"fmt"
	"go/ast"
	"go/types"
	"sort"
	"strings"

	"verif/internal/load"
)

// listDecoderCandidates is a rule-authoring aid: functions of a package that index a []byte parameter with constant
// bounds without mentioning len(param) themselves.
func listDecoderCandidates(p *load.Program, pkgShort string) {
	var out []string
	for _, fn := range p.Funcs() {
		if load.ShortPkg(fn.Pkg.PkgPath) != pkgShort || fn.Decl.Body == nil || strings.HasSuffix(p.Fset.Position(fn.Decl.Pos()).Filename, "_test.go") {
			continue
		}
		info := fn.Pkg.TypesInfo
		sig, ok := info.ObjectOf(fn.Decl.Name).Type().(*types.Signature)
		if !ok {
			continue
		}
		for i := 0; i < sig.Params().Len(); i++ {
			po := sig.Params().At(i)
			sl, ok := po.Type().Underlying().(*types.Slice)
			if !ok {
				continue
			}
			if b, ok := sl.Elem().Underlying().(*types.Basic); !ok || b.Kind() != types.Uint8 {
				continue
			}
			constIdx, lenSeen := 0, false
			ast.Inspect(fn.Decl.Body, func(n ast.Node) bool {
				switch x := n.(type) {
				case *ast.CallExpr:
					if id, ok := x.Fun.(*ast.Ident); ok && id.Name == "len" && len(x.Args) == 1 {
						if a, ok := ast.Unparen(x.Args[0]).(*ast.Ident); ok && info.ObjectOf(a) == po {
							lenSeen = true
						}
					}
				case *ast.IndexExpr:
					if a, ok := ast.Unparen(x.X).(*ast.Ident); ok && info.ObjectOf(a) == po {
						constIdx++
					}
				case *ast.SliceExpr:
					if a, ok := ast.Unparen(x.X).(*ast.Ident); ok && info.ObjectOf(a) == po {
						for _, b := range []ast.Expr{x.Low, x.High} {
							if b != nil {
								constIdx++
							}
						}
					}
				}
				return true
			})
			if constIdx > 0 && !lenSeen {
				out = append(out, fmt.Sprintf("%s param %d (%s): %d constant bounds, no len() test", fn.Name, i, po.Name(), constIdx))
			}
		}
	}
	sort.Strings(out)
	for _, l := range out {
		fmt.Println(l)
	}
}
