package main

import (
	"encoding/json"
	"fmt"
	"os"
	"path/filepath"
	"sort"

	"verif/internal/an"
	"verif/internal/load"
	"verif/props"
)

// writeVocab runs every registered property once (verdicts ignored) to learn which functions the rule tables look
// into, and records the signatures of their locals in vocab.json. It is run by hand after rule tables change and
// committed; checks only read it.
func writeVocab(repo, verif string) error {
	p, err := load.Load(load.Config{Repo: repo, VerifDir: verif})
	if err != nil {
		return err
	}
	w := an.NewWorld(p)
	for _, id := range props.IDs() {
		prop := props.Get(id)
		if prop == nil || prop.Run == nil {
			continue
		}
		func() {
			defer func() { recover() }()
			prop.Run(&props.Ctx{P: p, W: w, R: an.NewReport(id), Tier: "quick"})
		}()
	}
	snap := an.VocabSnapshot{}
	for _, name := range w.UnitNames() {
		fn := p.Func(name)
		if fn == nil || fn.Decl.Body == nil {
			continue
		}
		e := an.SnapshotOf(fn.Pkg.TypesInfo, fn.Decl.Recv, fn.Decl.Type, fn.Decl.Body)
		if len(e) > 0 {
			snap[name] = e
		}
	}
	var all []an.VocabEntry
	for _, f := range p.Funcs() {
		all = append(all, an.VocabEntry{N: f.Name})
	}
	snap[an.FunctionsKey] = all
	// deterministic output
	names := make([]string, 0, len(snap))
	for n := range snap {
		names = append(names, n)
	}
	sort.Strings(names)
	b, err := json.MarshalIndent(snap, "", " ")
	if err != nil {
		return err
	}
	if err := os.WriteFile(filepath.Join(verif, "vocab.json"), append(b, '\n'), 0o644); err != nil {
		return err
	}
	fmt.Printf("vocab.json: %d functions\n", len(names))
	return nil
}
