package main

import (
	"encoding/json"
	"fmt"
	"os"
	"path/filepath"
	"sort"

	"verif/props"
)

func writeManifest(verif string) error {
	type level struct {
		Category  string `json:"category"`
		Text      string `json:"text"`
		DesignRef string `json:"design_ref"`
	}
	type check struct {
		PropertyID  string `json:"property_id"`
		Quick       string `json:"quick_cmd"`
		Thorough    string `json:"thorough_cmd"`
		Evidence    string `json:"evidence_file"`
		Replay      string `json:"replay_cmd_template"`
		Engine      string `json:"engine"`
		Level       level  `json:"level_claimed"`
		LevelNote   string `json:"level_note"`
		Technique   string `json:"technique"`
	}
	type na struct {
		PropertyID string `json:"property_id"`
		Reason     string `json:"reason"`
	}
	var checks []check
	var served []string
	for _, id := range props.IDs() {
		p := props.Get(id)
		served = append(served, id)
		checks = append(checks, check{
			PropertyID: id,
			Quick:      "./check " + id + " quick",
			Thorough:   "./check " + id + " thorough",
			Evidence:   "/verif/evidence/" + id + ".json",
			Replay:     "./check " + id + " replay {path}",
			Engine:     "zrcheck",
			Level: level{Category: "other",
				Text:      "Static analysis of /repo's current source: decides structural necessary conditions of the property on every path of the named constructs, not the behaviour itself. " + p.Explanation,
				DesignRef: "DESIGN.md section 4, " + id},
			LevelNote: "NOT decided: " + p.NotDecided + " Trusted base: go/types, go/packages, go/ssa, the labelled-CFG/truth-table engines in /verif/internal, the generated signature-only stub of the gorocksdb cgo binding, the rule tables in /verif/props.",
			Technique: p.Technique,
		})
	}
	var nas []na
	for id, r := range props.NotApplicable {
		if props.Get(id) != nil {
			return fmt.Errorf("%s is both registered and listed not applicable", id)
		}
		nas = append(nas, na{id, r})
	}
	for id, r := range props.Pending {
		if props.Get(id) == nil {
			nas = append(nas, na{id, r})
		}
	}
	sort.Slice(nas, func(i, j int) bool { return nas[i].PropertyID < nas[j].PropertyID })
	m := map[string]interface{}{
		"version":   1,
		"setup_cmd": "./setup.sh",
		"hooks": map[string]interface{}{
			"guard":            "verif",
			"enable":           "not used: the static checks read /repo's source as it is; no hooks or instrumentation were added to /repo",
			"baseline_off_cmd": "for m in $(cat /w/out/gomods.txt); do MF=$(cd /repo/$m && . /w/out/goenv.sh && gomodflag); (cd /repo/$m && go test $MF -json -vet=off -count=1 -timeout 25m ./...); done",
			"source_commits":   []string{},
			"add_only":         true,
		},
		"engines": []map[string]interface{}{{
			"name": "zrcheck", "path": "/verif/cmd/zrcheck", "serves_properties": served,
			"kind_free_text": "repository-specific static analyser (go/packages + own labelled CFG with path conditions decided by truth table; go/ssa value-flow analyses) driven by per-property rule tables in /verif/props",
		}},
		"checks":         checks,
		"not_applicable": nas,
		"notes":          "All claims are at level `other`: structural necessary conditions decided from source on every run; see DESIGN.md. Exit 2 (undecided / unresolved anchor / load failure) means the check is broken and gives no verdict; it is never reported as a violation.",
	}
	b, err := json.MarshalIndent(m, "", " ")
	if err != nil {
		return err
	}
	return os.WriteFile(filepath.Join(verif, "MANIFEST.json"), append(b, '\n'), 0o644)
}
