package main

import (
	"fmt"
	"strings"

	"verif/internal/an"
)

// dump prints every site of a function with its path condition: the rule-authoring aid.
func dump(w *an.World, name string, filter string) error {
	u, err := w.Unit(name)
	if err != nil {
		return err
	}
	units := append([]*an.Unit{u}, u.Lits()...)
	for _, u := range units {
		fmt.Printf("== %s  (%d blocks, %d sites)\n", u.Name, len(u.G.Blocks), len(u.Sites))
		for _, s := range u.Sites {
			if !s.Block.Reachable() {
				continue
			}
			str := u.SiteString(s)
			if filter != "" && !strings.Contains(str, filter) {
				continue
			}
			fmt.Printf("  %-18s b%-3d %s\n      pc: %s\n", u.Pos(s.Pos), s.Block.Index, str, u.SitePC(s))
		}
	}
	return nil
}
