package main

import (
	"encoding/json"
	"fmt"
	"os"
	"path/filepath"
	"regexp"
	"sort"
	"strconv"
	"strings"
	"time"

	"verif/internal/an"
	"verif/internal/load"
	"verif/props"
)

type knownFinding struct {
	Property  string `json:"property"`
	Rule      string `json:"rule"`
	Construct string `json:"construct"` // regular expression on the obligation's construct
	What      string `json:"what_fails"`
	Witness   string `json:"witness,omitempty"`
	Status    string `json:"status"` // "open" suppresses; "fixed" suppresses nothing
	Commit    string `json:"commit,omitempty"`
}

type knownFile struct {
	Findings []knownFinding `json:"findings"`
	Fixed    []string       `json:"fixed_log"`
}

func loadKnown(verif string) ([]knownFinding, error) {
	b, err := os.ReadFile(filepath.Join(verif, "known_findings.json"))
	if err != nil {
		if os.IsNotExist(err) {
			return nil, nil
		}
		return nil, err
	}
	var kf knownFile
	if err := json.Unmarshal(b, &kf); err != nil {
		return nil, fmt.Errorf("known_findings.json: %v", err)
	}
	return kf.Findings, nil
}

type overlayFlag map[string][]byte

func parseOverlays(specs []string) (map[string][]byte, error) {
	if len(specs) == 0 {
		return nil, nil
	}
	ov := map[string][]byte{}
	for _, s := range specs {
		i := strings.Index(s, "=")
		if i < 0 {
			return nil, fmt.Errorf("overlay %q: want <file>=<replacement file>", s)
		}
		b, err := os.ReadFile(s[i+1:])
		if err != nil {
			return nil, err
		}
		ov[s[:i]] = b
	}
	return ov, nil
}

type runOpts struct {
	repo, verif string
	overlays    []string
	noEvidence  bool
	verbose     bool
	jsonOut     string // write the full obligation list here (used by the mutation self-test)
}

// runCheck returns the process exit code.
func runCheck(id, tier string, o runOpts) int {
	t0 := time.Now()
	prop := props.Get(id)
	if prop == nil {
		fmt.Fprintf(os.Stderr, "zrcheck: no check registered for %s\n", id)
		return 2
	}
	ov, err := parseOverlays(o.overlays)
	if err != nil {
		fmt.Fprintln(os.Stderr, "zrcheck:", err)
		return 2
	}
	p, err := load.Load(load.Config{Repo: o.repo, VerifDir: o.verif, Overlay: ov, AllSyntax: prop.NeedAll})
	if err != nil {
		fmt.Fprintln(os.Stderr, "zrcheck: load failed (no verdict):", err)
		return 2
	}
	if prop.NeedSSA {
		p.BuildSSA()
	}
	w := an.NewWorld(p)
	w.Vocab = an.LoadVocab(filepath.Join(o.verif, "vocab.json"))
	rep := an.NewReport(id)
	ctx := &props.Ctx{P: p, W: w, R: rep, Tier: tier}
	func() {
		defer func() {
			if e := recover(); e != nil {
				rep.Unknown(id+"-PANIC", "checker panic", "", fmt.Sprint(e))
				if os.Getenv("ZR_DEBUG") != "" {
					panic(e)
				}
			}
		}()
		prop.Run(ctx)
	}()

	// second reading: obligations that fail with helper predicates opaque are decided again with the helpers'
	// bodies in place of the calls (equivalent conditions); holding under either reading is holding. (Reading helpers
	// the rule tables know in place of their *statement* calls as well was tried and dropped: it changes the terms that
	// term-comparing rules look at, and four recorded detections were discharged by it.)
	if len(rep.ByStatus(an.Violation))+len(rep.ByStatus(an.Undecided)) > 0 {
		w2 := an.NewWorld(p)
		w2.Vocab = w.Vocab
		w2.InlinePreds = true
		rep2 := an.NewReport(id)
		func() {
			defer func() { recover() }()
			prop.Run(&props.Ctx{P: p, W: w2, R: rep2, Tier: tier})
		}()
		second := map[string]*an.Obligation{}
		for _, ob := range rep2.Obligations {
			second[ob.Key()] = ob
		}
		n := 0
		for _, ob := range rep.Obligations {
			if ob.St() != an.Violation && ob.St() != an.Undecided {
				continue
			}
			if ob2 := second[ob.Key()]; ob2 != nil && ob2.St() == an.OK {
				ob.Discharge("holds with helpers read in place of their calls. " + ob2.Detail)
				n++
			}
		}
		if n > 0 {
			rep.Note("%d obligation(s) decided on the second reading (helpers read in place of their calls)", n)
		}
	}
	for _, rn := range w.Renamed {
		rep.Note("renamed local recognised: %s", rn)
	}
	for _, sp := range w.Spliced {
		rep.Note("new helper read in place of its call: %s", sp)
	}
	known, err := loadKnown(o.verif)
	if err != nil {
		fmt.Fprintln(os.Stderr, "zrcheck:", err)
		return 2
	}
	exit := 0
	var knownHit []string
	var unlisted []*an.Obligation
	for _, ob := range rep.ByStatus(an.Violation) {
		matched := false
		for _, k := range known {
			if k.Property != id || k.Status != "open" || k.Rule != ob.Rule {
				continue
			}
			re, err := regexp.Compile(k.Construct)
			if err != nil {
				fmt.Fprintf(os.Stderr, "zrcheck: known_findings.json: bad construct regexp %q\n", k.Construct)
				return 2
			}
			if re.MatchString(ob.Construct) {
				matched = true
				knownHit = append(knownHit, fmt.Sprintf("KNOWN-FINDING: property=%s %s %s — %s", id, ob.Rule, ob.Construct, k.What))
				break
			}
		}
		if !matched {
			unlisted = append(unlisted, ob)
		}
	}
	sort.Strings(knownHit)
	for _, l := range knownHit {
		fmt.Println(l)
	}
	evDir := filepath.Join(o.verif, "evidence")
	if !o.noEvidence {
		os.MkdirAll(evDir, 0o755)
		old, _ := filepath.Glob(filepath.Join(evDir, id+".violation-*.json"))
		for _, f := range old {
			os.Remove(f)
		}
	}
	for i, ob := range unlisted {
		path := filepath.Join(evDir, fmt.Sprintf("%s.violation-%d.json", id, i+1))
		if !o.noEvidence {
			b, _ := json.MarshalIndent(ob, "", " ")
			os.WriteFile(path, b, 0o644)
		}
		fmt.Printf("VIOLATION property=%s replay=%s\n", id, path)
		fmt.Printf("  rule %s  %s\n  at %s\n  %s\n", ob.Rule, ob.Construct, ob.Pos, ob.Detail)
		exit = 1
	}
	und := rep.ByStatus(an.Undecided)
	for _, ob := range und {
		fmt.Fprintf(os.Stderr, "UNDECIDED %s %s: %s %s\n", ob.Rule, ob.Construct, ob.Pos, ob.Detail)
	}
	if len(und) > 0 && exit == 0 {
		exit = 2 // a check that cannot decide is broken; this is never reported as a violation
	}
	var mres []mutantResult
	if tier == "thorough" && os.Getenv("ZR_MUTANT") == "" {
		var ok bool
		mres, ok = runMutants(id, o)
		if !ok {
			fmt.Fprintln(os.Stderr, "zrcheck: mutation self-test failed: a registered mutant was not detected; the check cannot see its own target")
			if exit == 0 {
				exit = 2
			}
		}
		sres, sok := runSeeds(id, o)
		mres = append(mres, sres...)
		if !sok {
			fmt.Fprintln(os.Stderr, "zrcheck: seeded-change self-test failed: a seeded change recorded as detected by this check was not detected")
			if exit == 0 {
				exit = 2
			}
		}
	}
	wall := time.Since(t0).Seconds()
	if o.verbose {
		for _, ob := range rep.Obligations {
			fmt.Printf("  [%s] %s | %s | %s | %s\n", ob.Status, ob.Rule, ob.Construct, ob.Pos, ob.Detail)
		}
	}
	if o.jsonOut != "" {
		b, _ := json.MarshalIndent(rep.Obligations, "", " ")
		os.WriteFile(o.jsonOut, b, 0o644)
	}
	if !o.noEvidence {
		if err := writeEvidence(evDir, prop, rep, p, tier, wall, len(unlisted), knownHit, mres); err != nil {
			fmt.Fprintln(os.Stderr, "zrcheck: evidence:", err)
			return 2
		}
	}
	fmt.Printf("%s %s: %d obligations, %d discharged, %d known findings, %d violations, %d undecided, %.1fs\n",
		id, tier, len(rep.Obligations), rep.Count(an.OK), len(knownHit), len(unlisted), len(und), wall)
	return exit
}

func writeEvidence(dir string, prop *props.Property, rep *an.Report, p *load.Program, tier string, wall float64, nviol int, known []string, mres []mutantResult) error {
	seed := 0
	if s := os.Getenv("VERIF_SEED"); s != "" {
		seed, _ = strconv.Atoi(s)
	}
	distinct := map[string]bool{}
	rules := map[string]int{}
	for _, ob := range rep.Obligations {
		distinct[ob.Key()] = true
		rules[ob.Rule]++
	}
	var samples []interface{}
	seenRule := map[string]int{}
	for _, ob := range rep.Obligations {
		if seenRule[ob.Rule] >= 2 {
			continue
		}
		seenRule[ob.Rule]++
		samples = append(samples, ob)
	}
	clauses := map[string]string{}
	for _, id := range rep.ClauseOrder() {
		clauses[id] = rep.Clauses[id]
	}
	cov := map[string]interface{}{
		"explanation":         prop.Explanation + " NOT DECIDED: " + prop.NotDecided,
		"obligations":         len(rep.Obligations),
		"discharged":          rep.Count(an.OK),
		"evaluations":         len(rep.Obligations),
		"distinct_nontrivial": len(distinct),
		"rule":                "one obligation per (rule, construct) instance found in /repo's current source by the analyses named in `technique`; every instance is distinct by construction and non-trivial (it names a resolved site and a decided condition)",
		"samples":             samples,
		"obligations_per_rule": rules,
		"clauses":             clauses,
		"packages_loaded":     len(p.Pkgs),
		"module_functions":    len(p.Funcs()),
		"technique":           prop.Technique,
		"known_findings":      known,
		"notes":               rep.Notes,
		"all_obligations":     rep.Obligations,
		"mutation_self_test":  mres,
		"checker_cmd":         "/verif/check " + prop.ID + " " + tier,
		"trusted_base":        []string{"go/types", "golang.org/x/tools/go/packages", "golang.org/x/tools/go/ssa", "/verif/internal/flow (labelled CFG, dominators, truth table)", "/verif/cmd/stubgen (signatures of the cgo binding only)", "rule tables in /verif/props"},
	}
	ev := map[string]interface{}{
		"property_id": prop.ID,
		"tier":        tier,
		"seed":        seed,
		"level":       "other",
		"coverage":    cov,
		"assumptions": prop.Assumptions,
		"wall_s":      wall,
		"violations":  nviol,
	}
	b, err := json.MarshalIndent(ev, "", " ")
	if err != nil {
		return err
	}
	return os.WriteFile(filepath.Join(dir, prop.ID+".json"), b, 0o644)
}
