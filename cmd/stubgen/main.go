// stubgen writes a pure-Go, signature-preserving stub of a cgo package
// (github.com/youzan/gorocksdb) so that the whole of /repo type-checks offline.
//
// usage: stubgen <srcdir> <dstdir> <modulepath>
//
// Rules: `import "C"` is dropped; the body of every function that mentions `C.` becomes
// panic("cgo stub"); every remaining C.x in a type position becomes the generated type _Ctype_x
// (uintptr); every remaining C.x in a value position becomes a numbered untyped constant;
// imports that are no longer referenced are pruned. Test files are skipped.
package main

import (
	"bytes"
	"fmt"
	"go/ast"
	"go/format"
	"go/parser"
	"go/token"
	"os"
	"path/filepath"
	"sort"
	"strconv"
	"strings"
)

func mentionsC(n ast.Node) bool {
	found := false
	ast.Inspect(n, func(n ast.Node) bool {
		if se, ok := n.(*ast.SelectorExpr); ok {
			if id, ok := se.X.(*ast.Ident); ok && id.Name == "C" {
				found = true
			}
		}
		return !found
	})
	return found
}

func main() {
	if len(os.Args) != 4 {
		fmt.Fprintln(os.Stderr, "usage: stubgen <srcdir> <dstdir> <modulepath>")
		os.Exit(2)
	}
	src, dst, mod := os.Args[1], os.Args[2], os.Args[3]
	if err := os.RemoveAll(dst); err != nil {
		die(err)
	}
	if err := os.MkdirAll(dst, 0o755); err != nil {
		die(err)
	}
	ents, err := os.ReadDir(src)
	if err != nil {
		die(err)
	}
	ctypes := map[string]bool{}
	cvals := map[string]int{}
	pkgName := ""
	nfiles := 0
	for _, e := range ents {
		name := e.Name()
		if !strings.HasSuffix(name, ".go") || strings.HasSuffix(name, "_test.go") {
			continue
		}
		fset := token.NewFileSet()
		f, err := parser.ParseFile(fset, filepath.Join(src, name), nil, 0) // comments dropped on purpose (cgo preamble, //export)
		if err != nil {
			die(err)
		}
		pkgName = f.Name.Name
		// 1. bodies
		for _, d := range f.Decls {
			fd, ok := d.(*ast.FuncDecl)
			if !ok || fd.Body == nil {
				continue
			}
			if mentionsC(fd.Body) {
				fd.Body = &ast.BlockStmt{List: []ast.Stmt{&ast.ExprStmt{X: &ast.CallExpr{
					Fun:  ast.NewIdent("panic"),
					Args: []ast.Expr{&ast.BasicLit{Kind: token.STRING, Value: strconv.Quote("cgo stub")}},
				}}}}
			}
		}
		// 2. remaining C.x: value position inside top-level var/const values, type position elsewhere
		rewrite := func(root ast.Node, value bool) {
			var visit func(n ast.Node) bool
			replace := func(e ast.Expr) ast.Expr {
				se, ok := e.(*ast.SelectorExpr)
				if !ok {
					return e
				}
				id, ok := se.X.(*ast.Ident)
				if !ok || id.Name != "C" {
					return e
				}
				if value {
					if _, ok := cvals[se.Sel.Name]; !ok {
						cvals[se.Sel.Name] = len(cvals) + 1
					}
					return ast.NewIdent("_Cconst_" + se.Sel.Name)
				}
				ctypes[se.Sel.Name] = true
				return ast.NewIdent("_Ctype_" + se.Sel.Name)
			}
			visit = func(n ast.Node) bool {
				switch x := n.(type) {
				case *ast.StarExpr:
					x.X = replace(x.X)
				case *ast.Field:
					x.Type = replace(x.Type)
				case *ast.ArrayType:
					x.Elt = replace(x.Elt)
				case *ast.MapType:
					x.Key = replace(x.Key)
					x.Value = replace(x.Value)
				case *ast.ValueSpec:
					if x.Type != nil {
						x.Type = replace(x.Type)
					}
					for i := range x.Values {
						x.Values[i] = replace(x.Values[i])
					}
				case *ast.TypeSpec:
					x.Type = replace(x.Type)
				case *ast.CallExpr:
					x.Fun = replace(x.Fun)
					for i := range x.Args {
						x.Args[i] = replace(x.Args[i])
					}
				case *ast.BinaryExpr:
					x.X = replace(x.X)
					x.Y = replace(x.Y)
				case *ast.UnaryExpr:
					x.X = replace(x.X)
				case *ast.ParenExpr:
					x.X = replace(x.X)
				case *ast.CompositeLit:
					if x.Type != nil {
						x.Type = replace(x.Type)
					}
				case *ast.Ellipsis:
					if x.Elt != nil {
						x.Elt = replace(x.Elt)
					}
				case *ast.ChanType:
					x.Value = replace(x.Value)
				}
				return true
			}
			ast.Inspect(root, visit)
		}
		var decls []ast.Decl
		for _, d := range f.Decls {
			switch x := d.(type) {
			case *ast.GenDecl:
				if x.Tok == token.IMPORT {
					var specs []ast.Spec
					for _, s := range x.Specs {
						if s.(*ast.ImportSpec).Path.Value != `"C"` {
							specs = append(specs, s)
						}
					}
					if len(specs) == 0 {
						continue
					}
					x.Specs = specs
				} else if x.Tok == token.VAR || x.Tok == token.CONST {
					for _, s := range x.Specs {
						vs := s.(*ast.ValueSpec)
						if vs.Type != nil {
							tmp := &ast.Field{Type: vs.Type}
							rewrite(tmp, false)
							vs.Type = tmp.Type
						}
						for i := range vs.Values {
							tmp := &ast.ParenExpr{X: vs.Values[i]}
							rewrite(tmp, true)
							vs.Values[i] = tmp.X
						}
					}
				} else {
					rewrite(x, false)
				}
			case *ast.FuncDecl:
				if x.Recv != nil {
					rewrite(x.Recv, false)
				}
				rewrite(x.Type, false)
				if x.Body != nil && mentionsC(x.Body) {
					die(fmt.Errorf("%s: body of %s still mentions C", name, x.Name.Name))
				}
			}
			decls = append(decls, d)
		}
		f.Decls = decls
		// 3. prune unused imports
		used := map[string]bool{}
		ast.Inspect(f, func(n ast.Node) bool {
			if se, ok := n.(*ast.SelectorExpr); ok {
				if id, ok := se.X.(*ast.Ident); ok {
					used[id.Name] = true
				}
			}
			return true
		})
		var decls2 []ast.Decl
		for _, d := range f.Decls {
			gd, ok := d.(*ast.GenDecl)
			if !ok || gd.Tok != token.IMPORT {
				decls2 = append(decls2, d)
				continue
			}
			var specs []ast.Spec
			for _, s := range gd.Specs {
				is := s.(*ast.ImportSpec)
				p, _ := strconv.Unquote(is.Path.Value)
				nm := filepath.Base(p)
				if is.Name != nil {
					nm = is.Name.Name
				}
				if used[nm] || nm == "_" {
					specs = append(specs, s)
				}
			}
			if len(specs) > 0 {
				gd.Specs = specs
				decls2 = append(decls2, gd)
			}
		}
		f.Decls = decls2
		f.Imports = nil
		f.Comments = nil
		var buf bytes.Buffer
		if err := format.Node(&buf, fset, f); err != nil {
			die(fmt.Errorf("%s: %v", name, err))
		}
		if err := os.WriteFile(filepath.Join(dst, name), buf.Bytes(), 0o644); err != nil {
			die(err)
		}
		nfiles++
	}
	var b bytes.Buffer
	fmt.Fprintf(&b, "package %s\n\n// generated by /verif/cmd/stubgen: placeholder C types and constants\n\n", pkgName)
	var tn []string
	for t := range ctypes {
		tn = append(tn, t)
	}
	sort.Strings(tn)
	for _, t := range tn {
		fmt.Fprintf(&b, "type _Ctype_%s uintptr\n", t)
	}
	var vn []string
	for v := range cvals {
		vn = append(vn, v)
	}
	sort.Strings(vn)
	if len(vn) > 0 {
		b.WriteString("\nconst (\n")
		for _, v := range vn {
			fmt.Fprintf(&b, "\t_Cconst_%s = %d\n", v, cvals[v])
		}
		b.WriteString(")\n")
	}
	if err := os.WriteFile(filepath.Join(dst, "zz_cstub.go"), b.Bytes(), 0o644); err != nil {
		die(err)
	}
	gomod := fmt.Sprintf("module %s\n\ngo 1.13\n", mod)
	if err := os.WriteFile(filepath.Join(dst, "go.mod"), []byte(gomod), 0o644); err != nil {
		die(err)
	}
	fmt.Printf("stubgen: %d files, %d C types, %d C constants -> %s\n", nfiles+1, len(ctypes), len(cvals), dst)
}

func die(err error) {
	fmt.Fprintln(os.Stderr, "stubgen:", err)
	os.Exit(2)
}
