package props

import (
	"fmt"
	"go/ast"
	"go/types"
	"sort"
	"strings"

	"verif/internal/an"
	"verif/internal/flow"
	"verif/internal/load"
)

func init() {
	register(&Property{
		ID:        "C16",
		Technique: "static analysis: agreement between the context fields the stateful v2 encoder and decoder update, implication by truth table from the continuation test to the equalities the decoder relies on, agreement of written and handled type tags, sibling agreement of allocation limits between the two decoders, error-return classification",
		Explanation: "Decides: (M1) the encoder and the decoder keep the same context: the fields stored after a full message {term, index, ToGroup, FromGroup} agree, both advance index once per entry in the compact branch and set it from the last entry after a full message; (M2) every header field the decoder reconstructs in the compact branch is pinned by the continuation test: isContinue implies index==m.Index, term==m.LogTerm==m.Term and group identity on both ends (isSameGroup compares node, group and replica ids), and the reconstructed message literal takes each field from that context; the compact branch is refused when the stream's peers do not match the context; (M3) the type tags written equal the tags handled and an unknown tag is an error; (M5) sizes read from the stream are bounded before allocation, in both decoders; (M6) every read/unmarshal error is returned. (M4) decoded messages do not alias the decode buffer: in every generated raftpb Unmarshal method a slice-typed field is filled from the input only by append(field[:0], input[a:b]...) (both stream decoders reuse their buffer).",
		NotDecided: "round-trip equality of field values (protobuf correctness), interleaving of many groups at runtime, HTTP framing, that gogoproto's generated Unmarshal copies byte slices (M4 of the design is not built: the generated code is outside the rule vocabulary).",
		Assumptions: []string{"path conditions as in C01"},
		Run: runC16,
	})
}

func runC16(c *Ctx) {
	r := c.R
	r.Clause("C16-M1", "encoder and decoder keep the same context")
	r.Clause("C16-M2", "every elided field is pinned by the continuation test")
	r.Clause("C16-M3", "type tags written = type tags handled")
	r.Clause("C16-M5", "limits before allocation")
	r.Clause("C16-M6", "errors are returned, not swallowed")
	enc := c.unit("C16-M1", "transport/rafthttp.(*msgAppV2Encoder).encode")
	dec := c.unit("C16-M1", "transport/rafthttp.(*msgAppV2Decoder).decode")
	if enc == nil || dec == nil {
		return
	}
	// the values a context field ends up with after a full MsgApp, independent of how the stores are arranged:
	// "[entries] v" is stored when the message carries entries, "[default] v" otherwise (an unconditional store that
	// a store under "has entries" may overwrite later, or the else branch of that test). An unconditional store that can
	// follow a conditional one would print as "[overrides]" and match nothing.
	ctxStores := func(u *an.Unit, typ string, under string, msg string) map[string]string {
		goal := c.W.Parse(under)
		hasEnts := c.W.Parse("0 < len(" + msg + "Entries)")
		type st struct {
			s    *flow.Site
			v    string
			kind string
		}
		by := map[string][]st{}
		for _, s := range u.Sites {
			if s.Kind != flow.SStore || s.Field == nil || s.Index {
				continue
			}
			fn := c.W.FieldNames[s.Field]
			if !strings.HasPrefix(fn, typ+".") {
				continue
			}
			pc := u.SitePC(s)
			if res := flow.Implies(pc, goal); res.Holds && res.Undecided == "" {
				v := "<inc>"
				if s.RHS != nil {
					v = u.C.Term(s.RHS)
				}
				kind := "default"
				if flow.Implies(pc, hasEnts).Holds {
					kind = "entries"
				} else if !flow.Implies(pc, flow.Not(hasEnts)).Holds {
					kind = "always"
				}
				f := strings.TrimPrefix(fn, typ+".")
				by[f] = append(by[f], st{s, v, kind})
			}
		}
		out := map[string]string{}
		for f, ss := range by {
			var vs []string
			for _, x := range ss {
				k := x.kind
				if k == "always" {
					k = "default"
					for _, y := range ss {
						if y.kind == "entries" && !(x.s.Block == y.s.Block && x.s.SameBlockBefore(y.s)) && !(x.s.Block != y.s.Block && u.G.Dominates(x.s.Block, y.s.Block)) {
							k = "overrides"
						}
					}
					if len(ss) == 1 {
						k = "always"
					}
				}
				vs = append(vs, "["+k+"] "+x.v)
			}
			sort.Strings(vs)
			out[f] = strings.Join(vs, " ; ")
		}
		return out
	}
	norm := func(m map[string]string, msg string) []string {
		var out []string
		for k, v := range m {
			out = append(out, k+" = "+strings.ReplaceAll(v, msg, "MSG"))
		}
		sort.Strings(out)
		return out
	}
	e := norm(ctxStores(enc, "transport/rafthttp.msgAppV2Encoder", "!recv.isContinue(p0) && !rafthttp.isLinkHeartbeatMessage(p0)", "p0."), "p0.")
	d := norm(ctxStores(dec, "transport/rafthttp.msgAppV2Decoder", "rafthttp.msgTypeApp == typ", "m."), "m.")
	r.SetEq("C16-M1", "context fields stored after a full MsgApp: encoder = decoder", "", d, e, nil, nil)
	r.Check("C16-M1", "both sides store all four context fields after a full message", "", len(e) == 4,
		fmt.Sprintf("encoder stores %v", e))
	ec := ctxStores(enc, "transport/rafthttp.msgAppV2Encoder", "recv.isContinue(p0)", "p0.")
	dc := ctxStores(dec, "transport/rafthttp.msgAppV2Decoder", "rafthttp.msgTypeAppEntries == typ", "m.")
	delete(ec, "uint8buf")
	r.SetEq("C16-M1", "context fields advanced in the compact branch: encoder = decoder", "", norm(dc, "m."), norm(ec, "p0."), nil, nil)
	r.Check("C16-M1", "the compact branch advances exactly the index, once per entry", "", len(ec) == 1 && strings.HasSuffix(ec["index"], "] <inc>") && strings.HasSuffix(dc["index"], "] <inc>") && !strings.Contains(ec["index"], ";") && !strings.Contains(dc["index"], ";"), fmt.Sprintf("encoder %v decoder %v", ec, dc))

	// ... and these stores happen on every successful path through the full-message branch
	okRet := an.Return().Where("success", func(u *an.Unit, s *an.Site) bool { return !an.ErrorReturn(u, s) && an.LastResultNil(u, s) })
	for _, f := range []string{"term", "index", "ToGroup", "FromGroup"} {
		r.Order("C16-M1", enc, okRet, []an.M{an.StorePlain("transport/rafthttp.msgAppV2Encoder." + f)},
			an.OrderOpts{Assume: "!recv.isContinue(p0) && !rafthttp.isLinkHeartbeatMessage(p0)", SkipErrEdges: true, Min: 1})
		r.Order("C16-M1", dec, okRet, []an.M{an.StorePlain("transport/rafthttp.msgAppV2Decoder." + f)},
			an.OrderOpts{Assume: "rafthttp.msgTypeApp == typ && !(rafthttp.msgTypeLinkHeartbeat == typ) && !(rafthttp.msgTypeAppEntries == typ)", SkipErrEdges: true, Min: 1})
	}

	// M2
	if u := c.unit("C16-M2", "transport/rafthttp.(*msgAppV2Encoder).isContinue"); u != nil {
		r.ReturnFormula("C16-M2", u, "recv.index == p0.Index && recv.term == p0.LogTerm && p0.LogTerm == p0.Term && rafthttp.isSameGroup(&recv.ToGroup, &p0.ToGroup) && rafthttp.isSameGroup(&recv.FromGroup, &p0.FromGroup)", an.ActualImpliesWant)
	}
	if u := c.unit("C16-M2", "transport/rafthttp.isSameGroup"); u != nil {
		r.ReturnFormula("C16-M2", u, "p0.NodeId == p1.NodeId && p0.GroupId == p1.GroupId && p0.RaftReplicaId == p1.RaftReplicaId", an.ActualImpliesWant)
	}
	lits, err := c.W.PkgLits("transport/rafthttp", "raft/raftpb.Message")
	if err == nil {
		found := false
		want := map[string]string{"Type": "raftpb.MsgApp", "From": "recv.FromGroup.RaftReplicaId", "To": "recv.ToGroup.RaftReplicaId", "Term": "recv.term", "LogTerm": "recv.term",
			"ToGroup": "recv.ToGroup", "FromGroup": "recv.FromGroup", "Index": "recv.index"}
		for _, l := range lits {
			if l.Func != dec.Name || l.Fields["Type"] != "raftpb.MsgApp" {
				continue
			}
			found = true
			var diffs []string
			for k, v := range want {
				if l.Fields[k] != v {
					diffs = append(diffs, fmt.Sprintf("%s: got %q want %q", k, l.Fields[k], v))
				}
			}
			for k := range l.Fields {
				if _, ok := want[k]; !ok {
					diffs = append(diffs, "unexpected field "+k)
				}
			}
			sort.Strings(diffs)
			r.Check("C16-M2", "decoder: the message rebuilt in the compact branch takes every header field from the shared context", c.P.Pos(l.Pos), len(diffs) == 0, strings.Join(diffs, "; "))
		}
		r.Check("C16-M2", "decoder: compact branch rebuilds the header from the context", "", found, "no raftpb.Message{Type: MsgApp, ...} literal in decode")
	}
	// the compact branch is refused when the connection's peers do not match the context
	for _, s := range dec.Sites {
		if s.Kind == flow.SStore && s.Field != nil && c.W.FieldNames[s.Field] == "raft/raftpb.Message.Commit" {
			r.GuardSite("C16-M2", dec, s, c.W.Parse("recv.FromGroup.NodeId == uint64(recv.remote) && recv.ToGroup.NodeId == uint64(recv.local)"), "stream peers match the context groups")
		}
	}
	// M3
	written := map[string]bool{}
	for _, s := range enc.Sites {
		if s.Kind == flow.SStore && s.Index && s.Field != nil && c.W.FieldNames[s.Field] == "transport/rafthttp.msgAppV2Encoder.uint8buf" && s.RHS != nil {
			written[enc.C.Term(s.RHS)] = true
		}
		if s.Kind == flow.SCall && an.CalleeName(s) == "encoding/binary.Write" {
			written[enc.ArgTerm(s, 2)] = true
		}
	}
	var ws []string
	for k := range written {
		if strings.HasPrefix(k, "rafthttp.msgType") || k == "0" || k == "1" || k == "2" {
			ws = append(ws, k)
		}
	}
	tagVal := func(t string) string {
		if v := c.W.Const(t); v != "" {
			return v
		}
		return t
	}
	var wv []string
	for _, w := range ws {
		wv = append(wv, tagVal(w))
	}
	sw := dec.Switches("typ")
	if len(sw) != 1 {
		r.Unknown("C16-M3", "decoder: switch on the type tag", "", fmt.Sprintf("%d switches on typ", len(sw)))
	} else {
		var hv []string
		for _, l := range sw[0].Labels {
			hv = append(hv, tagVal(l))
		}
		r.SetEq("C16-M3", "msgappv2: type tags written by encode = tags handled by decode", dec.Pos(sw[0].Pos), hv, wv, nil, nil)
		r.Check("C16-M3", "msgappv2 decode: an unknown tag is an error", dec.Pos(sw[0].Pos), dec.DefaultReturnsError(sw[0]), "")
	}
	// M5
	if u := c.unit("C16-M5", "transport/rafthttp.(*messageDecoder).decode"); u != nil {
		r.Guard("C16-M5", u, an.Call("builtin.make"), "!(rafthttp.readBytesLimit < l)", an.GuardOpts{Min: 1})
	}
	for _, s := range dec.Match(an.Call("builtin.make")) {
		arg := dec.ArgTerm(s, 1)
		t := strings.TrimSuffix(strings.TrimPrefix(arg, "int("), ")")
		// the length allocated must be bounded by a dominating test against a constant limit
		pc := dec.SitePC(s)
		atoms := map[string]*flow.F{}
		pc.Atoms(atoms)
		bounded := false
		for _, a := range atoms {
			if a.Cmp == nil || a.Cmp.Op != "<" {
				continue
			}
			// !(limit < t): t <= limit ; or t < limit
			if a.Cmp.R == t && strings.Contains(strings.ToLower(a.Cmp.L), "limit") {
				if res := flow.Implies(pc, flow.Not(a)); res.Holds {
					bounded = true
				}
			}
			if a.Cmp.L == t && strings.Contains(strings.ToLower(a.Cmp.R), "limit") {
				if res := flow.Implies(pc, a); res.Holds {
					bounded = true
				}
			}
		}
		r.Check("C16-M5", fmt.Sprintf("msgappv2 decode: allocation of %s bytes/entries read from the stream is bounded by a limit", arg), dec.Pos(s.Pos), bounded,
			"the sibling decoder (messageDecoder) refuses lengths above readBytesLimit; here a corrupted length is allocated as is (makeslice panic / out of memory instead of an error)")
	}
	// M7: a new connection starts with a fresh codec context on both ends
	r.Clause("C16-M7", "every new connection gets a fresh encoder / decoder; stream reads are full reads")
	if u := c.unit("C16-M7", "transport/rafthttp.(*streamWriter).run"); u != nil {
		encs := u.Match(an.LocalStore("enc"))
		n := 0
		for _, s := range encs {
			if s.RHS == nil {
				continue
			}
			v := u.C.Term(s.RHS)
			if v == "nil" {
				continue
			}
			n++
			ok := strings.HasPrefix(v, "rafthttp.newMsgAppV2Encoder(conn.Writer") || strings.HasPrefix(v, "&rafthttp.messageEncoder{w: conn.Writer}") || strings.HasPrefix(v, "&messageEncoder{w: conn.Writer}")
			r.Check("C16-M7", u.Name+": the encoder of an attached connection is newly constructed on the connection's writer", u.Pos(s.Pos), ok, "assigned "+v)
			if ok {
				me := an.LocalStore("enc").Where("this", func(_ *an.Unit, x *an.Site) bool { return x == s })
				r.Order("C16-M7", u, me, []an.M{an.Recv("recv.connc")}, an.OrderOpts{Min: 1})
			}
		}
		r.Min("C16-M7", n, 2, u.Name+": encoder constructions")
		fresh := an.LocalStore("enc").Where("fresh encoder", func(u *an.Unit, s *an.Site) bool {
			return s.RHS != nil && (strings.Contains(u.C.Term(s.RHS), "newMsgAppV2Encoder(") || strings.Contains(u.C.Term(s.RHS), "messageEncoder{"))
		})
		r.Follow("C16-M7", u, an.Recv("recv.connc"), []an.M{fresh}, an.FollowOpts{Min: 1})
	}
	// an encoder / decoder is bound to one connection: its writer / reader is set at construction only
	for _, f := range []string{"transport/rafthttp.msgAppV2Encoder.w", "transport/rafthttp.messageEncoder.w", "transport/rafthttp.msgAppV2Decoder.r", "transport/rafthttp.messageDecoder.r"} {
		for _, sw := range c.W.AllSites(an.Store(f), "", []string{"transport/rafthttp"}) {
			r.Bad("C16-M7", sw.U.Name+": re-targets a codec object to another connection (store to "+f+")", sw.U.Pos(sw.S.Pos),
				"the context of the old connection (term, index, groups) would be applied to the new one")
		}
	}
	if u := c.unit("C16-M7", "transport/rafthttp.(*streamReader).decodeLoop"); u != nil {
		ds := u.Match(an.LocalStore("dec"))
		n := 0
		for _, s := range ds {
			if s.RHS == nil {
				continue
			}
			if id, isId := ast.Unparen(s.RHS).(*ast.Ident); isId && u.C.BaseName(u.Info().ObjectOf(id)) == "dec" {
				continue // handed on from a constructor helper's own `dec`, whose assignments are checked here too
			}
			n++
			v := u.C.Term(s.RHS)
			ok := strings.HasPrefix(v, "rafthttp.newMsgAppV2Decoder(p0") || strings.HasPrefix(v, "rafthttp.newMessageDecoder(p0")
			r.Check("C16-M7", u.Name+": the decoder is newly constructed on the connection's reader", u.Pos(s.Pos), ok, "assigned "+v)
		}
		r.Min("C16-M7", n, 2, u.Name+": decoder constructions")
	}
	// reads from the stream must be full reads (io.ReadFull / binary.Read), never a bare Read whose count is ignored
	for _, fn := range []string{"transport/rafthttp.(*msgAppV2Decoder).decode", "transport/rafthttp.(*messageDecoder).decode"} {
		if u := c.unit("C16-M7", fn); u != nil {
			bare := u.Match(an.Call("io.Reader.Read", "bufio.(*Reader).Read", "io.ReadCloser.Read"))
			r.Check("C16-M7", fn+": reads the stream with io.ReadFull / binary.Read only", "", len(bare) == 0, fmt.Sprintf("%d bare Read call(s): a short read yields a different message instead of an error", len(bare)))
			full := u.Match(an.Call("io.ReadFull", "encoding/binary.Read"))
			r.Min("C16-M7", len(full), 1, fn+": full reads")
			// the stream is handed to nothing else: a wrapper (io.LimitReader, io.Copy, bufio) turns a short stream into
			// a short buffer without an error
			for _, s := range u.Sites {
				if s.Kind != flow.SCall || s.Call == nil {
					continue
				}
				uses := false
				for _, a := range s.Call.Args {
					if t := u.C.Term(a); t == "recv.r" || strings.HasPrefix(t, "recv.r.") {
						uses = true
					}
				}
				if sel, ok := ast.Unparen(s.Call.Fun).(*ast.SelectorExpr); ok && u.C.Term(sel.X) == "recv.r" {
					uses = true
				}
				if !uses {
					continue
				}
				name := an.CalleeName(s)
				r.Check("C16-M7", fn+": the stream is consumed through io.ReadFull / binary.Read only", u.Pos(s.Pos), name == "io.ReadFull" || name == "encoding/binary.Read",
					"the stream is passed to "+name+": a stream that ends early no longer produces an error there")
			}
		}
	}
	if u := c.unit("C16-M6", "transport/rafthttp.(*messageDecoder).decode"); u != nil {
		for _, s := range u.Match(an.Call("io.ReadFull", "encoding/binary.Read")) {
			ok, why := u.ErrTested(s)
			r.Check("C16-M6", u.Name+": the error of "+an.CalleeName(s)+" is tested", u.Pos(s.Pos), ok, why)
		}
	}
	// M6
	for _, u := range []*an.Unit{dec} {
		n := 0
		for _, s := range u.Sites {
			if s.Kind != flow.SReturn || !s.Block.Reachable() || len(s.Ret.Results) != 2 {
				continue
			}
			n++
			e := u.C.Term(s.Ret.Results[1])
			if e == "nil" {
				continue
			}
			r.Check("C16-M6", u.Name+": a failed read/unmarshal returns its error", u.Pos(s.Pos), an.ErrorReturn(u, s), "returned "+e)
		}
		r.Min("C16-M6", n, 10, u.Name+": return statements")
		// every read is tested
		for _, s := range u.Match(an.Call("io.ReadFull", "encoding/binary.Read", "pkg/pbutil.MaybeUnmarshal", "raft/raftpb.(*Message).Unmarshal")) {
			ok, why := u.ErrTested(s)
			r.Check("C16-M6", u.Name+": the error of "+an.CalleeName(s)+" is tested", u.Pos(s.Pos), ok, why)
		}
	}
}

func init() {
	old := registry["C16"].Run
	registry["C16"].Run = func(c *Ctx) { old(c); c16M4(c) }
}

// M4: decoded messages never alias the input buffer. Both stream decoders unmarshal from a buffer they reuse for the
// next message, so a byte field that kept a sub-slice of the input would change after the message was handed on.
func c16M4(c *Ctx) {
	r := c.R
	r.Clause("C16-M4", "decoded raft messages do not alias the decode buffer")
	nFn, nCopy := 0, 0
	for _, fn := range c.P.Funcs() {
		if load.ShortPkg(fn.Pkg.PkgPath) != "raft/raftpb" || fn.Decl.Name.Name != "Unmarshal" || fn.Decl.Recv == nil || fn.Decl.Body == nil {
			continue
		}
		u, err := c.W.Unit(fn.Name)
		if err != nil {
			r.Unknown("C16-M4", fn.Name, "", err.Error())
			continue
		}
		nFn++
		in := paramAt(u, 0)
		mentionsInputSlice := func(e ast.Expr) bool {
			found := false
			ast.Inspect(e, func(n ast.Node) bool {
				if se, ok := n.(*ast.SliceExpr); ok {
					if id, ok := ast.Unparen(se.X).(*ast.Ident); ok && u.Info().ObjectOf(id) == in {
						found = true
					}
				}
				return !found
			})
			return found
		}
		for _, s := range u.Sites {
			if s.Kind != flow.SStore {
				continue
			}
			rhs := s.RHS
			if rhs == nil {
				rhs = s.Tuple
			}
			if rhs == nil || !mentionsInputSlice(rhs) {
				continue
			}
			// only a slice-typed destination can keep a reference to the input (integers, errors and strings cannot;
			// nested messages are unmarshalled by the methods enumerated here)
			if t := u.Info().TypeOf(s.LHS); t == nil {
				continue
			} else if _, isSlice := t.Underlying().(*types.Slice); !isSlice {
				continue
			}
			// allowed: append(dst[:0], in[a:b]...) (copy), string(in[a:b]) (copy), a numeric read of single bytes
			ok := false
			why := "stores " + clipS(u.C.Term(rhs), 120)
			if call, isCall := ast.Unparen(rhs).(*ast.CallExpr); isCall {
				if id, isId := call.Fun.(*ast.Ident); isId {
					switch {
					case id.Name == "append" && call.Ellipsis.IsValid() && len(call.Args) == 2:
						// the destination is the field's own storage cut to zero length (or nil), never the input
						if !mentionsInputSlice(call.Args[0]) {
							ok = true
							nCopy++
						}
					case id.Name == "string" && len(call.Args) == 1:
						ok = true
					}
				}
			}
			r.Check("C16-M4", fmt.Sprintf("%s: %s is filled by copying out of the input", u.Name, u.C.Term(s.LHS)), u.Pos(s.Pos), ok, why)
		}
		// nothing returns or sends a slice of the input either
		for _, s := range u.Match(an.Return()) {
			for _, res := range s.Ret.Results {
				if mentionsInputSlice(res) {
					r.Bad("C16-M4", u.Name+": returns a slice of the input", u.Pos(s.Pos), u.C.Term(res))
				}
			}
		}
	}
	r.Min("C16-M4", nFn, 8, "generated Unmarshal methods of raftpb")
	r.Min("C16-M4", nCopy, 4, "byte fields copied out of the input")
	// and the reason it matters: both stream decoders reuse their buffer
	for _, fn := range []string{"transport/rafthttp.(*msgAppV2Decoder).decode", "transport/rafthttp.(*messageDecoder).decode"} {
		if u, err := c.W.Unit(fn); err == nil {
			n := len(u.Match(an.AnyCall().Where("Unmarshal", func(u *an.Unit, s *flow.Site) bool { return strings.HasSuffix(an.CalleeName(s), ").Unmarshal") })))
			r.Note("C16-M4: %s unmarshals %d time(s) from its buffer", fn, n)
		}
	}
}

func init() {
	old := registry["C16"].Run
	registry["C16"].Run = func(c *Ctx) { old(c); c16EntryLoop(c) }
}

// M1 (entry loop): in a compact append the decoder's index context advances once per decoded entry on every path through
// the entry loop (also for an entry that takes a special path, e.g. an oversized one): every arrival at the loop's
// post statement has passed `dec.index++`, and so has the unmarshal of the entry.
func c16EntryLoop(c *Ctx) {
	r := c.R
	u := c.unit("C16-M1", "transport/rafthttp.(*msgAppV2Decoder).decode")
	if u == nil {
		return
	}
	adv := an.Store("transport/rafthttp.msgAppV2Decoder.index").Where("++", func(u *an.Unit, s *an.Site) bool { return s.Tok.String() == "++" })
	if !r.Require("C16-M1", u, adv, "the decoder must follow the sender's index context") {
		return
	}
	// the loop whose body contains the advance
	advSites := u.Match(adv)
	var loop *ast.ForStmt
	u.InspectAll(func(n ast.Node) bool {
		if f, ok := n.(*ast.ForStmt); ok && f.Body.Pos() <= advSites[0].Pos && advSites[0].Pos < f.Body.End() {
			loop = f
		}
		return true
	})
	if loop == nil || loop.Post == nil {
		r.Unknown("C16-M1", u.Name+": the entry loop", "", "the index advance is not inside a for loop with a post statement")
		return
	}
	var post []*flow.Site
	for _, s := range u.Sites {
		if s.Kind == flow.SStore && s.Pos >= loop.Post.Pos() && s.Pos < loop.Post.End() {
			post = append(post, s)
		}
	}
	if len(post) == 0 {
		r.Unknown("C16-M1", u.Name+": the entry loop's post statement", "", "no site")
		return
	}
	r.OrderSites("C16-M1", u, post, func(*flow.Site) string { return "the next iteration of the entry loop" }, []an.M{adv}, an.OrderOpts{})
	um := an.AnyCall().Where("unmarshal of the entry", func(u *an.Unit, s *an.Site) bool {
		return strings.HasSuffix(an.CalleeName(s), "pbutil.MaybeUnmarshal") && s.Pos >= loop.Body.Pos() && s.Pos < loop.Body.End()
	})
	r.Order("C16-M1", u, um, []an.M{adv}, an.OrderOpts{Min: 1})
}
