package props

import (
	"go/ast"
	"fmt"

	"verif/internal/an"
	"verif/internal/flow"
)

func init() {
	register(&Property{
		ID:        "C19",
		Technique: "static analysis: who-may-write enumeration of the synced-position map, ORDER rules on the apply loop (duplicate filter before the state machine, position update after it), guard implication by truth table (the duplicate test), agreement between what the snapshot saves and restores",
		Explanation: "Decides: (Y1) the synced position per source cluster is written only by UpdateState/RestoreStates under the manager's lock, UpdateState is called only from postprocessRemoteApply and the operator API, RestoreStates only from RestoreFromSnapshot; (Y2) in applyEntry an entry from the cluster syncer reaches the state machine only after isAlreadyApplied answered false, the early return for an already-applied entry does not reach ApplyRaftRequest, and the position is advanced only after the state machine ran, not for snapshot-transfer steps or ignored applies; (Y3) isAlreadyApplied is true iff OrigTerm < SyncedTerm or OrigIndex <= SyncedIndex for the state of the entry's own source cluster, the receive-time filter in ApplyRaftReqs skips on the same test against GetRemoteClusterSyncedRaft(r.ClusterName), and the proposer stamps OrigTerm/OrigIndex from the source entry; (Y4) the position map is part of the snapshot: saved as a clone, restored after the data was restored. (Y8) in applyEntry, assuming the entry is from the syncer, postprocessRemoteApply follows ApplyRaftRequest on every path (replayed or live), and the remote-snapshot classification is made under no stronger condition than: has data, from the syncer, not already applied.",
		NotDecided: "exactly-once over all delivery histories (needs the histories), conflict handling (preCheckConflict), the learner/log-sender side, that UpdateState is monotone by itself (it overwrites; monotonicity rests on Y2's filter).",
		Assumptions: []string{"path conditions as in C01"},
		Run: runC19,
	})
}

func runC19(c *Ctx) {
	r := c.R
	r.Clause("C19-Y1", "who moves the synced position")
	r.Clause("C19-Y2", "filter before apply, position after apply")
	r.Clause("C19-Y3", "the duplicate test is the stated one, on the entry's own source cluster")
	r.Clause("C19-Y4", "the position is part of the snapshot")

	// Y1
	ws := c.W.AllSites(an.StoreElem("node.remoteSyncedStateMgr.remoteSyncedStates"), "remoteSyncedStates", nil)
	r.Min("C19-Y1", len(ws), 2, "element stores to remoteSyncedStates")
	for _, sw := range ws {
		ok := sw.U.Name == "node.(*remoteSyncedStateMgr).UpdateState" || sw.U.Name == "node.(*remoteSyncedStateMgr).RestoreStates"
		r.Check("C19-Y1", sw.U.Name+": element store to the synced-position map", sw.U.Pos(sw.S.Pos), ok, "only UpdateState and RestoreStates may write it")
		if ok {
			me := an.StoreElem("node.remoteSyncedStateMgr.remoteSyncedStates")
			r.Order("C19-Y1", sw.U, me, []an.M{an.Call("sync.(*RWMutex).Lock", "sync.(*Mutex).Lock")}, an.OrderOpts{Min: 1})
		}
	}
	for _, sw := range c.W.AllSites(an.StorePlain("node.remoteSyncedStateMgr.remoteSyncedStates"), "remoteSyncedStates", nil) {
		ok := sw.U.Name == "node.newRemoteSyncedStateMgr" || sw.U.Name == "node.(*remoteSyncedStateMgr).RestoreStates"
		r.Check("C19-Y1", sw.U.Name+": replaces the synced-position map", sw.U.Pos(sw.S.Pos), ok, "only the constructor and RestoreStates may replace it")
	}
	us := c.W.AllSites(an.Call("node.(*remoteSyncedStateMgr).UpdateState"), "UpdateState", nil)
	r.Min("C19-Y1", len(us), 2, "callers of UpdateState")
	for _, sw := range us {
		switch sw.U.Name {
		case "node.(*KVNode).postprocessRemoteApply":
			r.Ok("C19-Y1", sw.U.Name+": UpdateState from the apply loop", sw.U.Pos(sw.S.Pos), "")
		case "node.(*KVNode).SetRemoteClusterSyncedRaft":
			r.Ok("C19-Y1", sw.U.Name+": UpdateState from the operator API (named exception: manual reset of the position)", sw.U.Pos(sw.S.Pos), "")
		default:
			r.Bad("C19-Y1", sw.U.Name+": UpdateState called outside the apply loop and the operator API", sw.U.Pos(sw.S.Pos), "")
		}
	}
	for _, sw := range c.W.AllSites(an.Call("node.(*KVNode).SetRemoteClusterSyncedRaft"), "SetRemoteClusterSyncedRaft", nil) {
		r.Check("C19-Y1", sw.U.Name+": operator API caller of SetRemoteClusterSyncedRaft", sw.U.Pos(sw.S.Pos), sw.U.Name == "server.(*Server).doSetSyncOffset" || len(sw.U.Name) > 7 && sw.U.Name[:7] == "server.", "only the HTTP operator API")
	}
	for _, sw := range c.W.AllSites(an.Call("node.(*remoteSyncedStateMgr).RestoreStates"), "RestoreStates", nil) {
		r.Check("C19-Y1", sw.U.Name+": RestoreStates only from RestoreFromSnapshot", sw.U.Pos(sw.S.Pos), sw.U.Name == "node.(*KVNode).RestoreFromSnapshot", "")
	}
	for _, sw := range c.W.AllSites(an.Call("node.(*KVNode).postprocessRemoteApply"), "postprocessRemoteApply", nil) {
		r.Check("C19-Y1", sw.U.Name+": postprocessRemoteApply only from applyEntry", sw.U.Pos(sw.S.Pos), sw.U.Name == "node.(*KVNode).applyEntry", "")
	}

	// Y2
	if u := c.unit("C19-Y2", "node.(*KVNode).applyEntry"); u != nil {
		sm := an.Call("node.StateMachine.ApplyRaftRequest")
		r.Guard("C19-Y2", u, sm, "p0.Data == nil || node.FromClusterSyncer != reqList.Type || !isApplied", an.GuardOpts{Min: 1})
		r.Order("C19-Y2", u, sm, []an.M{an.Call("node.(*KVNode).isAlreadyApplied")}, an.OrderOpts{Assume: "p0.Data != nil && reqList.Type == node.FromClusterSyncer", Min: 1})
		r.StoreValues("C19-Y2", u, an.LocalStore("isApplied"), []string{"recv.isAlreadyApplied(reqList)"}, 1)
		r.Order("C19-Y2", u, an.Call("node.(*KVNode).postprocessRemoteApply"), []an.M{sm}, an.OrderOpts{Min: 1})
		r.ArgValues("C19-Y2", u, an.Call("node.(*KVNode).postprocessRemoteApply"), 0, []string{"reqList"}, 1)
		r.ArgValues("C19-Y2", u, an.Call("node.(*KVNode).postprocessRemoteApply"), 3, []string{"retErr"}, 1)
		r.ArgValues("C19-Y2", u, sm, 2, []string{"reqList"}, 1)
		// the request list the filter looks at is the one decoded from this entry
		r.ArgValues("C19-Y2", u, an.Call("node.(*BatchInternalRaftRequest).Unmarshal"), 0, []string{"p0.Data"}, 1)
	}
	if u := c.unit("C19-Y2", "node.(*KVNode).postprocessRemoteApply"); u != nil {
		up := an.Call("node.(*remoteSyncedStateMgr).UpdateState")
		r.Guard("C19-Y2", u, up, "!p1 && p3 != node.errIgnoredRemoteApply && !(p0.OrigTerm == 0 && p0.OrigIndex == 0)", an.GuardOpts{Min: 1})
		r.ArgValues("C19-Y2", u, up, 0, []string{"p0.OrigCluster"}, 1)
		r.ArgValues("C19-Y2", u, up, 1, []string{"ss"}, 1)
		r.StoreValues("C19-Y2", u, an.LocalStore("ss"), []string{"node.SyncedState{SyncedIndex: p0.OrigIndex, SyncedTerm: p0.OrigTerm, Timestamp: p0.Timestamp}"}, 1)
	}

	// Y3
	if u := c.unit("C19-Y3", "node.(*KVNode).isAlreadyApplied"); u != nil {
		r.Returns("C19-Y3", u, []an.ReturnClass{
			{Name: "duplicate", Match: func(u *an.Unit, s *an.Site) bool { return u.C.Term(s.Ret.Results[0]) == "true" },
				Guard: "ok && (p0.OrigTerm < oldState.SyncedTerm || p0.OrigIndex <= oldState.SyncedIndex)"},
			{Name: "new", Match: func(u *an.Unit, s *an.Site) bool { return u.C.Term(s.Ret.Results[0]) == "false" },
				Guard: "!ok || !(p0.OrigTerm < oldState.SyncedTerm || p0.OrigIndex <= oldState.SyncedIndex)"},
		}, 3)
		gs := u.Match(an.Call("node.(*remoteSyncedStateMgr).GetState"))
		r.Check("C19-Y3", "isAlreadyApplied: compares with the state of the entry's own source cluster", "", len(gs) == 1 && u.ArgTerm(gs[0], 0) == "p0.OrigCluster", "")
	}
	if u := c.unit("C19-Y3", "server.(*Server).ApplyRaftReqs"); u != nil {
		g := u.Match(an.Call("node.(*KVNode).GetRemoteClusterSyncedRaft"))
		r.Check("C19-Y3", "ApplyRaftReqs: the receive-time filter reads the position of the request's own cluster", "", len(g) >= 1 && u.ArgTerm(g[0], 0) == "r.ClusterName", "")
		prop := an.Call("node.(*KVNode).ProposeRawAsyncFromSyncer")
		r.Guard("C19-Y3", u, prop, "!(r.Term < term || r.Index <= index)", an.GuardOpts{Min: 1})
		for i, a := range []string{"r.Data", "&reqList", "r.Term", "r.Index", "r.RaftTimestamp"} {
			_ = i
			_ = a
		}
	}
	if u := c.unit("C19-Y3", "node.(*KVNode).ProposeRawAsyncFromSyncer"); u != nil {
		r.StoreValues("C19-Y3", u, an.Store("node.BatchInternalRaftRequest.OrigTerm"), []string{"p2"}, 1)
		r.StoreValues("C19-Y3", u, an.Store("node.BatchInternalRaftRequest.OrigIndex"), []string{"p3"}, 1)
		r.StoreValues("C19-Y3", u, an.Store("node.BatchInternalRaftRequest.Type"), []string{"node.FromClusterSyncer"}, 1)
	}

	// Y4
	if u := c.unit("C19-Y4", "node.(*KVNode).GetSnapshot"); u != nil {
		if r.Require("C19-Y4", u, an.Store("node.KVSnapInfo.RemoteSyncedStates"), "the synced positions must be saved into the snapshot info") {
			r.StoreValues("C19-Y4", u, an.Store("node.KVSnapInfo.RemoteSyncedStates"), []string{"recv.remoteSyncedStates.Clone()"}, 1)
		}
	}
	if u := c.unit("C19-Y4", "node.(*KVNode).RestoreFromSnapshot"); u != nil {
		rs := an.Call("node.(*remoteSyncedStateMgr).RestoreStates")
		if !r.Require("C19-Y4", u, rs, "the synced positions must be restored from the snapshot info") {
			return
		}
		r.ArgValues("C19-Y4", u, rs, 0, []string{"si.RemoteSyncedStates"}, 1)
		r.Order("C19-Y4", u, rs, []an.M{an.Call("node.StateMachine.RestoreFromSnapshot")}, an.OrderOpts{Success: an.NilErr, Min: 1})
	}
	// the field travels in the snapshot's JSON
	if pkg := c.P.ByPath["github.com/youzan/ZanRedisDB/node"]; pkg != nil {
		ok := false
		for f, name := range c.W.FieldNames {
			if name == "node.KVSnapInfo.RemoteSyncedStates" {
				ok = f.Exported()
			}
		}
		r.Check("C19-Y4", "node.KVSnapInfo.RemoteSyncedStates is an exported (serialised) field of the snapshot info", "", ok, "")
	}
	_ = fmt.Sprint
}

func init() {
	old := registry["C19"].Run
	registry["C19"].Run = func(c *Ctx) { old(c); runC19Y56(c) }
}

func runC19Y56(c *Ctx) {
	r := c.R
	r.Clause("C19-Y5", "the sender drops a batch as 'already replayed' only on its last entry")
	if u := c.unit("C19-Y5", "node.(*logSyncerSM).handlerRaftLogs"); u != nil {
		is := an.AnyCall().Where("IsNewer2", func(u *an.Unit, s *an.Site) bool { return len(an.CalleeName(s)) > 9 && an.CalleeName(s)[len(an.CalleeName(s))-9:] == ".IsNewer2" })
		r.ArgValues("C19-Y5", u, is, 0, []string{"last.OrigTerm"}, 1)
		r.ArgValues("C19-Y5", u, is, 1, []string{"last.OrigIndex"}, 1)
		// `last` is always the most recently collected request
		for _, s := range u.Match(an.LocalStore("last")) {
			if s.RHS == nil {
				continue // the declaration
			}
			v := u.C.Term(s.RHS)
			r.Check("C19-Y5", u.Name+": `last` follows the request just added to the batch", u.Pos(s.Pos), v == "req" || v == "req_2" || v == "req_3" || len(v) >= 3 && v[:3] == "req", "assigned "+v)
		}
	}
	r.Clause("C19-Y6", "the 'ignored remote apply' sentinel travels unwrapped: producers return it as is, consumers compare by identity")
	n := 0
	for _, pkg := range c.P.Pkgs {
		if pkg.PkgPath != "github.com/youzan/ZanRedisDB/node" {
			continue
		}
		for _, f := range pkg.Syntax {
			var stack []ast.Node
			ast.Inspect(f, func(nd ast.Node) bool {
				if nd == nil {
					stack = stack[:len(stack)-1]
					return true
				}
				if id, ok := nd.(*ast.Ident); ok && id.Name == "errIgnoredRemoteApply" && pkg.TypesInfo.Uses[id] != nil {
					n++
					ok := false
					if len(stack) > 0 {
						switch p := stack[len(stack)-1].(type) {
						case *ast.ReturnStmt, *ast.AssignStmt, *ast.ValueSpec:
							ok = true
						case *ast.BinaryExpr:
							ok = p.Op.String() == "==" || p.Op.String() == "!="
						case *ast.CaseClause:
							ok = true
						}
					}
					r.Check("C19-Y6", "use of errIgnoredRemoteApply is a plain return/assignment or an identity comparison", c.P.Pos(id.Pos()), ok,
						"wrapping the sentinel (fmt.Errorf %w, errors.Wrap) breaks the identity comparison in postprocessRemoteApply: a failed remote apply would advance the synced position")
				}
				stack = append(stack, nd)
				return true
			})
		}
	}
	r.Min("C19-Y6", n, 2, "uses of errIgnoredRemoteApply")
}

// Y7: a failed replay of a remote snapshot must not move the synced position. postprocessRemoteApply advances the position
// only when the state machine's apply returned no error; the error of handleCustomRequest (where a transferred remote
// snapshot is restored) therefore has to *be* the error ApplyRaftRequest returns: the call's error result is assigned to
// the very variable the final return hands out (a `:=` in the branch declares another one and the function returns nil).
func c19Y7(c *Ctx) {
	r := c.R
	r.Clause("C19-Y7", "the error of the custom (remote snapshot) request is the error the state machine returns")
	u := c.unit("C19-Y7", "node.(*kvStoreSM).ApplyRaftRequest")
	if u == nil {
		return
	}
	tv := tupleVars(u, "node.(*kvStoreSM).handleCustomRequest")
	if len(tv) != 2 || tv[1] == "" {
		r.Unknown("C19-Y7", u.Name+": result of handleCustomRequest", "", "not bound by a two-variable assignment")
		return
	}
	// the term the last return statement hands out as the error
	ret := ""
	var last *an.Site
	for _, s := range u.Sites {
		if s.Kind == flow.SReturn && s.Block.Reachable() && len(s.Ret.Results) == 2 {
			if last == nil || s.Pos > last.Pos {
				last = s
			}
		}
	}
	if last != nil {
		ret = u.C.Term(last.Ret.Results[1])
	}
	r.Check("C19-Y7", u.Name+": handleCustomRequest's error is stored in the variable the function returns", "", ret != "" && tv[1] == ret,
		fmt.Sprintf("error of the call goes to %s, the function returns %s", tv[1], ret))
}

func init() {
	old := registry["C19"].Run
	registry["C19"].Run = func(c *Ctx) { old(c); c19Y7(c) }
}

// Y8: the synced position follows every entry of the syncer that reaches the state machine — also the entries applied
// while the local WAL is replayed after a restart. If replayed entries did not advance it, the position would fall back
// behind the data after a restart, the source would send those entries again and they would be applied a second time.
func c19Y8(c *Ctx) {
	r := c.R
	r.Clause("C19-Y8", "every syncer entry the state machine applied advances the position, replayed or live")
	u := c.unit("C19-Y8", "node.(*KVNode).applyEntry")
	if u == nil {
		return
	}
	sm := an.Call("node.StateMachine.ApplyRaftRequest")
	post := an.Call("node.(*KVNode).postprocessRemoteApply")
	r.Follow("C19-Y8", u, sm, []an.M{post}, an.FollowOpts{Assume: "reqList.Type == node.FromClusterSyncer", Min: 1})
	// and the snapshot-transfer classification that postprocessRemoteApply depends on is made for every syncer entry too
	pre := u.Match(an.Call("node.(*KVNode).preprocessRemoteSnapApply"))
	for _, s := range pre {
		res := flow.Implies(c.W.Parse("p0.Data != nil && reqList.Type == node.FromClusterSyncer && !isApplied"), u.SitePC(s))
		r.Check("C19-Y8", u.Name+": the remote-snapshot classification is made for every syncer entry that is not filtered", u.Pos(s.Pos), res.Holds,
			"path condition "+u.SitePC(s).String()+" is stronger than (entry has data, from the syncer, not already applied)")
	}
	r.Min("C19-Y8", len(pre), 1, "preprocessRemoteSnapApply calls in applyEntry")
}

func init() {
	old := registry["C19"].Run
	registry["C19"].Run = func(c *Ctx) { old(c); c19Y8(c) }
}
