package props

import (
	"go/token"
	"fmt"
	"go/ast"
	"go/types"
	"sort"
	"strings"

	"golang.org/x/tools/go/types/typeutil"

	"verif/internal/an"
	"verif/internal/flow"
	"verif/internal/load"
)

func init() {
	register(&Property{
		ID:        "C17",
		Technique: "static analysis: dependence summaries (no clock/random/process source reaches the layout), classification of every map iteration in the layout call tree by order-insensitive idiom, totality of the ordering comparators by guard implication, guard implication on the refusal and on the no-duplicate moves, argument/term provenance of the ring slot and exclusion bookkeeping, error-guarded use of the layout in all callers",
		Explanation: "Decides structural necessary conditions of the placement property, not the layouts themselves: (D1) the layout is a deterministic function of its inputs: no clock/random/process-identity value flows into the result of getRebalancedNamespacePartitions, every iteration over a Go map in its call tree is order-insensitive by idiom (keys collected then sorted; per-key lists each sorted before use; insertion into an ordered tree map whose comparator is total), and the comparators are total orders: they return 0 only through the final comparison of the unique per-node nameIndex; (D2) refusal: a layout is computed only under not(len(currentNodes) < replica) and not(totalCnt < replica), the refusing returns carry ErrNodeUnavailable with a nil layout; (D3) no caller uses the layout unless the error was tested nil; (D4) ring (v1): replica j of a partition is ring slot (start+j) mod ring length with j < replica, the start advances by one per partition, and the ring is the interleave of the per-data-centre sorted lists in which every node is taken exactly once; (D5) incremental (v2), distinctness bookkeeping: old members and every newly chosen node are on the exclusion list before the next choice, excluded nodes never enter the candidate tree, an old member is kept only when it is a live node, the load maps only ever get keys that are live nodes, and a balance move puts the least-loaded node into a partition only when it is not already one of its replicas. (D6) per-node values (the data-centre key) are declared inside the loop over the node map.",
		NotDecided: "the arithmetic behind the statement: that the slots are pairwise distinct for every topology, data-centre spread for even topologies, equal leader counts, v2 validity over all histories of layouts (these quantify over all node sets and need the values); the candidate tree being non-empty when a choice is made.",
		Assumptions: []string{"path conditions as in C01", "github.com/emirpasic/gods treemap orders by the comparator it was built with; murmur3.Sum32 and sort.Sort are deterministic"},
		Run:         runC17,
	})
}

const c17pkg = "cluster/pdnode_coord."

func runC17(c *Ctx) {
	r := c.R
	r.Clause("C17-D1", "the layout is a deterministic function of its inputs")
	r.Clause("C17-D2", "too few nodes: refuse, never a degraded layout")
	r.Clause("C17-D3", "callers use the layout only when no error was returned")
	r.Clause("C17-D4", "ring (v1): consecutive ring slots, ring = interleave of per-DC sorted lists")
	r.Clause("C17-D5", "incremental (v2): exclusion bookkeeping that keeps replicas distinct and live")

	entry := c.unit("C17-D1", c17pkg+"getRebalancedNamespacePartitions")
	if entry == nil {
		return
	}
	// ---- D1: dependence summary and map iterations
	cf := &an.ClockFlow{W: c.W}
	cf.Run([]*an.Unit{entry})
	var tree []string
	for _, n := range cf.ReachedNames() {
		if strings.HasPrefix(n, c17pkg) {
			tree = append(tree, n)
		}
	}
	sort.Strings(tree)
	r.Note("C17-D1: layout call tree in the placement package (%d): %s; %d module functions reached in all", len(tree), strings.Join(tree, ", "), cf.Reached())
	r.Min("C17-D1", len(tree), 11, "functions in the layout call tree")
	if s := cf.Sum[entry.Name]; s == nil {
		r.Unknown("C17-D1", "summary of "+entry.Name, "", "none")
	} else {
		bad := false
		for _, d := range s.Res {
			if d&an.SRC != 0 {
				bad = true
			}
		}
		r.Check("C17-D1", entry.Name+": the returned layout does not depend on a clock, random or process-identity source", "", !bad, s.ResWhy)
	}
	cmpTotal := map[string]bool{}
	for _, cmp := range []string{"loadItemLeaderCmp", "loadItemReplicaCmp"} {
		cmpTotal[c17pkg+cmp] = c17Comparator(c, c17pkg+cmp)
	}
	nRanges := 0
	for _, name := range tree {
		u, err := c.W.Unit(name)
		if err != nil {
			continue
		}
		for _, uu := range append([]*an.Unit{u}, u.Lits()...) {
			for _, s := range uu.Match(an.M{}.Range()) {
				t := uu.Info().TypeOf(s.Rng.X)
				if t == nil {
					continue
				}
				if _, isMap := t.Underlying().(*types.Map); !isMap {
					continue
				}
				nRanges++
				kind, ok := an.MapRangeIdiom(uu, s.Rng, cf)
				if ok {
					if why := c17RangeExtra(c, uu, s.Rng, cmpTotal); why != "" {
						kind, ok = why, false
					}
				}
				r.Check("C17-D1", fmt.Sprintf("%s: range over map %s is order-insensitive", uu.Name, uu.C.Term(s.Rng.X)), uu.Pos(s.Pos), ok, kind)
			}
		}
	}
	r.Min("C17-D1", nRanges, 4, "map iterations in the layout call tree")
	// the unique tie-break: nameIndex is a bijection of the ring position
	if u := c.unit("C17-D1", c17pkg+"fillPartitionMapV2"); u != nil {
		r.StoreValues("C17-D1", u, an.StoreTerm("nameIndexMap[n]"), []string{"((i + selectIndex) % len(p4))"}, 1)
		rs := u.Match(an.M{}.Range())
		okr := false
		for _, s := range rs {
			if u.C.Term(s.Rng.X) == "p4" && localName(u, s.Rng.Key) == "i" && localName(u, s.Rng.Value) == "n" {
				okr = true
			}
		}
		r.Check("C17-D1", u.Name+": nameIndex is assigned from the node's own ring position", "", okr, "")
	}
	for _, fn := range []string{"getMinMaxLoadForLeader", "getMinMaxLoadForReplica"} {
		if u := c.unit("C17-D1", c17pkg+fn); u != nil {
			nIdx := "p3"
			if fn == "getMinMaxLoadForReplica" {
				nIdx = "p2"
			}
			puts := u.Match(an.Call("github.com/emirpasic/gods/maps/treemap.(*Map).Put"))
			okp := len(puts) == 1
			if okp {
				t := u.ArgTerm(puts[0], 0)
				okp = strings.Contains(t, "nameIndex: "+nIdx+"[name]") && strings.Contains(t, "name: name")
			}
			r.Check("C17-D1", u.Name+": every candidate carries its own name and nameIndex", "", okp, "")
		}
	}

	// ---- D2: refusal
	r.Guard("C17-D2", entry, an.Call(c17pkg+"getRebalancedPartitionsFromNameList"), "!(len(p4) < p2)", an.GuardOpts{Min: 1})
	r.Returns("C17-D2", entry, []an.ReturnClass{
		{Name: "refuse", Match: func(u *an.Unit, s *flow.Site) bool {
			return len(s.Ret.Results) == 2 && u.C.Term(s.Ret.Results[0]) == "nil" && u.C.Term(s.Ret.Results[1]) == "pdnode_coord.ErrNodeUnavailable"
		}, Guard: "len(p4) < p2"},
		{Name: "delegate", Match: func(u *an.Unit, s *flow.Site) bool {
			return len(s.Ret.Results) == 1 && strings.HasPrefix(u.C.Term(s.Ret.Results[0]), "pdnode_coord.getRebalancedPartitionsFromNameList(p0, p1, p2, p3, ")
		}},
	}, 2)
	nl := entry.Match(an.LocalStore("nodeNameList"))
	r.Check("C17-D2", entry.Name+": the ring is built from the live nodes passed in", "", len(nl) == 1 && nl[0].RHS != nil && entry.C.Term(nl[0].RHS) == "pdnode_coord.getNodeNameList(p4)", "")
	if u := c.unit("C17-D2", c17pkg+"getRebalancedPartitionsFromNameList"); u != nil {
		r.Guard("C17-D2", u, an.Call(c17pkg+"fillPartitionMapV1", c17pkg+"fillPartitionMapV2"), "!(totalCnt < p2)", an.GuardOpts{Min: 2})
		r.Guard("C17-D2", u, an.Call(c17pkg+"fillPartitionMapV1", c17pkg+"fillPartitionMapV2"), "!(len(combined) < totalCnt)", an.GuardOpts{Min: 2})
		r.Returns("C17-D2", u, []an.ReturnClass{
			{Name: "refuse", Match: func(u *an.Unit, s *flow.Site) bool {
				return len(s.Ret.Results) == 2 && u.C.Term(s.Ret.Results[0]) == "nil" && u.C.Term(s.Ret.Results[1]) == "pdnode_coord.ErrNodeUnavailable"
			}, Guard: "totalCnt < p2"},
			{Name: "layout", Match: func(u *an.Unit, s *flow.Site) bool {
				if len(s.Ret.Results) != 2 || u.C.Term(s.Ret.Results[1]) != "nil" {
					return false
				}
				t := u.C.Term(s.Ret.Results[0])
				return t == "pdnode_coord.fillPartitionMapV2(p0, p1, p2, p3, combined)" || t == "pdnode_coord.fillPartitionMapV1(p0, p1, p2, combined)"
			}},
		}, 3)
		// totalCnt counts every node of every list
		okc := false
		for _, s := range u.Match(an.LocalStore("totalCnt")) {
			if s.Tok.String() == "+=" && s.RHS != nil && strings.HasPrefix(u.C.Term(s.RHS), "len(nList") {
				okc = true
			} else if !(s.RHS != nil && u.C.Term(s.RHS) == "0") {
				okc = false
				break
			}
		}
		r.Check("C17-D2", u.Name+": totalCnt is the number of nodes in all per-DC lists", "", okc, "")
		// ---- D4 (ring construction): every node is taken exactly once, round-robin over the per-DC sorted lists
		ap := u.Match(an.LocalStore("combined"))
		nApp := 0
		for _, s := range ap {
			if s.RHS == nil {
				continue
			}
			nApp++
			t := u.C.Term(s.RHS)
			// the slot S of the list that is read: append(combined, sortedNodeNameList[S][0])
			const pre, post = "append(combined, sortedNodeNameList[", "][0])"
			slot := ""
			if strings.HasPrefix(t, pre) && strings.HasSuffix(t, post) {
				slot = t[len(pre) : len(t)-len(post)]
			}
			r.Check("C17-D4", u.Name+": the ring takes the head of the current data centre's list", u.Pos(s.Pos), slot != "", "appended "+t)
			// S is the running index modulo the number of lists: written out, or a local defined as that
			turn := slot == "(idx_2 % len(sortedNodeNameList))"
			if !turn {
				u.InspectAll(func(n ast.Node) bool {
					if id, ok := n.(*ast.Ident); ok && !turn {
						if o := u.Info().Defs[id]; o != nil && u.C.Term(id) == slot {
							if def := u.C.SingleDef(o); def != nil && u.C.Term(def) == "(idx_2 % len(sortedNodeNameList))" {
								turn = true
							}
						}
					}
					return !turn
				})
			}
			r.Check("C17-D4", u.Name+": the current data centre is the running index modulo the number of lists", u.Pos(s.Pos), turn, "slot "+slot)
			// and then drops that head from the same list
			fol := false
			for _, d := range u.Sites {
				if d.Kind == flow.SStore && d.Block == s.Block && s.SameBlockBefore(d) && d.RHS != nil && slot != "" &&
					u.C.Term(d.LHS) == "sortedNodeNameList["+slot+"]" && u.C.Term(d.RHS) == "sortedNodeNameList["+slot+"][1:]" {
					fol = true
				}
			}
			r.Check("C17-D4", u.Name+": the taken node is removed from its list (no node enters the ring twice)", u.Pos(s.Pos), fol, "")
			if slot != "" {
				r.GuardSite("C17-D4", u, s, c.W.Parse("!(0 == len(sortedNodeNameList["+slot+"]))"), "the list is not empty")
			}
			// idx advances exactly once on every trip round the loop, whether a node was taken or the list was empty
			var loop *ast.ForStmt
			u.InspectAll(func(n ast.Node) bool {
				if f, ok := n.(*ast.ForStmt); ok && f.Pos() <= s.Pos && s.Pos < f.End() {
					loop = f // innermost wins
				}
				return true
			})
			once := false
			detail := "the append is not inside a for loop"
			if loop != nil {
				totals, known := an.PerTrip(u.Info(), loop.Body, func(st ast.Stmt) bool {
					switch x := st.(type) {
					case *ast.IncDecStmt:
						return x.Tok == token.INC && localName(u, x.X) == "idx"
					case *ast.AssignStmt:
						return len(x.Lhs) == 1 && len(x.Rhs) == 1 && localName(u, x.Lhs[0]) == "idx" && x.Tok == token.ADD_ASSIGN && u.C.Term(x.Rhs[0]) == "1"
					}
					return false
				})
				once = known && len(totals) == 1 && totals[1]
				detail = fmt.Sprintf("advances per trip: %v (walk complete: %v)", sortedKeys(totals), known)
				// and the only other store to idx is its initialisation before the loop
				for _, d := range u.Match(an.LocalStore("idx")) {
					if d.Tok.String() == "++" || (d.Tok.String() == "+=" && d.RHS != nil && u.C.Term(d.RHS) == "1") {
						continue
					}
					if !(d.Pos < loop.Pos() && d.RHS != nil && u.C.Term(d.RHS) == "0") {
						once = false
						detail += "; idx is also assigned at " + u.Pos(d.Pos)
					}
				}
			}
			r.Check("C17-D4", u.Name+": the data-centre index advances once per trip, after every take and every empty list", u.Pos(s.Pos), once, detail)
		}
		r.Min("C17-D4", nApp, 1, "ring append sites")
		srt := u.Match(an.Call("sort.Sort"))
		r.Check("C17-D4", u.Name+": each per-DC list is sorted before interleaving", "", len(srt) == 1 && strings.HasPrefix(u.ArgTerm(srt[0], 0), "nList"), "")
	}

	// ---- D3: callers
	nUse := 0
	for _, cs := range c.W.AllSites(an.Call(entry.Name), "getRebalancedNamespacePartitions", nil) {
		u := cs.U
		var lay types.Object
		for _, d := range u.Sites {
			if d.Kind == flow.SStore && d.Tuple == cs.S.Call && d.TupleIdx == 0 {
				lay = d.Local
			}
		}
		if lay == nil {
			r.Bad("C17-D3", u.Name+": the layout and its error are bound together", u.Pos(cs.S.Pos), "result not bound by a two-value assignment")
			continue
		}
		if ok, msg := u.ErrTested(cs.S); !ok {
			r.Bad("C17-D3", u.Name+": the placement error is tested", u.Pos(cs.S.Pos), msg)
			continue
		}
		for _, use := range flow.VarUses(u.G, u.Info(), lay) {
			nUse++
			pc := u.SitePC(use)
			res := flow.Implies(pc, c.W.Parse("err == nil"))
			if !res.Holds {
				// the error variable may carry a scope suffix
				atoms := map[string]*flow.F{}
				pc.Atoms(atoms)
				for k, a := range atoms {
					if strings.HasPrefix(k, "err") && strings.HasSuffix(k, " == nil") && flow.Implies(pc, a).Holds {
						res.Holds = true
					}
				}
			}
			r.Check("C17-D3", u.Name+": the layout is read only after the error was tested nil", u.Pos(use.Pos), res.Holds, "pc = "+clipS(pc.String(), 300))
		}
	}
	r.Min("C17-D3", nUse, 4, "uses of the layout in callers")

	// ---- D4: ring slots
	if u := c.unit("C17-D4", c17pkg+"fillPartitionMapV1"); u != nil {
		slot := an.StoreTerm("nlist[j]")
		r.StoreValues("C17-D4", u, slot, []string{"p3[((j + selectIndex) % len(p3))]"}, 1)
		r.Guard("C17-D4", u, slot, "j < p2 && i < p1", an.GuardOpts{Min: 1})
		nIncr, other := 0, 0
		for _, s := range u.Match(an.LocalStore("selectIndex")) {
			switch {
			case s.Tok.String() == "++":
				nIncr++
				// inside the loop over the partitions, after (and outside) the loop that fills the slots — whichever form
				// the loops have
				var slotLoop ast.Node
				for _, st := range u.Match(slot) {
					u.InspectAll(func(n ast.Node) bool {
						switch n.(type) {
						case *ast.ForStmt, *ast.RangeStmt:
							if n.Pos() <= st.Pos && st.Pos < n.End() {
								slotLoop = n // innermost wins: visited last
							}
						}
						return true
					})
				}
				after := slotLoop != nil && s.Pos >= slotLoop.End()
				inOuter := flow.Implies(u.SitePC(s), c.W.Parse("i < p1")).Holds
				r.Check("C17-D4", u.Name+": the start slot advances once per partition, after its slots are filled", u.Pos(s.Pos), after && inOuter,
					fmt.Sprintf("after the slot loop: %v; inside the partition loop: %v", after, inOuter))
			case s.RHS != nil && u.C.Term(s.RHS) == "int(murmur3.Sum32([]byte(p0)))":
			default:
				other++
			}
		}
		r.Check("C17-D4", u.Name+": the start slot advances by exactly one per partition", "", nIncr == 1 && other == 0, fmt.Sprintf("%d increments, %d other assignments", nIncr, other))
		r.StoreValues("C17-D4", u, an.LocalStore("nlist"), []string{"make([]string, p2)"}, 1)
		r.StoreValues("C17-D4", u, an.StoreTerm("partitionNodes[i]"), []string{"nlist"}, 1)
		r.StoreValues("C17-D4", u, an.LocalStore("partitionNodes"), []string{"make([][]string, p1)"}, 1)
	}

	// ---- D5: v2 bookkeeping
	if u := c.unit("C17-D5", c17pkg+"fillPartitionMapV2"); u != nil {
		// (a) exclusion starts from the old members
		ex := u.Match(an.LocalStore("exclude"))
		var exTerms []string
		for _, s := range ex {
			if s.RHS != nil {
				exTerms = append(exTerms, u.C.Term(s.RHS))
			}
		}
		sort.Strings(exTerms)
		r.Check("C17-D5", u.Name+": the exclusion list is the old members plus every node chosen for this partition, nothing is ever removed", "", strings.Join(exTerms, " | ") == "append(exclude, nlist[j]) | append(exclude, nlist[j]) | append(exclude, oldlist...) | make([]string, 0)", strings.Join(exTerms, " | "))
		// (b) a slot is filled from: the old member when it is live, or the chosen candidate; each chosen candidate is excluded before the next choice
		for _, s := range u.Match(an.StoreTerm("nlist[j]")) {
			t := u.C.Term(s.RHS)
			switch t {
			case "old":
				pc := u.SitePC(s)
				atoms := map[string]*flow.F{}
				pc.Atoms(atoms)
				live := false
				for k, a := range atoms {
					if strings.HasPrefix(k, "ok") && flow.Implies(pc, a).Holds {
						// ok comes from a lookup of old in a load map (whose keys are the live nodes)
						for _, d := range u.Sites {
							if d.Kind == flow.SStore && d.Local != nil && u.C.Term(d.LHS) == k && d.Tuple != nil {
								dt := u.C.Term(d.Tuple)
								if (dt == "newNodesLeaderMap[old]" || dt == "newNodesReplicaMap[old]") && d.Block != nil && u.G.Dominates(d.Block, s.Block) {
									live = true
								}
							}
						}
					}
				}
				r.Check("C17-D5", u.Name+": an old member is kept only when it is among the live nodes", u.Pos(s.Pos), live, "pc = "+clipS(pc.String(), 200))
			case "nleader.name", "nreplica.name":
				fol := false
				for _, d := range u.Sites {
					if d.Kind == flow.SStore && d.Block == s.Block && s.SameBlockBefore(d) && d.RHS != nil && localName(u, d.LHS) == "exclude" && u.C.Term(d.RHS) == "append(exclude, nlist[j])" {
						fol = true
					}
				}
				r.Check("C17-D5", u.Name+": a chosen node is excluded before the next choice for the same partition", u.Pos(s.Pos), fol, "")
			default:
				r.Bad("C17-D5", u.Name+": a replica slot is filled from the old member or the chosen candidate", u.Pos(s.Pos), "filled with "+t)
			}
		}
		r.Min("C17-D5", len(u.Match(an.StoreTerm("nlist[j]"))), 4, "replica slot stores")
		// the choice is made with the current exclusion list
		for _, s := range u.Match(an.Call(c17pkg+"getMinMaxLoadForLeader", c17pkg+"getMinMaxLoadForReplica")) {
			i := 2
			if strings.HasSuffix(an.CalleeName(s), "ForReplica") {
				i = 1
			}
			r.Check("C17-D5", u.Name+": candidates are chosen with the partition's exclusion list", u.Pos(s.Pos), u.ArgTerm(s, i) == "exclude", "argument "+u.ArgTerm(s, i))
		}
		// (c) the load maps only get keys that are live nodes
		for _, f := range []string{"newNodesLeaderMap", "newNodesReplicaMap"} {
			for _, s := range u.Sites {
				if s.Kind != flow.SStore {
					continue
				}
				ix, ok := ast.Unparen(s.LHS).(*ast.IndexExpr)
				if !ok || localName(u, ix.X) != f {
					continue
				}
				k := u.C.Term(ix.Index)
				okk := false
				why := ""
				switch k {
				case "n":
					okk = true // range over the ring
				case "nleader.name", "nreplica.name":
					okk = true // a candidate: candidates are keys of these maps
				case "name":
					// an old member: only under the found-flag of a lookup in the same map
					pc := u.SitePC(s)
					atoms := map[string]*flow.F{}
					pc.Atoms(atoms)
					for kk, a := range atoms {
						if strings.HasPrefix(kk, "ok") && flow.Implies(pc, a).Holds {
							okk = true
						}
					}
					why = "pc = " + pc.String()
				}
				r.Check("C17-D5", fmt.Sprintf("%s: %s only gets keys that are live nodes", u.Name, f), u.Pos(s.Pos), okk, "key "+k+" "+why)
			}
		}
	}
	for _, fn := range []string{"getMinMaxLoadForLeader", "getMinMaxLoadForReplica"} {
		if u := c.unit("C17-D5", c17pkg+fn); u != nil {
			exIdx := "p2"
			if fn == "getMinMaxLoadForReplica" {
				exIdx = "p1"
			}
			puts := u.Match(an.Call("github.com/emirpasic/gods/maps/treemap.(*Map).Put"))
			r.Min("C17-D5", len(puts), 1, u.Name+": candidates put into the load tree")
			// (A) the flag arrangement: Put under !ignore, ignore raised exactly under ex == name inside a range over the
			// exclusion list
			flagOK := len(puts) > 0
			for _, p := range puts {
				if res := flow.Implies(u.SitePC(p), c.W.Parse("!ignore")); !res.Holds || res.Undecided != "" {
					flagOK = false
				}
			}
			okI := false
			for _, s := range u.Match(an.LocalStore("ignore")) {
				if s.RHS != nil && u.C.Term(s.RHS) == "true" {
					okI = flow.Implies(u.SitePC(s), c.W.Parse("ex == name")).Holds
				}
			}
			inner := false
			for _, s := range u.Match(an.M{}.Range()) {
				if u.C.Term(s.Rng.X) == exIdx && localName(u, s.Rng.Value) == "ex" {
					inner = true
				}
			}
			flagOK = flagOK && okI && inner
			// (B) any arrangement (a membership helper read in place of its call, a labelled continue): from the branch
			// taken when an element of the exclusion list equals the name of the current iteration, no Put is reachable
			// without first passing the head of the loop over the nodes (the next name)
			graphOK := c17ExcludedNeverPut(u, exIdx, puts)
			r.Check("C17-D5", u.Name+": a name on the exclusion list never becomes a candidate", "", flagOK || graphOK,
				fmt.Sprintf("flag arrangement %v, reachability argument %v", flagOK, graphOK))
		}
	}
	if u := c.unit("C17-D5", c17pkg+"moveIfUnbalanced"); u != nil {
		mv := u.Match(an.Call(c17pkg + "replaceReplicaWith"))
		r.Min("C17-D5", len(mv), 2, "balance moves")
		for _, s := range mv {
			pid := u.ArgTerm(s, 0)
			pid = strings.TrimSuffix(strings.TrimPrefix(pid, "p3["), "]")
			ok := u.ArgTerm(s, 1) == "max.name" && u.ArgTerm(s, 2) == "min.name"
			r.Check("C17-D5", u.Name+": a move replaces the most loaded node by the least loaded one", u.Pos(s.Pos), ok, "")
			r.GuardSite("C17-D5", u, s, c.W.Parse("!pdnode_coord.findPidInList("+pid+", min.replicaPids)"), "the least loaded node is not already a replica of the partition")
		}
		// a leader exchange swaps two slots of the same list: slot 0 gets the new leader, the slot that held the new
		// leader gets the old leader saved before the overwrite
		nx := 0
		for _, s := range u.Match(an.StoreTerm("p3[pid][0]")) {
			if _, isIx := ast.Unparen(s.LHS).(*ast.IndexExpr); !isIx {
				continue
			}
			nx++
			r.GuardSite("C17-D5", u, s, c.W.Parse("min.name == n"), "the exchanged slot holds the node that becomes leader")
			okSwap := u.C.Term(s.RHS) == "min.name"
			var saved, back bool
			for _, d := range u.Sites {
				if d.Kind != flow.SStore || d.Block != s.Block {
					continue
				}
				if localName(u, d.LHS) == "tmp" && d.SameBlockBefore(s) && d.RHS != nil {
					if ix, ok := ast.Unparen(d.RHS).(*ast.IndexExpr); ok && localName(u, ix.X) == "nlist" && u.C.Term(ix.Index) == "0" {
						saved = true
					}
				}
				if s.SameBlockBefore(d) && localName(u, d.RHS) == "tmp" {
					if ix, ok := ast.Unparen(d.LHS).(*ast.IndexExpr); ok && localName(u, ix.X) == "nlist" && localName(u, ix.Index) == "index" {
						back = true
					}
				}
			}
			r.Check("C17-D5", u.Name+": a leader exchange swaps the two slots (old leader saved first, written to the slot of the new leader)", u.Pos(s.Pos), okSwap && saved && back, fmt.Sprintf("new leader stored: %v, old saved: %v, written back: %v", okSwap, saved, back))
		}
		r.Min("C17-D5", nx, 1, "leader exchange sites")
	}
	if u := c.unit("C17-D1", c17pkg+"SortableStrings.Less"); u != nil {
		r.ReturnFormula("C17-D1", u, "recv[p0] < recv[p1]", an.Equiv)
	}
	if u := c.unit("C17-D5", c17pkg+"moveIfUnbalanced"); u != nil {
		// load bookkeeping follows the layout: a partition leaves the most loaded node's replica list only where its
		// replica was actually moved away (not where only the leader role was exchanged), and enters the least loaded
		// node's list only there
		mv := u.Match(an.Call(c17pkg + "replaceReplicaWith"))
		n := 0
		for _, s := range u.Sites {
			if s.Kind != flow.SStore || s.RHS == nil {
				continue
			}
			lt := u.C.Term(s.LHS)
			if lt != "p2[max.name]" && lt != "p2[min.name]" {
				continue
			}
			n++
			r.Check("C17-D5", u.Name+": the replica-load map changes only together with a move of the replica ("+lt+")", u.Pos(s.Pos), pathFree(u, s, mv),
				"the load map says the node lost (or got) the partition although the layout was not changed on this path: a later balance step places the partition on a node that already holds it")
		}
		r.Min("C17-D5", n, 4, "replica-load map updates in moveIfUnbalanced")
	}
	if u := c.unit("C17-D5", c17pkg+"fillPartitionMapV2"); u != nil {
		// each partition's list is the freshly made list of exactly `replica` slots
		r.StoreValues("C17-D5", u, an.StoreTerm("partitionNodes[pid_2]"), []string{"nlist"}, 1)
		r.StoreValues("C17-D5", u, an.LocalStore("nlist"), []string{"make([]string, p2)"}, 1)
		r.Guard("C17-D5", u, an.StoreTerm("nlist[j]"), "j < p2", an.GuardOpts{Min: 4})
		r.StoreValues("C17-D5", u, an.LocalStore("partitionNodes"), []string{"make([][]string, p1)", "TUPLE pdnode_coord.moveIfUnbalanced(nameIndexMap, newNodesLeaderMap, newNodesReplicaMap, partitionNodes) #0"}, 1)
	}
	if u := c.unit("C17-D5", c17pkg+"replaceReplicaWith"); u != nil {
		st := u.Match(an.StoreTerm("p0[i]"))
		ok := len(st) == 1 && u.C.Term(st[0].RHS) == "p2" && flow.Implies(u.SitePC(st[0]), c.W.Parse("p0[i] == p1")).Holds
		r.Check("C17-D5", u.Name+": exactly the slot holding the old node is overwritten", "", ok, "")
	}
}

// localName is identName in the rule vocabulary: a renamed local recognised by its signature keeps its old name.
func localName(u *an.Unit, e ast.Expr) string {
	if e == nil {
		return ""
	}
	if id, ok := ast.Unparen(e).(*ast.Ident); ok {
		if b := u.C.BaseName(u.Info().ObjectOf(id)); b != "" {
			return b
		}
		return id.Name
	}
	return ""
}

func identName(e ast.Expr) string {
	if e == nil {
		return ""
	}
	if id, ok := ast.Unparen(e).(*ast.Ident); ok {
		return id.Name
	}
	return ""
}

// c17Comparator: the comparator is a total order on candidates: every return compares with IntComparator, a return that
// does not compare nameIndex is taken only when the compared quantities differ (so it cannot yield 0), and the
// remaining return compares the unique nameIndex.
func c17Comparator(c *Ctx, name string) bool {
	r := c.R
	u := c.unit("C17-D1", name)
	if u == nil {
		return false
	}
	all := true
	nIdx := 0
	for _, s := range u.Match(an.Return()) {
		if len(s.Ret.Results) != 1 {
			all = false
			continue
		}
		call, ok := ast.Unparen(s.Ret.Results[0]).(*ast.CallExpr)
		if !ok || len(call.Args) != 2 {
			r.Bad("C17-D1", name+": every result is an integer comparison", u.Pos(s.Pos), "returns "+u.C.Term(s.Ret.Results[0]))
			all = false
			continue
		}
		if f, ok := typeutil.Callee(u.Info(), call).(*types.Func); !ok || load.QualName(f) != "github.com/emirpasic/gods/utils.IntComparator" {
			r.Bad("C17-D1", name+": every result is an integer comparison", u.Pos(s.Pos), "returns "+u.C.Term(s.Ret.Results[0]))
			all = false
			continue
		}
		a, b := u.C.Term(call.Args[0]), u.C.Term(call.Args[1])
		// the two operands are the same projection of the left and of the right item
		if strings.Replace(a, "p0.", "p1.", 1) != b {
			r.Bad("C17-D1", name+": compares the same quantity of both items", u.Pos(s.Pos), a+" vs "+b)
			all = false
			continue
		}
		if strings.HasSuffix(a, ".nameIndex") {
			nIdx++
			r.Ok("C17-D1", name+": ties are broken by the unique nameIndex", u.Pos(s.Pos), "")
			continue
		}
		pc := u.SitePC(s)
		x, y := a, b
		if y < x {
			x, y = y, x
		}
		res := flow.Implies(pc, flow.Not(flow.AtomKey(x+" == "+y)))
		ok2 := res.Holds
		r.Check("C17-D1", name+": a comparison of loads is returned only when the loads differ", u.Pos(s.Pos), ok2, "pc = "+clipS(pc.String(), 300)+" ; compared "+a)
		if !ok2 {
			all = false
		}
	}
	if nIdx != 1 {
		r.Bad("C17-D1", name+": ties are broken by the unique nameIndex", "", fmt.Sprintf("%d returns compare nameIndex", nIdx))
		all = false
	}
	return all
}

// c17RangeExtra: stricter conditions for the idioms MapRangeIdiom accepts too easily for a layout computation.
func c17RangeExtra(c *Ctx, u *an.Unit, rs *ast.RangeStmt, cmpTotal map[string]bool) string {
	info := u.Info()
	why := ""
	ast.Inspect(rs.Body, func(n ast.Node) bool {
		switch x := n.(type) {
		case *ast.AssignStmt:
			// m[k] = append(m[k], v): the per-key list is in iteration order; it must be sorted before use
			for i, l := range x.Lhs {
				ix, ok := ast.Unparen(l).(*ast.IndexExpr)
				if !ok || i >= len(x.Rhs) {
					continue
				}
				call, ok := ast.Unparen(x.Rhs[i]).(*ast.CallExpr)
				if !ok {
					continue
				}
				if id, ok := call.Fun.(*ast.Ident); !ok || id.Name != "append" {
					continue
				}
				mname := u.C.Term(ix.X)
				sorted := false
				u.InspectAll(func(m ast.Node) bool {
					sc, ok := m.(*ast.CallExpr)
					if !ok || sc.Pos() < rs.End() || len(sc.Args) != 1 {
						return true
					}
					if f, ok := typeutil.Callee(info, sc).(*types.Func); ok && f.Pkg() != nil && f.Pkg().Path() == "sort" {
						if six, ok := ast.Unparen(sc.Args[0]).(*ast.IndexExpr); ok && u.C.Term(six.X) == mname {
							sorted = true
						}
					}
					return true
				})
				if !sorted {
					why = "appends to the lists of " + mname + " in iteration order and never sorts them"
				}
			}
		case *ast.CallExpr:
			f, ok := typeutil.Callee(info, x).(*types.Func)
			if !ok {
				return true
			}
			q := load.QualName(f)
			if strings.HasSuffix(q, "treemap.(*Map).Put") {
				// the tree must have been built with a total comparator
				sel, _ := x.Fun.(*ast.SelectorExpr)
				okc := false
				if sel != nil {
					if id, ok := sel.X.(*ast.Ident); ok {
						o := info.ObjectOf(id)
						for _, d := range u.Sites {
							if d.Kind == flow.SStore && d.Local == o && d.RHS != nil {
								t := u.C.Term(d.RHS)
								for cmp, total := range cmpTotal {
									if t == "treemap.NewWith(pdnode_coord."+strings.TrimPrefix(cmp, c17pkg)+")" && total {
										okc = true
									}
								}
							}
						}
					}
				}
				if !okc {
					why = "inserts into an ordered map whose comparator is not one of the checked total orders"
				}
			} else if f.Pkg() != nil && !strings.Contains(f.Pkg().Path(), "ZanRedisDB") && f.Pkg().Path() != "sort" && f.Name() != "append" && f.Name() != "len" {
				if sig, ok := f.Type().(*types.Signature); ok && sig.Recv() != nil {
					why = "calls " + q + " on a container in iteration order"
				}
			}
		}
		return true
	})
	return why
}

// D6: what is computed for one node must not leak into the next. getNodeNameList groups node ids by data centre inside a
// range over the live nodes (a map: the order is random); the group key is read from the node's own tags, with "" for an
// untagged node. The variable holding the key must be declared inside the loop body (fresh per node): declared outside,
// an untagged node inherits the data centre of whichever node happened to be visited before it.
func c17D6(c *Ctx) {
	r := c.R
	r.Clause("C17-D6", "per-node values are fresh in every iteration over the node map")
	u := c.unit("C17-D6", c17pkg+"getNodeNameList")
	if u == nil {
		return
	}
	n := 0
	for _, s := range u.Sites {
		if s.Kind != flow.SStore || !s.Index || s.Local == nil {
			continue
		}
		ix, ok := ast.Unparen(s.LHS).(*ast.IndexExpr)
		if !ok {
			continue
		}
		if _, isMap := u.Info().TypeOf(ix.X).Underlying().(*types.Map); !isMap {
			continue
		}
		// the innermost range statement over the node map that contains the store
		var loop *ast.RangeStmt
		u.InspectAll(func(nd ast.Node) bool {
			if rs, ok := nd.(*ast.RangeStmt); ok && rs.Pos() <= s.Pos && s.Pos < rs.End() {
				loop = rs
			}
			return true
		})
		if loop == nil {
			continue
		}
		n++
		// every local the key mentions is declared inside that loop (or is the loop's own key/value variable)
		fresh, which := true, ""
		ast.Inspect(ix.Index, func(nd ast.Node) bool {
			id, ok := nd.(*ast.Ident)
			if !ok {
				return true
			}
			v, isVar := u.Info().ObjectOf(id).(*types.Var)
			if !isVar || v.IsField() || v.Pkg() == nil || v.Parent() == v.Pkg().Scope() {
				return true
			}
			if _, isRole := u.C.RoleOf(v); isRole {
				return true
			}
			if v.Pos() < loop.Pos() || v.Pos() >= loop.End() {
				fresh, which = false, id.Name
			}
			return true
		})
		r.Check("C17-D6", fmt.Sprintf("%s: the key of %s is computed afresh for every node", u.Name, u.C.Term(ix.X)), u.Pos(s.Pos), fresh,
			"local "+which+" is declared outside the loop over the node map: a node without the tag inherits the value of the node visited before it (map order)")
	}
	r.Min("C17-D6", n, 1, "grouping stores inside the loop over the live nodes")
}

func init() {
	old := registry["C17"].Run
	registry["C17"].Run = func(c *Ctx) { old(c); c17D6(c) }
}


// c17ExcludedNeverPut: see (B) at its use.
func c17ExcludedNeverPut(u *an.Unit, exclTerm string, puts []*an.Site) bool {
	// the loops: outer = the range whose body contains the Put; inner = a range over the exclusion list
	var outerHead *flow.Block
	var outerKey, innerVal string
	for _, s := range u.Match(an.M{}.Range()) {
		rs := s.Rng
		if u.C.Term(rs.X) == exclTerm && rs.Value != nil {
			if id, ok := rs.Value.(*ast.Ident); ok {
				innerVal = u.C.TermOfObj(u.Info().ObjectOf(id))
			}
			continue
		}
		for _, p := range puts {
			if rs.Pos() <= p.Pos && p.Pos < rs.End() && rs.Key != nil {
				if id, ok := rs.Key.(*ast.Ident); ok {
					outerKey = u.C.TermOfObj(u.Info().ObjectOf(id))
					outerHead = s.Block
				}
			}
		}
	}
	if outerHead == nil || outerKey == "" || innerVal == "" {
		return false
	}
	eq := flow.MakeCmp(token.EQL, innerVal, outerKey, "", "")
	found := false
	for _, b := range u.G.Blocks {
		if b.EdgeCond == nil || !b.Reachable() {
			continue
		}
		f := u.C.Formula(b.EdgeCond)
		if res := flow.Implies(f, eq); !res.Holds || res.Undecided != "" {
			continue
		}
		found = true
		// forward from the match edge, stopping at the head of the outer loop
		seen := map[*flow.Block]bool{}
		work := []*flow.Block{b}
		for len(work) > 0 {
			x := work[len(work)-1]
			work = work[:len(work)-1]
			if seen[x] || x == outerHead {
				continue
			}
			seen[x] = true
			for _, p := range puts {
				if p.Block == x {
					return false
				}
			}
			for _, e := range x.Succs {
				work = append(work, e.To)
			}
		}
	}
	return found
}

func sortedKeys(m map[int]bool) []int {
	var out []int
	for k := range m {
		out = append(out, k)
	}
	sort.Ints(out)
	return out
}
