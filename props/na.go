package props

// NotApplicable lists the properties that are not claimed, with the reason. A property that has a
// registered check is never listed here (the manifest generator enforces it).
var NotApplicable = map[string]string{
	"C04": "Linearizability of concurrent client histories under kill/restart/leader transfer is a property of executions across processes; no static argument in reach bounds the histories. Its code-visible ingredients (persist-before-send, reply on apply, ordering/filter rules) are decided under C03, C06, C07 and C11; none of them alone is a necessary condition specific to C04.",
	"C08": "Conformance of replies and data to a Redis reference model for all command sequences is value-level behaviour (index arithmetic, score ties, reply formats). The shape-visible parts are decided elsewhere: repeated members inside one command under C09-N1, argument validation under C11.",
}

// Pending are properties whose checks are designed (DESIGN.md section 4) but not built yet; they are
// listed as not applicable until a check exists, so the manifest never claims an unbuilt check.
var Pending = map[string]string{
}
