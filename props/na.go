package props

// NotApplicable lists the properties that are not claimed, with the reason. A property that has a
// registered check is never listed here (the manifest generator enforces it).
var NotApplicable = map[string]string{
	"C08": "Conformance of replies and data to a Redis reference model for all command sequences is value-level behaviour (index arithmetic, score ties, reply formats). The shape-visible parts are decided elsewhere: repeated members inside one command under C09-N1, argument validation under C11.",
}

// Pending are properties whose checks are designed (DESIGN.md section 4) but not built yet; they are
// listed as not applicable until a check exists, so the manifest never claims an unbuilt check.
var Pending = map[string]string{
}
