package props

import (
	"fmt"
	"go/ast"
	"strings"

	"verif/internal/an"
	"verif/internal/flow"
)

func init() {
	register(&Property{
		ID:        "C18",
		Technique: "static analysis: enumeration of every metadata write site of the placement driver with provenance of the compare-and-swap epoch, guard implication by truth table on the removal/addition decisions, who-may-write shapes for Removings / MaxRaftID / RaftIDs, expression shape of IsISRQuorum / GetISR",
		Explanation: "Decides, for every site in package cluster/pdnode_coord that writes partition replica metadata: (G1) the write is a compare-and-swap on the epoch of the very object being written, which is a copy of the input, and the input is replaced only after success; (G2) a replica is marked for removal only when none is pending, and the write happens only with an ISR quorum after the removal and at most one pending removal; in handleNamespaceMigrate additionally ISR-1 > Replica/2 at the mark and no write when alive replicas <= Replica/2; IsISRQuorum is len(GetISR()) > Replica/2 and GetISR is RaftNodes minus Removings; (G3) replacements are added only with no removal pending and all ISR fully ready, at most one per round, to a node that does not already hold a replica; (G4) raft replica ids come from MaxRaftID after incrementing it and MaxRaftID is never decreased; (G5) a replica leaves RaftNodes only from Removings, not while it is still joined in raft, never the last one, and the write needs a quorum.",
		NotDecided: "sequences of rounds (the invariant over histories), what data nodes answer, etcd semantics, the learner coordinator's placement choices beyond G1/G4.",
		Assumptions: []string{"path conditions as in C01", "time.Now() in RemoveTime is bookkeeping only"},
		Run: runC18,
	})
}

const updFn = "cluster.PDRegister.UpdateNamespacePartReplicaInfo"

func runC18(c *Ctx) {
	r := c.R
	r.Clause("C18-G1", "compare-and-swap on the written object's own epoch; input replaced only after success")
	r.Clause("C18-G2", "removals need a quorum after the removal and at most one at a time")
	r.Clause("C18-G3", "additions one at a time, gated on readiness, to a distinct node")
	r.Clause("C18-G4", "replica ids are never reused")
	r.Clause("C18-G5", "a replica leaves RaftNodes only from Removings, when not joined, never the last")
	pk := []string{"cluster/pdnode_coord"}
	ups := c.W.AllSites(an.Call(updFn), "UpdateNamespacePartReplicaInfo", pk)
	r.Min("C18-G1", len(ups), 10, "calls of UpdateNamespacePartReplicaInfo in cluster/pdnode_coord")
	for _, sw := range ups {
		u, s := sw.U, sw.S
		obj := u.ArgTerm(s, 2)
		ep := u.ArgTerm(s, 3)
		base := strings.TrimPrefix(obj, "&")
		ok := ep == base+".Epoch()"
		r.Check("C18-G1", fmt.Sprintf("%s: UpdateNamespacePartReplicaInfo(%s, %s) swaps on the written object's own epoch", u.Name, obj, ep), u.Pos(s.Pos), ok,
			"the expected epoch must be read from the object that is written")
		// the written object is a copy (GetCopy / DeepClone / a local value), not the caller's input
		root := strings.SplitN(base, ".", 2)[0]
		isCopy := false
		for _, st := range u.Sites {
			if st.Kind == flow.SStore && st.RHS != nil {
				if _, isID := ast.Unparen(st.LHS).(*ast.Ident); isID && localName(u, st.LHS) == root {
					t := u.C.Term(st.RHS)
					if strings.HasSuffix(t, ".GetCopy()") || strings.HasSuffix(t, ".DeepClone()") || strings.Contains(t, "GetCopy()") || strings.Contains(t, "DeepClone()") {
						isCopy = true
					}
				}
			}
		}
		// outer-function locals (closures) are resolved through the canonical term: a captured copy prints as its definition
		if !isCopy && (strings.Contains(base, "GetCopy()") || strings.Contains(base, "DeepClone()")) {
			isCopy = true
		}
		detail := "modifying the shared input before the swap succeeded leaks a rejected change"
		if why, ex := c18CopyExceptions[u.Name]; ex && !isCopy {
			isCopy, detail = true, "exception: "+why
		}
		r.Check("C18-G1", fmt.Sprintf("%s: the object written (%s) is a copy of the input", u.Name, root), u.Pos(s.Pos), isCopy, detail)
	}

	// G2/G3/G5 per decision function
	if u := c.unit("C18-G2", "cluster/pdnode_coord.(*PDCoordinator).handleNamespaceMigrate"); u != nil {
		mark := an.StoreElem("cluster.PartitionReplicaInfo.Removings")
		r.Guard("C18-G2", u, mark, "len(nsInfo.Removings) == 0 && nsInfo.Replica/2 < len(nsInfo.GetISR())-1", an.GuardOpts{Min: 1})
		r.Order("C18-G2", u, mark, []an.M{an.Edge("!(0 < len(p0.Removings))")}, an.OrderOpts{Min: 1})
		up := an.Call(updFn)
		r.Guard("C18-G2", u, up, "isrChanged && nsInfo.IsISRQuorum() && !(1 < len(nsInfo.Removings))", an.GuardOpts{Min: 1})
		r.Guard("C18-G2", u, up, "!(0 < len(nsInfo.Removings) && aliveReplicas <= nsInfo.Replica/2)", an.GuardOpts{Min: 1})
		// every alive replica was reported in sync before anything is decided
		if sv := tupleVars(u, "cluster/pdnode_coord.IsRaftNodeSynced"); len(sv) == 2 {
			r.Follow("C18-G2", u, an.Call("cluster/pdnode_coord.IsRaftNodeSynced"), []an.M{an.Return()}, an.FollowOpts{Assume: "!(" + sv[1] + " == nil) || !" + sv[0], Min: 1})
		} else {
			r.Unknown("C18-G2", u.Name+": result of IsRaftNodeSynced", "", "not bound by a two-variable assignment")
		}
		// G3
		add := an.Store("cluster.PartitionReplicaInfo.RaftNodes")
		if rv := tupleVars(u, "cluster/pdnode_coord.IsAllISRFullReady"); len(rv) == 2 {
			r.Guard("C18-G3", u, add, "len(nsInfo.Removings) == 0 && "+rv[1]+" == nil && "+rv[0], an.GuardOpts{Min: 1})
		} else {
			r.Unknown("C18-G3", u.Name+": result of IsAllISRFullReady", "", "not bound by a two-variable assignment")
		}
		// one addition per round: after the attempt the loop is left on every path
		for _, s := range u.Match(add) {
			// (either the addition is in no loop at all, or its loop is left after the first attempt; in the graph: the
			// store cannot reach itself)
			lp := loopOf(u, s)
			ok := lp == nil || endsWithBreak(lp.Body)
			if !ok {
				ok = !reaches(u, s, s)
			}
			r.Check("C18-G3", u.Name+": at most one replica is added per round (the allocation loop exits after the first attempt)", u.Pos(s.Pos), ok, "")
		}
		r.Follow("C18-G1", u, up, []an.M{an.StoreTerm("*p0")}, an.FollowOpts{FromSuccess: an.NilErr, Min: 1})
		r.Order("C18-G1", u, an.StoreTerm("*p0"), []an.M{up.Ok(an.NilErr)}, an.OrderOpts{Min: 1})
	}
	if u := c.unit("C18-G2", "cluster/pdnode_coord.(*PDCoordinator).removeNamespaceFromNode"); u != nil {
		mark := an.StoreElem("cluster.PartitionReplicaInfo.Removings")
		r.Guard("C18-G2", u, mark, "!(0 < len(p0.Removings)) && p0.IsISRQuorum()", an.GuardOpts{Min: 1})
		up := an.Call(updFn)
		r.Guard("C18-G2", u, up, "!(!nsInfo.IsISRQuorum() || 1 < len(nsInfo.Removings))", an.GuardOpts{Min: 1})
		r.Order("C18-G2", u, up, []an.M{mark}, an.OrderOpts{Min: 1})
		r.Order("C18-G1", u, an.StoreTerm("*p0"), []an.M{up.Ok(an.NilErr)}, an.OrderOpts{Min: 1})
	}
	if u := c.unit("C18-G3", "cluster/pdnode_coord.(*PDCoordinator).addNamespaceToNode"); u != nil {
		up := an.Call(updFn)
		r.Guard("C18-G3", u, up, "!(0 < len(p0.Removings)) && recv.dpm.checkNamespaceNodeConflict(nsInfo)", an.GuardOpts{Min: 1})
		r.Order("C18-G3", u, an.Call("cluster/pdnode_coord.(*NamespaceDataPlacement).checkNamespaceNodeConflict", "cluster/pdnode_coord.(*DataPlacement).checkNamespaceNodeConflict"),
			[]an.M{an.Store("cluster.PartitionReplicaInfo.RaftNodes")}, an.OrderOpts{Min: 1})
		r.Order("C18-G1", u, an.StoreTerm("*p0"), []an.M{up.Ok(an.NilErr)}, an.OrderOpts{Min: 1})
	}
	if u := c.unit("C18-G5", "cluster/pdnode_coord.(*PDCoordinator).removeNamespaceFromRemovings"); u != nil {
		shrink := an.Store("cluster.PartitionReplicaInfo.RaftNodes")
		r.Guard("C18-G5", u, shrink, "!(inRaft || err != nil) && !(len(nodes) < 1)", an.GuardOpts{Min: 1})
		rng := u.Match(an.M{}.Range())
		ok := len(rng) >= 1 && u.C.Term(rng[0].Rng.X) == "nsInfo.Removings"
		r.Check("C18-G5", u.Name+": only replicas listed in Removings are taken out of RaftNodes", "", ok, "")
		r.StoreValues("C18-G5", u, an.LocalStore("inRaft"), []string{"TUPLE pdnode_coord.IsRaftNodeJoined(nsInfo, nid) #0"}, 1)
		up := an.Call(updFn)
		r.Guard("C18-G5", u, up, "changed && nsInfo.IsISRQuorum()", an.GuardOpts{Min: 1})
		r.Order("C18-G1", u, an.StoreTerm("*p0"), []an.M{up.Ok(an.NilErr)}, an.OrderOpts{Min: 1})
	}
	// all writers of Removings elements
	for _, sw := range c.W.AllSites(an.StoreElem("cluster.PartitionReplicaInfo.Removings"), "Removings", nil) {
		ok := strings.HasSuffix(sw.U.Name, ".handleNamespaceMigrate") || strings.HasSuffix(sw.U.Name, ".removeNamespaceFromNode") || strings.HasSuffix(sw.U.Name, ".DeepClone")
		r.Check("C18-G2", sw.U.Name+": marks a replica for removal", sw.U.Pos(sw.S.Pos), ok, "only handleNamespaceMigrate, removeNamespaceFromNode (guarded above) and DeepClone may insert into Removings")
	}
	if u := c.unit("C18-G2", "cluster.(*PartitionMetaInfo).IsISRQuorum"); u != nil {
		r.ReturnFormula("C18-G2", u, "recv.Replica/2 < len(recv.GetISR())", an.ActualImpliesWant)
	}
	if u := c.unit("C18-G2", "cluster.(*PartitionReplicaInfo).GetISR"); u != nil {
		// RaftNodes minus Removings: an element is appended unless it is in Removings
		app := an.LocalStore("isr").Where("append", func(u *an.Unit, s *an.Site) bool { return s.RHS != nil && strings.HasPrefix(u.C.Term(s.RHS), "append(") })
		r.Guard("C18-G2", u, app, "!ok", an.GuardOpts{Min: 1})
		okd := u.Match(an.LocalStore("ok"))
		r.Check("C18-G2", "GetISR: membership is tested in Removings", "", len(okd) == 1 && okd[0].Tuple != nil && u.C.Term(okd[0].Tuple) == "recv.Removings[v]", "")
		lc := u.LoopCollections() // either loop form
		r.Check("C18-G2", "GetISR: ranges over RaftNodes", "", len(lc) == 1 && lc[0] == "recv.RaftNodes", fmt.Sprint(lc))
	}

	// G4: MaxRaftID and RaftIDs
	ids := c.W.AllSites(an.Store("cluster.PartitionReplicaInfo.MaxRaftID"), "MaxRaftID", nil)
	r.Min("C18-G4", len(ids), 4, "stores to MaxRaftID")
	for _, sw := range ids {
		inc := sw.S.RHS == nil && sw.S.Tuple == nil // x++ / x += : IncDec has no RHS
		if sw.S.RHS != nil {
			t := sw.U.C.Term(sw.S.RHS)
			inc = strings.HasPrefix(t, "(1 + ") && strings.HasSuffix(t, ".MaxRaftID)")
		}
		r.Check("C18-G4", sw.U.Name+": MaxRaftID only moves up by one", sw.U.Pos(sw.S.Pos), inc, "")
	}
	rids := c.W.AllSites(an.StoreElem("cluster.PartitionReplicaInfo.RaftIDs"), "RaftIDs", nil)
	r.Min("C18-G4", len(rids), 4, "element stores to RaftIDs")
	for _, sw := range rids {
		u, s := sw.U, sw.S
		if strings.HasSuffix(u.Name, ".DeepClone") {
			continue
		}
		val := ""
		if s.RHS != nil {
			val = u.C.Term(s.RHS)
		}
		// the counter read is the counter of the object whose id map is written: X.RaftIDs[..] = uint64(X.MaxRaftID)
		// (a copy of the replica info, e.g. a struct passed by value to a helper, has a counter of its own)
		owner := ""
		if ix, isIx := ast.Unparen(s.LHS).(*ast.IndexExpr); isIx {
			owner = strings.TrimSuffix(u.C.Term(ix.X), ".RaftIDs")
		}
		ok := owner != "" && val == "uint64("+owner+".MaxRaftID)"
		// preceded in the same block by the increment of that same counter
		pre := false
		for _, o := range u.Sites {
			if o.Kind == flow.SStore && o.Field != nil && c.W.FieldNames[o.Field] == "cluster.PartitionReplicaInfo.MaxRaftID" && o.Block == s.Block && o.SameBlockBefore(s) &&
				u.C.Term(o.LHS) == owner+".MaxRaftID" {
				pre = true
			}
		}
		r.Check("C18-G4", fmt.Sprintf("%s: new replica id = MaxRaftID right after its increment", u.Name), u.Pos(s.Pos), ok && pre, "value "+val)
	}
}

// one named symbol per exception, with the reason
var c18CopyExceptions = map[string]string{
	"cluster/pdnode_coord.(*PDCoordinator).checkAndUpdateNamespacePartitions": "creation of a partition that does not exist yet, from a freshly allocated placement: there is no previous object to protect",
	"cluster/pdnode_coord.(*DataPlacement).rebalanceNamespace":                "leader move: the object is this round's own value copy taken from the register listing (range variable), only the order of RaftNodes changes",
}

// tupleVars returns the canonical names of the variables bound by `a, b := callee(...)` in the unit.
func tupleVars(u *an.Unit, callee string) []string {
	var out []string
	for _, s := range u.Sites {
		if s.Kind == flow.SStore && s.Tuple != nil {
			if call, ok := ast.Unparen(s.Tuple).(*ast.CallExpr); ok {
				for _, cs := range u.Sites {
					if cs.Kind == flow.SCall && cs.Call == call && an.CalleeName(cs) == callee {
						for len(out) <= s.TupleIdx {
							out = append(out, "")
						}
						out[s.TupleIdx] = u.C.Term(s.LHS)
					}
				}
			}
		}
	}
	return out
}

func loopOf(u *an.Unit, s *an.Site) *ast.ForStmt {
	var best *ast.ForStmt
	bodies := []ast.Node{u.Body}
	for _, ic := range u.G.Inlined {
		bodies = append(bodies, ic.Decl.Body) // helpers read in place of their calls
	}
	for _, body := range bodies {
		ast.Inspect(body, func(n ast.Node) bool {
			if f, ok := n.(*ast.ForStmt); ok && f.Pos() <= s.Pos && s.Pos < f.End() {
				best = f
			}
			return true
		})
	}
	return best
}

func endsWithBreak(b *ast.BlockStmt) bool {
	if len(b.List) == 0 {
		return false
	}
	br, ok := b.List[len(b.List)-1].(*ast.BranchStmt)
	return ok && br.Tok.String() == "break" && br.Label == nil
}
