// Package props holds the rule tables: one file per property, each instantiating the shared engines.
package props

import (
	"sort"

	"verif/internal/an"
	"verif/internal/load"
)

type Ctx struct {
	P    *load.Program
	W    *an.World
	R    *an.Report
	Tier string
}

type Property struct {
	ID          string
	NeedSSA     bool
	NeedAll     bool // whole-program syntax (dependencies with bodies)
	Technique   string
	Explanation string   // what is decided
	NotDecided  string   // what is not
	Assumptions []string
	Run         func(c *Ctx)
}

var registry = map[string]*Property{}

func register(p *Property) { registry[p.ID] = p }

func Get(id string) *Property { return registry[id] }

func IDs() []string {
	var ids []string
	for id := range registry {
		ids = append(ids, id)
	}
	sort.Strings(ids)
	return ids
}

// unit resolves a function anchor or records an undecided obligation (broken check, not a verdict).
func (c *Ctx) unit(rule, name string) *an.Unit {
	u, err := c.W.Unit(name)
	if err != nil {
		c.R.Unknown(rule, "anchor "+name, "", err.Error())
		return nil
	}
	return u
}

func (c *Ctx) lit(rule, fn string, m an.M) *an.Unit {
	u, err := c.W.LitWith(fn, m)
	if err != nil {
		c.R.Unknown(rule, "anchor closure in "+fn, "", err.Error())
		return nil
	}
	return u
}
