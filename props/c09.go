package props

import (
	"os"
	"fmt"
	"go/ast"
	"go/types"
	"strings"

	"verif/internal/an"
	"verif/internal/flow"
	"verif/internal/load"
)

func init() {
	register(&Property{
		ID:        "C09",
		Technique: "static analysis: read-your-writes rule over the package-local call graph (loops over a command's elements that read committed state, write the batch and count must de-duplicate the element), guard implication by truth table (meta deleted iff size <= 0), FOLLOW pairing of the two sorted-set indexes",
		Explanation: "Decides three structural conditions of 'stored size = number of stored elements': (N1) in package rockredis every loop over a slice parameter of a write command whose body (through same-package callees) both reads committed state and writes the batch, and which updates a counter that flows into *IncrSize / IncrTableKeyCount or the reply, de-duplicates the element first (reads do not see the uncommitted batch, so a member repeated inside one command is otherwise counted twice); (N2) the size meta key is deleted exactly when the size reaches zero and the table key counter moves only on the empty<->non-empty transitions; (N3) the member->score and score->member keys of a sorted set are written and deleted together and a score change deletes the old score key. (N6) index clamps: for every `if x REL B { x = E }` on integers in package rockredis with E in {B-1, B, B+1}, no value that passes the test lies beyond E (a clamp `if stop > llen { stop = llen-1 }` lets stop == llen through). N5 also rejects a range whose start and stop are the same key (empty range). (N7) an element is added only under a version key obtained from prepareCollKeyForWrite; (N8) LTRIM deletes no key that is the exclusive end of one of its range deletes. (N9) inside the iterator loops of HVALS/HKEYS/HGETALL the conditions on the iterator and on locals read from its value at the append are no stronger than: valid, value not nil. (N10) LTRIM clamps start to 0 and stop to the tail by guarded assignments whose tests dominate the store of the new head and tail.",
		NotDecided: "agreement of the different enumeration commands with each other (iterator behaviour), list head/tail arithmetic, numeric correctness of the counts, failed commands inside one apply batch (C11-A3).",
		Assumptions: []string{"the de-duplication idiom is recognised by shape (a map keyed by the element with membership test and insertion, in the loop or in a helper applied to the slice before the loop)", "callees are resolved statically within package rockredis"},
		Run: runC09,
	})
}

func isCommittedRead(q string) bool {
	switch q {
	case "rockredis.(*RockDB).GetBytesNoLock", "rockredis.(*RockDB).ExistNoLock", "rockredis.(*RockDB).GetBytes", "rockredis.(*RockDB).Exist",
		"engine.KVEngine.GetBytesNoLock", "engine.KVEngine.ExistNoLock", "engine.KVEngine.GetBytes", "engine.KVEngine.Exist",
		"engine.KVEngine.GetValueWithOp", "engine.KVEngine.GetValueWithOpNoLock":
		return true
	}
	return false
}

func isBatchWrite(q string) bool {
	switch q {
	case "engine.WriteBatch.Put", "engine.WriteBatch.Delete", "engine.WriteBatch.Merge", "engine.WriteBatch.DeleteRange":
		return true
	}
	return false
}

func runC09(c *Ctx) {
	r := c.R
	r.Clause("C09-N1", "a member repeated inside one command is counted once (read-your-writes within a command)")
	r.Clause("C09-N2", "size meta deleted iff size <= 0; table key counter moves on empty<->non-empty transitions only")
	r.Clause("C09-N3", "sorted-set member key and score key are written/deleted together")

	reads := c.W.Effects("rockredis", isCommittedRead)
	writes := c.W.Effects("rockredis", isBatchWrite)
	nLoops, nCand := 0, 0
	for _, fn := range c.P.Funcs() {
		if load.ShortPkg(fn.Pkg.PkgPath) != "rockredis" || fn.Decl.Body == nil {
			continue
		}
		info := fn.Pkg.TypesInfo
		sig := fn.Obj.Type().(*types.Signature)
		params := map[types.Object]bool{}
		for i := 0; i < sig.Params().Len(); i++ {
			params[sig.Params().At(i)] = true
		}
		for _, loop := range an.SliceLoops(fn.Decl.Body, info) {
			nLoops++
			if !params[loop.Over] && !c.W.DedupedBefore(fn, loop) {
				continue // not the command's own element list
			}
			rd, wr := false, false
			var via []string
			for _, callee := range an.CallsIn(loop.Body, info, c.P) {
				if isCommittedRead(callee) || reads[callee] {
					rd = true
					via = append(via, callee)
				}
				if isBatchWrite(callee) || writes[callee] {
					wr = true
				}
			}
			if !rd || !wr {
				continue
			}
			accs := an.Accumulators(loop, info)
			var sinks []string
			for _, a := range accs {
				callees, ret := an.UsedAfter(a, loop.Stmt.End(), fn.Decl.Body, info)
				for _, q := range callees {
					if strings.HasSuffix(q, "IncrSize") || strings.HasSuffix(q, "IncrTableKeyCount") {
						sinks = append(sinks, a.Name()+"→"+q)
					}
				}
				_ = ret // a count that only feeds the reply (DEL, SMCLEAR) is reply conformance (C08), not C09
			}
			if len(sinks) == 0 {
				continue
			}
			nCand++
			construct := fmt.Sprintf("%s: loop over %s reads committed state, writes the batch and counts (%s)", fn.Name, loop.Over.Name(), strings.Join(uniq(sinks), ", "))
			ok := an.HasDedupe(loop, info) || c.W.DedupedBefore(fn, loop)
			detail := "committed-state read via " + strings.Join(uniq(via), ", ")
			if ok {
				detail += "; element is de-duplicated"
			} else {
				detail += "; no de-duplication of the element before it is read and counted: a member repeated in one command is counted twice"
			}
			r.Check("C09-N1", construct, c.P.Pos(loop.Pos), ok, detail)
		}
	}
	r.Note("C09-N1: %d loops over slices in package rockredis examined, %d match the read+write+count pattern", nLoops, nCand)
	r.Min("C09-N1", nCand, 6, "loops matching the read+write+count pattern (SAdd, SRem, HMset, HDel, ZAdd, ZRem confirmed by hand)")

	// N2
	for _, x := range []struct{ fn, size string }{
		{"rockredis.(*RockDB).hIncrSize", "size"},
		{"rockredis.(*RockDB).sIncrSize", "size"},
		{"rockredis.(*RockDB).zIncrSize", "size"},
	} {
		u := c.unit("C09-N2", x.fn)
		if u == nil {
			continue
		}
		r.Guard("C09-N2", u, an.Call("engine.WriteBatch.Delete"), x.size+" <= 0", an.GuardOpts{AtBlockEntry: true, Min: 1})
		r.Guard("C09-N2", u, an.Call("engine.WriteBatch.Put"), "!("+x.size+" <= 0)", an.GuardOpts{AtBlockEntry: true, Min: 1})
	}
}

func init() {
	old := registry["C09"].Run
	registry["C09"].Run = func(c *Ctx) { old(c); runC09N3(c) }
}

func uniq(xs []string) []string {
	m := map[string]bool{}
	var out []string
	for _, x := range xs {
		if !m[x] {
			m[x] = true
			out = append(out, x)
		}
	}
	return out
}

// keyKind resolves the first argument of a batch call to the encoder that produced it.
func keyKind(u *an.Unit, s *an.Site) string {
	if s.Call == nil || len(s.Call.Args) == 0 {
		return ""
	}
	return encoderOf(u, s.Call.Args[0])
}

var encoderDepth int

func encoderOf(u *an.Unit, e ast.Expr) string {
	// (definitions can form a cycle once helpers are read in place of their calls: x = y in one, y = x in another)
	encoderDepth++
	defer func() { encoderDepth-- }()
	if encoderDepth > 12 {
		return "?"
	}
	e = ast.Unparen(e)
	if call, ok := e.(*ast.CallExpr); ok {
		for _, cs := range u.Sites {
			if cs.Call == call {
				return an.CalleeName(cs)
			}
		}
		return ""
	}
	id, ok := e.(*ast.Ident)
	if !ok {
		return ""
	}
	obj := u.Info().ObjectOf(id)
	kind := ""
	for _, st := range u.Sites {
		if st.Kind != flow.SStore || st.Local != obj || st.Index {
			continue
		}
		k := ""
		if st.RHS != nil {
			k = encoderOf(u, st.RHS)
		}
		if k == "" {
			if st.RHS == nil && st.Tuple == nil {
				continue // var declaration without value
			}
			return "?"
		}
		if kind != "" && kind != k {
			return "?"
		}
		kind = k
	}
	return kind
}

func runC09N3(c *Ctx) {
	r := c.R
	const setEnc, scoreEnc = "rockredis.zEncodeSetKey", "rockredis.zEncodeScoreKey"
	put := an.Call("engine.WriteBatch.Put")
	del := an.Call("engine.WriteBatch.Delete")
	kind := func(k string) func(u *an.Unit, s *an.Site) bool {
		return func(u *an.Unit, s *an.Site) bool { return keyKind(u, s) == k }
	}
	n := 0
	for _, fn := range c.P.Funcs() {
		if load.ShortPkg(fn.Pkg.PkgPath) != "rockredis" || fn.Decl.Body == nil {
			continue
		}
		u, err := c.W.Unit(fn.Name)
		if err != nil {
			continue
		}
		putSet, putScore := u.Match(put.Where("member key", kind(setEnc))), u.Match(put.Where("score key", kind(scoreEnc)))
		delSet, delScore := u.Match(del.Where("member key", kind(setEnc))), u.Match(del.Where("score key", kind(scoreEnc)))
		if len(putSet)+len(putScore)+len(delSet)+len(delScore) == 0 {
			continue
		}
		n++
		// pairing on every path: a written member key comes with a written score key and vice versa
		for _, s := range putSet {
			me := put.Where("member key", kind(setEnc)).Where("this site", func(_ *an.Unit, x *an.Site) bool { return x == s })
			if pathFree(u, s, putScore) {
				r.Ok("C09-N3", u.Name+": member key put is accompanied by the score key put", u.Pos(s.Pos), "score key written earlier on every path")
			} else {
				r.Follow("C09-N3", u, me, []an.M{put.Where("score key", kind(scoreEnc))}, an.FollowOpts{Min: 1})
			}
		}
		if len(putScore) > 0 {
			pm := put.Where("score key", kind(scoreEnc))
			for _, s := range putScore {
				me := pm.Where("this site", func(_ *an.Unit, x *an.Site) bool { return x == s })
				// member key put before or after on every path
				before := pathFree(u, s, putSet)
				if before {
					r.Ok("C09-N3", u.Name+": score key put is accompanied by the member key put", u.Pos(s.Pos), "member key written earlier on every path")
				} else {
					r.Follow("C09-N3", u, me, []an.M{put.Where("member key", kind(setEnc))}, an.FollowOpts{Min: 1})
				}
			}
		}
		if len(delSet) > 0 {
			r.Order("C09-N3", u, del.Where("member key", kind(setEnc)), []an.M{del.Where("score key", kind(scoreEnc))}, an.OrderOpts{Min: 1})
		}
		// a score key that is both deleted and written in one batch: the delete must come first (or the
		// scores must be known to differ), otherwise an unchanged score loses its index entry
		for _, d := range delScore {
			for _, p := range putScore {
				if reaches(u, p, d) {
					r.Bad("C09-N3", u.Name+": old score key deleted after the new score key was put into the same batch", u.Pos(d.Pos),
						"when old and new score are equal both are the same key and the delete wins: the member disappears from the score index (put at "+u.Pos(p.Pos)+")")
				} else {
					r.Ok("C09-N3", u.Name+": old score key deleted before the new one is put", u.Pos(d.Pos), "")
				}
			}
		}
	}
	r.Min("C09-N3", n, 3, "functions writing sorted-set index keys (zSetItem, zDelItem, ZIncrBy)")
}

// reaches: there is a path from site a to site b.
func reaches(u *an.Unit, a, b *an.Site) bool {
	if a.Block == b.Block && a.SameBlockBefore(b) {
		return true
	}
	seen := map[*flow.Block]bool{}
	var dfs func(x *flow.Block) bool
	dfs = func(x *flow.Block) bool {
		for _, e := range x.Succs {
			if e.To == b.Block {
				return true
			}
			if !seen[e.To] {
				seen[e.To] = true
				if dfs(e.To) {
					return true
				}
			}
		}
		return false
	}
	return dfs(a.Block)
}

// pathFree: every path from entry to s passes one of the sites in pre.
func pathFree(u *an.Unit, s *an.Site, pre []*an.Site) bool {
	if len(pre) == 0 {
		return false
	}
	for _, p := range pre {
		if p.Block == s.Block && p.SameBlockBefore(s) || p.Block != s.Block && u.G.Dominates(p.Block, s.Block) {
			return true
		}
	}
	return false
}

func init() {
	old := registry["C09"].Run
	registry["C09"].Run = func(c *Ctx) { old(c); runC09N45(c) }
}

// RangePairs checks every DeleteRange / range-iterator bound pair built by start/stop (min/max) key
// encoders: both ends must be encoded from the same arguments. Shared by C09-N5, C12-K2 and C13.
func RangePairs(c *Ctx, rule string) int {
	r := c.R
	n := 0
	for _, fn := range c.P.Funcs() {
		if load.ShortPkg(fn.Pkg.PkgPath) != "rockredis" || fn.Decl.Body == nil {
			continue
		}
		u, err := c.W.Unit(fn.Name)
		if err != nil {
			continue
		}
		for _, s := range u.Match(an.Call("engine.WriteBatch.DeleteRange")) {
			// (c) both ends are the precomputed range of one object: X.RangeStart / X.RangeEnd, X.Start / X.Limit
			sa, oka := ast.Unparen(s.Call.Args[0]).(*ast.SelectorExpr)
			sb, okb := ast.Unparen(s.Call.Args[1]).(*ast.SelectorExpr)
			if oka && okb {
				n++
				same := u.C.Term(sa.X) == u.C.Term(sb.X)
				r.Check(rule, fmt.Sprintf("%s: DeleteRange(%s, %s) uses the two ends of one range object", u.Name, u.C.Term(sa), u.C.Term(sb)), u.Pos(s.Pos), same, "")
				continue
			}
			a, b := defCall(u, s.Call.Args[0]), defCall(u, s.Call.Args[1])
			if a == nil || b == nil {
				// locals copied from the two ends of one range object
				da, db := defExpr(u, s.Call.Args[0]), defExpr(u, s.Call.Args[1])
				if xa, ok := da.(*ast.SelectorExpr); ok {
					if xb, ok := db.(*ast.SelectorExpr); ok {
						n++
						r.Check(rule, fmt.Sprintf("%s: DeleteRange(%s, %s) uses the two ends of one range object", u.Name, u.C.Term(xa), u.C.Term(xb)), u.Pos(s.Pos), u.C.Term(xa.X) == u.C.Term(xb.X), "")
					}
				}
				continue
			}
			na, nb := an.CalleeName(a), an.CalleeName(b)
			var ta, tb []string
			for _, x := range a.Call.Args {
				ta = append(ta, u.C.Term(x))
			}
			for _, x := range b.Call.Args {
				tb = append(tb, u.C.Term(x))
			}
			switch {
			case pairNames(na, nb):
				n++
				ok := strings.Join(ta, ",") == strings.Join(tb, ",")
				r.Check(rule, fmt.Sprintf("%s: DeleteRange(%s, %s) addresses one collection on both ends", u.Name, shortName(na), shortName(nb)), u.Pos(s.Pos), ok,
					fmt.Sprintf("start key from (%s), stop key from (%s)", strings.Join(ta, ", "), strings.Join(tb, ", ")))
			case na == nb && len(ta) == len(tb) && len(ta) > 1:
				n++
				ok := strings.Join(ta[:len(ta)-1], ",") == strings.Join(tb[:len(tb)-1], ",")
				detail := fmt.Sprintf("(%s) vs (%s)", strings.Join(ta, ", "), strings.Join(tb, ", "))
				if ta[len(ta)-1] == tb[len(tb)-1] {
					// the same key on both ends (for instance a stop key that is an alias of the start key's slice): an empty range
					ok = false
					detail = "start and stop are the same key: the range is empty and nothing is deleted; " + detail
				}
				r.Check(rule, fmt.Sprintf("%s: DeleteRange over %s positions of one collection", u.Name, shortName(na)), u.Pos(s.Pos), ok, detail)
			default:
				// two encoders that are neither a start/stop pair nor the same positional encoder: the range runs from one
				// key space into another (for instance from a zset's member keys to the end of its score index)
				n++
				r.Check(rule, fmt.Sprintf("%s: DeleteRange(%s, %s) takes both ends from one pair of range encoders", u.Name, shortName(na), shortName(nb)), u.Pos(s.Pos), false,
					fmt.Sprintf("start key from %s(%s), stop key from %s(%s): not a start/stop pair", shortName(na), strings.Join(ta, ", "), shortName(nb), strings.Join(tb, ", ")))
			}
		}
	}
	return n
}

func shortName(q string) string {
	if i := strings.LastIndex(q, "."); i >= 0 {
		return q[i+1:]
	}
	return q
}

// pairNames: the two encoder names differ only by Start/Stop, Min/Max or Begin/End.
func pairNames(a, b string) bool {
	for _, p := range [][2]string{{"Start", "Stop"}, {"Min", "Max"}, {"Begin", "End"}, {"start", "stop"}} {
		if strings.Contains(a, p[0]) && strings.Replace(a, p[0], p[1], 1) == b {
			return true
		}
	}
	return false
}

// defCall resolves an argument to the call that produced it (directly or through a local with one definition).
func defCall(u *an.Unit, e ast.Expr) *an.Site {
	e = ast.Unparen(e)
	if call, ok := e.(*ast.CallExpr); ok {
		for _, cs := range u.Sites {
			if cs.Kind == flow.SCall && cs.Call == call {
				return cs
			}
		}
		return nil
	}
	id, ok := e.(*ast.Ident)
	if !ok {
		return nil
	}
	obj := u.Info().ObjectOf(id)
	var def *an.Site
	for _, st := range u.Sites {
		if st.Kind == flow.SStore && st.Local == obj && !st.Index && st.RHS != nil {
			if def != nil {
				return nil
			}
			def = st
		}
	}
	if def == nil {
		return nil
	}
	return defCall(u, def.RHS)
}

// defExpr resolves a local with a single definition to its defining expression.
func defExpr(u *an.Unit, e ast.Expr) ast.Expr {
	e = ast.Unparen(e)
	id, ok := e.(*ast.Ident)
	if !ok {
		return e
	}
	obj := u.Info().ObjectOf(id)
	var def *an.Site
	for _, st := range u.Sites {
		if st.Kind == flow.SStore && st.Local == obj && !st.Index && st.RHS != nil {
			if def != nil {
				return e
			}
			def = st
		}
	}
	if def == nil {
		return e
	}
	return ast.Unparen(def.RHS)
}

func runC09N45(c *Ctx) {
	r := c.R
	r.Clause("C09-N4", "a failed command leaves no element behind without its size update (same obligations as C11-A3)")
	sub := an.NewReport("C09")
	c11A3(&Ctx{P: c.P, W: c.W, R: sub, Tier: c.Tier})
	for _, ob := range sub.Obligations {
		if ob.Rule != "C11-A3" {
			continue
		}
		switch ob.Status {
		case "ok":
			r.Ok("C09-N4", ob.Construct, ob.Pos, ob.Detail)
		case "VIOLATION":
			r.Bad("C09-N4", ob.Construct, ob.Pos, ob.Detail)
		default:
			r.Unknown("C09-N4", ob.Construct, ob.Pos, ob.Detail)
		}
	}
	r.Clause("C09-N5", "a range deletion of a collection's elements addresses that collection on both ends")
	n := RangePairs(c, "C09-N5")
	r.Min("C09-N5", n, 6, "DeleteRange calls with start/stop encoded bounds")
}

func init() {
	old := registry["C09"].Run
	registry["C09"].Run = func(c *Ctx) { old(c); runC09N6(c) }
}

// N6: an index clamp leaves no gap. For `if x REL B { x = E }` on integers (no else), every value the test lets
// through must lie on the allowed side of E: with `x > B` and E = B-1 the value x == B escapes the clamp although B-1
// was taken to be the largest legal index. Decided on canonical terms for E in {B-1, B, B+1}.
func runC09N6(c *Ctx) {
	r := c.R
	r.Clause("C09-N6", "index clamps in the collection commands leave no gap between the test and the clamped value")
	n := 0
	for _, fn := range c.P.Funcs() {
		// quick: the collection commands (package rockredis); thorough: every package of the module
		if (c.Tier != "thorough" && load.ShortPkg(fn.Pkg.PkgPath) != "rockredis") || fn.Decl.Body == nil || strings.HasSuffix(c.P.Fset.Position(fn.Decl.Pos()).Filename, "_test.go") {
			continue
		}
		var ifs []*ast.IfStmt
		ast.Inspect(fn.Decl.Body, func(nd ast.Node) bool {
			if is, ok := nd.(*ast.IfStmt); ok && is.Else == nil && is.Init == nil && len(is.Body.List) == 1 {
				ifs = append(ifs, is)
			}
			return true
		})
		if len(ifs) == 0 {
			continue
		}
		var u *an.Unit
		for _, is := range ifs {
			as, ok := is.Body.List[0].(*ast.AssignStmt)
			if !ok || len(as.Lhs) != 1 || len(as.Rhs) != 1 || as.Tok.String() != "=" {
				continue
			}
			be, ok := ast.Unparen(is.Cond).(*ast.BinaryExpr)
			if !ok {
				continue
			}
			op := be.Op.String()
			if op != "<" && op != "<=" && op != ">" && op != ">=" {
				continue
			}
			info := fn.Pkg.TypesInfo
			xt := info.TypeOf(as.Lhs[0])
			if xt == nil {
				continue
			}
			if b, ok := xt.Underlying().(*types.Basic); !ok || b.Info()&types.IsInteger == 0 {
				continue
			}
			if u == nil {
				var err error
				if u, err = c.W.Unit(fn.Name); err != nil {
					break
				}
			}
			// raw terms: the clamped variable must not be expanded into its definition
			raw := func(e ast.Expr) string { return types.ExprString(ast.Unparen(e)) }
			x := raw(as.Lhs[0])
			var bound string
			switch {
			case raw(be.X) == x:
				bound = raw(be.Y)
			case raw(be.Y) == x:
				bound = raw(be.X)
				op = map[string]string{"<": ">", "<=": ">=", ">": "<", ">=": "<="}[op]
			default:
				continue
			}
			e := raw(as.Rhs[0])
			delta, known := 0, true
			switch e {
			case bound:
				delta = 0
			case bound + " - 1", "(" + bound + ") - 1":
				delta = -1
			case bound + " + 1", "(" + bound + ") + 1":
				delta = 1
			default:
				known = false
			}
			if !known {
				continue
			}
			n++
			// upper clamp: the largest value let through is B (for >) or B-1 (for >=); it must be <= E = B+delta
			// lower clamp: the smallest value let through is B (for <) or B+1 (for <=); it must be >= E
			okc := true
			switch op {
			case ">":
				okc = 0 <= delta
			case ">=":
				okc = -1 <= delta
			case "<":
				okc = delta <= 0
			case "<=":
				okc = delta <= 1
			}
			r.Check("C09-N6", fmt.Sprintf("%s: clamp `if %s %s %s { %s = %s }` leaves no gap", fn.Name, x, op, bound, x, e), c.P.Pos(is.Pos()), okc,
				"the value "+x+" == "+bound+" passes the test but lies beyond the clamped value "+e)
		}
	}
	r.Min("C09-N6", n, 4, "index clamps in package rockredis")
}

func init() {
	old := registry["C09"].Run
	registry["C09"].Run = func(c *Ctx) { old(c); c09BatchKeys(c) }
}

// The read-your-own-batch rule (N1) is about one command. Across the commands of one apply batch the same guarantee
// rests on the batch operator: a second command on a key already written in the open batch must cut the batch, which
// needs every command of an open batch to have its key registered (the C07-T2 obligations on AddBatchKey / IsBatchable,
// reported here as well: a missed registration makes two HMSETs of one batch both compute the size from committed data).
func c09BatchKeys(c *Ctx) {
	r := c.R
	// a clear that walks the collection must include its start key (the element with the empty name), or the element
	// survives the clear while the size is reset (same rule as C12-K2)
	c12StartKeyIncluded(c, "C09-N5")
	sub := an.NewReport("C09")
	c07T2(&Ctx{P: c.P, W: c.W, R: sub, Tier: c.Tier})
	n := 0
	for _, ob := range sub.Obligations {
		if ob.Rule != "C07-T2" || !(strings.Contains(ob.Construct, "AddBatchKey") || strings.Contains(ob.Construct, "duplicate") || strings.Contains(ob.Construct, "IsBatchable")) {
			continue
		}
		n++
		switch ob.Status {
		case "ok":
			r.Ok("C09-N1", ob.Construct, ob.Pos, ob.Detail)
		case "VIOLATION":
			r.Bad("C09-N1", ob.Construct, ob.Pos, ob.Detail)
		default:
			r.Unknown("C09-N1", ob.Construct, ob.Pos, ob.Detail)
		}
	}
	r.Min("C09-N1", n, 3, "batch key registration obligations (from C07-T2)")
}

// N7: an element may be *added* only under a version key prepared for writing. prepareCollKeyForWrite gives an expired
// or cleared collection a fresh version, so that what is added does not join the left-overs of the old generation (still
// on disk until compaction under the wait-compact policy); GetCollVersionKey, the readers' and removers' entry, never
// does. A function that takes its key information from GetCollVersionKey therefore puts no key built on its VerKey.
func c09N7(c *Ctx) {
	r := c.R
	r.Clause("C09-N7", "elements are added only under a version key prepared for writing")
	sites := c.W.AllSites(an.Call("rockredis.(*RockDB).GetCollVersionKey"), "GetCollVersionKey", []string{"rockredis"})
	r.Min("C09-N7", len(sites), 10, "callers of GetCollVersionKey")
	seen := map[string]bool{}
	for _, sw := range sites {
		u := sw.U
		if seen[u.Name] || strings.HasSuffix(u.Name, ".prepareCollKeyForWrite") {
			continue
		}
		seen[u.Name] = true
		tv := tupleVars(u, "rockredis.(*RockDB).GetCollVersionKey")
		if len(tv) == 0 || tv[0] == "" {
			continue // returned directly to the caller
		}
		ver := tv[0] + ".VerKey"
		bad := false
		for _, p := range u.Match(an.Call("engine.WriteBatch.Put")) {
			k := u.ArgTerm(p, 0)
			if ds := u.Match(an.LocalStore(k)); len(ds) == 1 && ds[0].RHS != nil {
				k = u.C.Term(ds[0].RHS)
			}
			if strings.Contains(k, ver) {
				bad = true
				r.Bad("C09-N7", u.Name+": puts a key built on a version key that was not prepared for writing", u.Pos(p.Pos),
					"key "+k+": the key information comes from GetCollVersionKey, which does not renew the version of an expired or cleared collection")
			}
		}
		if !bad {
			r.Ok("C09-N7", u.Name+": takes the version key from GetCollVersionKey and adds nothing under it", u.Pos(sw.S.Pos), "")
		}
	}
}

func init() {
	old := registry["C09"].Run
	registry["C09"].Run = func(c *Ctx) { old(c); c09N7(c) }
}

// N8: LTRIM removes the items outside [start, stop] and nothing else. A range delete is end-exclusive and in ltrim2
// its end is the key of the first item that stays (or one past the last item): no Delete in the trim may name a key
// that is the end of one of its range deletes. (Other commands delete `[min, max)` and then `max` because their max is
// an inclusive bound; here it is not.) The helpers of the trim are read in place of their calls.
func c09N8(c *Ctx) {
	r := c.R
	r.Clause("C09-N8", "LTRIM deletes no key that ends one of its range deletes (the first kept item)")
	u := c.unit("C09-N8", "rockredis.(*RockDB).ltrim2")
	if u == nil {
		return
	}
	resolve := func(s *an.Site, i int) string {
		k := u.ArgTerm(s, i)
		if ds := u.Match(an.LocalStore(k)); len(ds) == 1 && ds[0].RHS != nil {
			k = u.C.Term(ds[0].RHS)
		}
		return k
	}
	ends := map[string]bool{}
	drs := u.Match(an.Call("engine.WriteBatch.DeleteRange"))
	for _, s := range drs {
		ends[resolve(s, 1)] = true
	}
	r.Min("C09-N8", len(drs), 1, "range deletes of ltrim2")
	dels := u.Match(an.Call("engine.WriteBatch.Delete"))
	r.Min("C09-N8", len(dels), 1, "item deletes of ltrim2")
	for _, s := range dels {
		k := resolve(s, 0)
		r.Check("C09-N8", u.Name+": the deleted key is not the exclusive end of a range delete of the same trim", u.Pos(s.Pos), !ends[k],
			"key "+k+" is the first item that stays (a range delete already excludes it; deleting it too loses an element the length still counts)")
	}
}

func init() {
	old := registry["C09"].Run
	registry["C09"].Run = func(c *Ctx) { old(c); c09N8(c) }
}

// N9: an enumeration returns every stored element: inside the iterator loop of HVALS/HKEYS/HGETALL/SMEMBERS the
// record is appended for every position at which the iterator is valid; the only element that may be skipped is one
// whose value the engine reports as absent (nil). An element whose value is the empty string is stored, counted by
// HLEN and returned by the other enumerations, so a skip on emptiness makes the enumerations disagree with the count.
func c09N9(c *Ctx) {
	r := c.R
	r.Clause("C09-N9", "enumerations skip no stored element (only a nil value, never an empty one)")
	for _, fn := range []struct{ name, result, allowed string }{
		{"rockredis.(*RockDB).HValues", "vals", "it.Valid() && !(va == nil)"},
		{"rockredis.(*RockDB).HKeys", "vals", "it.Valid()"},
		{"rockredis.(*RockDB).hGetAll", "vals", "it.Valid()"},
	} {
		u := c.unit("C09-N9", fn.name)
		if u == nil {
			continue
		}
		n := 0
		// the loop may sit in a function literal of the command (doScan)
		for _, lu := range append([]*an.Unit{u}, u.Lits()...) {
			for _, s := range lu.Match(an.LocalStore(fn.result)) {
				if s.RHS == nil || !strings.HasPrefix(lu.C.Term(s.RHS), "append("+fn.result) {
					continue
				}
				n++
				// the conditions that speak about the iterator or about a local read from its current value
				terms := "it."
				for _, d := range lu.Sites {
					if d.Kind == flow.SStore && d.RHS != nil && lu.C.Term(d.RHS) == "it.Value()" {
						if id, isId := ast.Unparen(d.LHS).(*ast.Ident); isId {
							terms += "|" + lu.C.Term(id) + ")|" + lu.C.Term(id) + " |== " + lu.C.Term(id)
						}
					}
				}
				pc := projectOn(lu.SitePC(s), terms)
				res := flow.Implies(c.W.Parse(fn.allowed), pc)
				if os.Getenv("ZR_DEBUG_N9") != "" {
					fmt.Fprintf(os.Stderr, "N9 %s: full %s | projected %s | holds %v %q\n", u.Name, lu.SitePC(s), pc, res.Holds, res.Undecided)
				}
				r.Check("C09-N9", u.Name+": a record is appended at every valid position ("+fn.allowed+")", lu.Pos(s.Pos), res.Holds && res.Undecided == "",
					"conditions on the iterator at the append: "+pc.String())
			}
		}
		r.Min("C09-N9", n, 1, fn.name+": appends to the result inside the loop")
	}
}

func init() {
	old := registry["C09"].Run
	registry["C09"].Run = func(c *Ctx) { old(c); c09N9(c) }
}

// N10: LTRIM with a negative start before the head keeps the whole head: after `start = llen + start` a start that is
// still negative is clamped to 0 before the new head sequence `headSeq + start` is stored; without the clamp the stored
// head lies in front of the real first item and LLEN counts positions that LRANGE cannot return. Likewise the stop is
// clamped to the last item. The clamp is a guarded assignment whose test dominates the store of the new bounds.
func c09N10(c *Ctx) {
	r := c.R
	r.Clause("C09-N10", "LTRIM clamps start and stop into the list before the new head/tail are stored")
	u := c.unit("C09-N10", "rockredis.(*RockDB).ltrim2")
	if u == nil {
		return
	}
	set := u.Match(an.Call("rockredis.(*RockDB).lSetMeta"))
	r.Min("C09-N10", len(set), 1, "lSetMeta calls of ltrim2")
	for _, cs := range set {
		r.Check("C09-N10", u.Name+": the new head and tail are headSeq+start and headSeq+stop", u.Pos(cs.Pos),
			u.ArgTerm(cs, 2) == "(headSeq + start)" && u.ArgTerm(cs, 3) == "(headSeq + stop)", u.ArgTerm(cs, 2)+", "+u.ArgTerm(cs, 3))
		for _, cl := range []struct{ v, val, guard, what string }{
			{"start", "0", "start < 0", "a start before the head is clamped to the head"},
			{"stop", "(llen - 1)", "!(stop < llen) | (llen - 1) < stop", "a stop beyond the tail is clamped to the tail"},
		} {
			found := false
			detail := "no guarded assignment " + cl.v + " = " + cl.val
			for _, s := range u.Match(an.LocalStore(cl.v)) {
				if s.RHS == nil || u.C.Term(s.RHS) != cl.val {
					continue
				}
				under := false
				for _, g := range strings.Split(cl.guard, " | ") {
					if flow.Implies(u.BlockEntryPC(s), c.W.Parse(g)).Holds {
						under = true
					}
				}
				if !under {
					detail = "the assignment is not under " + cl.guard + ": " + u.BlockEntryPC(s).String()
					continue
				}
				// the block that makes the test: the closest dominator of the assignment that also dominates the store
				// of the bounds; the assignment hangs directly under it (its branch edge, then the assignment)
				doms := u.G.Dominators(s.Block)
				at := -1
				for i := len(doms) - 2; i >= 0; i-- {
					if u.G.Dominates(doms[i], cs.Block) {
						at = i
						break
					}
				}
				if at < 0 || len(doms)-1-at > 2 {
					detail = "the test does not lie on every path to the store of the new bounds"
					continue
				}
				// nothing recomputes the variable between the clamp and the store of the bounds
				later := false
				for _, d := range u.Match(an.LocalStore(cl.v)) {
					if d != s && d.Pos > s.Pos && d.Pos < cs.Pos {
						later = true
					}
				}
				if later {
					detail = cl.v + " is assigned again after the clamp"
					continue
				}
				found = true
			}
			r.Check("C09-N10", u.Name+": "+cl.what, u.Pos(cs.Pos), found, detail)
		}
	}
}

func init() {
	old := registry["C09"].Run
	registry["C09"].Run = func(c *Ctx) { old(c); c09N10(c) }
}
