package props

import (
	"fmt"
	"strings"

	"verif/internal/an"
)

func init() {
	register(&Property{
		ID:        "C02",
		Technique: "static analysis: who-may-write enumeration of raftLog.committed/applied with per-writer guard obligations (truth table over path conditions), argument provenance on canonical terms, expression-shape checks (isUpToDate, matchBuf selection), ORDER/FOLLOW on the Ready hand-out driver",
		Explanation: "Decides the mechanisms of log matching, commit monotonicity and the apply cursor: (L1) every store to raftLog.committed in the module is one of the accepted shapes (commitTo under committed < tocommit <= lastIndex; restore from a snapshot strictly ahead of the commit index; loadState within [committed, lastIndex]; initialisation of a fresh log); (L2) commit-by-counting commits only an index whose entry has the leader's current term, selected as the quorum-th largest voter Match; (L3) a follower never appends below its commit index: handleAppendEntries short-cuts m.Index < committed, maybeAppend appends only after matchTerm and from a conflict index above committed, the appended suffix starts at the conflict; (L4) votes go only to up-to-date logs and isUpToDate has the Raft formula; (L5) snapshots only move forward; (L6) the applied cursor is what was handed out (appliedCursor of the Ready; last committed entry else snapshot index), stored only within [applied, committed], nextEnts slices (applied, committed], and the fork's StepNode hands out a Ready only when the previous one was advanced. (L9) leadership needs a quorum of real votes (the C01-V4 obligations, because two leaders in one term append different entries at one index and term).",
		NotDecided: "State Machine Safety itself (a theorem over schedules), unstable.truncateAndAppend arithmetic, storage back-ends returning wrong entries (C03), that the panics used as assertions never fire.",
		Assumptions: []string{"calls to Panicf do not return", "path conditions as in C01"},
		Run: runC02,
	})
}

func runC02(c *Ctx) {
	r := c.R
	r.Clause("C02-L1", "commit index never decreases and never passes the log end: shapes of all writers of raftLog.committed")
	r.Clause("C02-L2", "only current-term entries are committed by counting, over voter Match values")
	r.Clause("C02-L3", "a follower never rewrites at or below its commit index")
	r.Clause("C02-L4", "votes go to up-to-date logs")
	r.Clause("C02-L5", "snapshots only move forward")
	r.Clause("C02-L6", "apply cursor = what was handed out; one outstanding Ready")

	// L1
	cw := c.W.AllSites(an.Store("raft.raftLog.committed"), "committed", nil)
	r.Min("C02-L1", len(cw), 5, "stores to raftLog.committed in the module")
	for _, sw := range cw {
		u, s := sw.U, sw.S
		val := "<none>"
		if s.RHS != nil {
			val = u.C.Term(s.RHS)
		}
		switch {
		case u.Name == "raft.(*raftLog).commitTo" && val == "p0":
			r.GuardSite("C02-L1", u, s, c.W.Parse("recv.committed < p0 && !(recv.lastIndex() < p0)"), "committed < tocommit <= lastIndex")
		case u.Name == "raft.(*raftLog).restore" && val == "p0.Metadata.Index":
			r.Ok("C02-L1", u.Name+": commit index set from the snapshot being restored (caller guarded, see L5)", u.Pos(s.Pos), "")
		case u.Name == "raft.(*raft).loadState" && val == "p0.Commit":
			r.GuardSite("C02-L1", u, s, c.W.Parse("!(p0.Commit < recv.raftLog.committed) && !(recv.raftLog.lastIndex() < p0.Commit)"), "committed <= state.Commit <= lastIndex")
		case (u.Name == "raft.newLogWithSize" || u.Name == "raft.newLog") && val == "(firstIndex - 1)":
			r.Ok("C02-L1", u.Name+": initialisation of a new log object from the storage's first index", u.Pos(s.Pos), "")
		case (u.Name == "raft.StartNode" || u.Name == "raft.NewRawNode") && (val == "r.raftLog.lastIndex()" || val == "uint64(len(ents))" || val == "uint64(len(p1))"): // (ents is made with len(peers) elements: len(ents) prints as that)
			r.Ok("C02-L1", u.Name+": bootstrap of a fresh log: the synthesized configuration entries are committed", u.Pos(s.Pos), "value "+val)
		default:
			r.Bad("C02-L1", fmt.Sprintf("%s: store raftLog.committed = %s has none of the accepted writer shapes", u.Name, val), u.Pos(s.Pos), "")
		}
	}

	// L7: replication progress used for commit counting only moves through acknowledged appends
	r.Clause("C02-L7", "Progress.Match is raised only by an acknowledged index (maybeUpdate) or set at (re)initialisation")
	mw := c.W.AllSites(an.Store("raft.Progress.Match"), "Match", nil)
	r.Min("C02-L7", len(mw), 2, "stores to Progress.Match")
	for _, sw := range mw {
		u, s := sw.U, sw.S
		val := ""
		if s.RHS != nil {
			val = u.C.Term(s.RHS)
		}
		switch {
		case u.Name == "raft.(*Progress).maybeUpdate" && val == "p0":
			r.GuardSite("C02-L7", u, s, c.W.Parse("recv.Match < p0"), "only forward")
		case strings.HasPrefix(u.Name, "raft.(*raft).reset$lit") && val == "recv.raftLog.lastIndex()":
			r.GuardSite("C02-L7", u, s, c.W.Parse("lp0 == recv.id"), "own progress of a new term")
		default:
			r.Bad("C02-L7", fmt.Sprintf("%s: store Progress.Match = %s has none of the accepted writer shapes", u.Name, val), u.Pos(s.Pos),
				"accepted: maybeUpdate(n) under Match < n; own entry in reset; Progress literals in setProgress")
		}
	}
	// L8: a slice of the log handed out is contiguous
	r.Clause("C02-L8", "a size-truncated stable prefix is never joined with unstable entries")
	if u := c.unit("C02-L8", "raft.(*raftLog).slice"); u != nil {
		join := an.Call("raft.(*unstable).slice")
		r.Guard("C02-L8", u, join, "!(p0 < recv.unstable.offset) || !(uint64(len(storedEnts)) < raft.min(p1, recv.unstable.offset) - p0)", an.GuardOpts{Min: 1})
		r.ArgValues("C02-L8", u, join, 0, []string{"raft.max(p0, recv.unstable.offset)"}, 1)
		r.ArgValues("C02-L8", u, join, 1, []string{"p1"}, 1)
		st := an.Call("raft.Storage.Entries")
		r.ArgValues("C02-L8", u, st, 0, []string{"p0"}, 1)
		r.ArgValues("C02-L8", u, st, 1, []string{"raft.min(p1, recv.unstable.offset)"}, 1)
	}

	// L2
	if u := c.unit("C02-L2", "raft.(*raftLog).maybeCommit"); u != nil {
		r.Guard("C02-L2", u, an.Call("raft.(*raftLog).commitTo"), "recv.committed < p0 && recv.zeroTermOnErrCompacted(recv.term(p0)) == p1", an.GuardOpts{Min: 1})
		r.ArgValues("C02-L2", u, an.Call("raft.(*raftLog).commitTo"), 0, []string{"p0"}, 1)
	}
	if u := c.unit("C02-L2", "raft.(*raft).maybeCommit"); u != nil {
		r.ArgValues("C02-L2", u, an.Call("raft.(*raftLog).maybeCommit"), 0, []string{"recv.matchBuf[(len(recv.matchBuf) - recv.quorum())]"}, 1)
		r.StoreValues("C02-L2", u, an.LocalStore("mci"), []string{"recv.matchBuf[(len(recv.matchBuf) - recv.quorum())]"}, 1)
		r.ArgValues("C02-L2", u, an.Call("raft.(*raftLog).maybeCommit"), 1, []string{"recv.Term"}, 1)
		r.StoreValues("C02-L2", u, an.StoreElem("raft.raft.matchBuf"), []string{"p.Match"}, 1)
		rng := u.Match(an.M{}.Range())
		r.Check("C02-L2", "raft.(*raft).maybeCommit: Match values are collected from the voters (range r.prs) only", "", len(rng) == 1 && u.C.Term(rng[0].Rng.X) == "recv.prs", "")
		r.Order("C02-L2", u, an.Call("raft.(*raftLog).maybeCommit"), []an.M{an.Call("sort.Sort")}, an.OrderOpts{Min: 1})
		r.ArgValues("C02-L2", u, an.Call("sort.Sort"), 0, []string{"&recv.matchBuf", "recv.matchBuf"}, 1)
		r.StoreValues("C02-L2", u, an.StorePlain("raft.raft.matchBuf"), []string{"make(raft.uint64Slice, len(recv.prs))", "recv.matchBuf[:len(recv.prs)]"}, 2)
	}
	if u := c.unit("C02-L2", "raft.uint64Slice.Less"); u != nil {
		r.ReturnFormula("C02-L2", u, "recv[p0] < recv[p1]", an.Equiv)
	}

	// L3
	if u := c.unit("C02-L3", "raft.(*raft).handleAppendEntries"); u != nil {
		r.Guard("C02-L3", u, an.Call("raft.(*raftLog).maybeAppend"), "!(p0.Index < recv.raftLog.committed)", an.GuardOpts{Min: 1})
		for i, a := range []string{"p0.Index", "p0.LogTerm", "p0.Commit", "p0.Entries"} {
			r.ArgValues("C02-L3", u, an.Call("raft.(*raftLog).maybeAppend"), i, []string{a}, 1)
		}
	}
	if u := c.unit("C02-L3", "raft.(*raftLog).maybeAppend"); u != nil {
		r.Guard("C02-L3", u, an.Call("raft.(*raftLog).append"), "recv.matchTerm(p0, p1) && ci != 0 && recv.committed < ci", an.GuardOpts{Min: 1})
		r.StoreValues("C02-L3", u, an.LocalStore("ci"), []string{"recv.findConflict(p3)"}, 1)
		r.ArgValues("C02-L3", u, an.Call("raft.(*raftLog).append"), 0, []string{"p3[(ci - (1 + p0)):]"}, 1)
		// control dependence: commitTo lies in the branch taken when matchTerm held (the append in between may change the
		// log, so the test is about the branch, not about the state at the call)
		r.Order("C02-L3", u, an.Call("raft.(*raftLog).commitTo"), []an.M{an.Edge("recv.matchTerm(p0, p1)")}, an.OrderOpts{Min: 1})
		r.ArgValues("C02-L3", u, an.Call("raft.(*raftLog).commitTo"), 0, []string{"raft.min(p2, r0)"}, 1)
		r.StoreValues("C02-L3", u, an.LocalStore("lastnewi"), []string{"(p0 + uint64(len(p3)))"}, 1)
		r.Order("C02-L3", u, an.Call("raft.(*raftLog).commitTo"), []an.M{an.LocalStore("lastnewi")}, an.OrderOpts{Min: 1})
		r.ArgValues("C02-L3", u, an.Call("raft.(*raftLog).matchTerm"), 0, []string{"p0"}, 1)
		r.ArgValues("C02-L3", u, an.Call("raft.(*raftLog).matchTerm"), 1, []string{"p1"}, 1)
	}
	if u := c.unit("C02-L3", "raft.(*raftLog).findConflict"); u != nil {
		// the index returned is the first entry that fails matchTerm; 0 only after the whole slice matched
		r.Returns("C02-L3", u, []an.ReturnClass{
			{Name: "first mismatching entry", Match: func(u *an.Unit, s *an.Site) bool { return u.C.Term(s.Ret.Results[0]) == "ne.Index" }, Guard: "!recv.matchTerm(ne.Index, ne.Term)"},
			{Name: "no conflict", Match: func(u *an.Unit, s *an.Site) bool { return u.C.Term(s.Ret.Results[0]) == "0" }},
		}, 2)
		lc := u.LoopCollections() // either loop form
		r.Check("C02-L3", "raft.(*raftLog).findConflict: scans the offered entries in order", "", len(lc) == 1 && lc[0] == "p0", fmt.Sprint(lc))
	}
	if u := c.unit("C02-L3", "raft.(*raftLog).matchTerm"); u != nil {
		r.Returns("C02-L3", u, []an.ReturnClass{
			{Name: "term lookup failed", Match: func(u *an.Unit, s *an.Site) bool { return u.C.Term(s.Ret.Results[0]) == "false" }},
			{Name: "compare", Match: func(u *an.Unit, s *an.Site) bool { return u.C.Term(s.Ret.Results[0]) == "(t == p1)" }},
		}, 2)
		r.StoreValues("C02-L3", u, an.LocalStore("t"), []string{"TUPLE recv.term(p0) #0"}, 1)
	}

	// L4
	if u := c.unit("C02-L4", "raft.(*raftLog).isUpToDate"); u != nil {
		r.ReturnFormula("C02-L4", u, "p1 > recv.lastTerm() || (p1 == recv.lastTerm() && p0 >= recv.lastIndex())", an.ActualImpliesWant)
	}
	if u := c.unit("C02-L4", "raft.(*raft).Step"); u != nil {
		grant := an.Call("raft.(*raft).send").Where("vote response without Reject", func(u *an.Unit, s *an.Site) bool {
			return isVoteResp(u, s) && !litHasField(s.Call, "Reject")
		})
		// (a granted pre-vote is not binding, so only real votes need the up-to-date check)
		r.Guard("C02-L4", u, grant, "p0.Type == raftpb.MsgPreVote || recv.raftLog.isUpToDate(p0.Index, p0.LogTerm)", an.GuardOpts{Min: 1})
		r.Guard("C02-L4", u, an.Store("raft.raft.Vote"), "recv.raftLog.isUpToDate(p0.Index, p0.LogTerm)", an.GuardOpts{Min: 1})
	}

	// L5
	if u := c.unit("C02-L5", "raft.(*raft).restore"); u != nil {
		r.Guard("C02-L5", u, an.Call("raft.(*raftLog).restore"), "recv.raftLog.committed < p0.Metadata.Index && !recv.raftLog.matchTerm(p0.Metadata.Index, p0.Metadata.Term)", an.GuardOpts{Min: 1})
		r.ArgValues("C02-L5", u, an.Call("raft.(*raftLog).restore"), 0, []string{"p0"}, 1)
		r.Guard("C02-L5", u, an.Call("raft.(*raftLog).commitTo"), "recv.raftLog.committed < p0.Metadata.Index && recv.raftLog.matchTerm(p0.Metadata.Index, p0.Metadata.Term)", an.GuardOpts{Min: 1})
		r.ArgValues("C02-L5", u, an.Call("raft.(*raftLog).commitTo"), 0, []string{"p0.Metadata.Index"}, 1)
	}
	rr := c.W.AllSites(an.Call("raft.(*raftLog).restore"), "restore", nil)
	for _, sw := range rr {
		r.Check("C02-L5", sw.U.Name+": raftLog.restore is called from raft.restore only", sw.U.Pos(sw.S.Pos), sw.U.Name == "raft.(*raft).restore", "")
	}
	r.Min("C02-L5", len(rr), 1, "calls of raftLog.restore")
	if u := c.unit("C02-L5", "raft.(*raft).handleSnapshot"); u != nil {
		r.ArgValues("C02-L5", u, an.Call("raft.(*raft).restore"), 0, []string{"p0.Snapshot"}, 1)
	}

	// L6
	at := c.W.AllSites(an.Call("raft.(*raftLog).appliedTo"), "appliedTo", nil)
	r.Min("C02-L6", len(at), 3, "calls of raftLog.appliedTo")
	for _, sw := range at {
		u := sw.U
		if u.Name == "raft.newRaft" {
			r.Ok("C02-L6", "raft.newRaft: appliedTo(configured Applied) at construction", u.Pos(sw.S.Pos), "")
			continue
		}
		// the argument is <ready>.appliedCursor() (directly or through a local that holds it)
		arg := u.ArgTerm(sw.S, 0)
		ok := arg == "p0.appliedCursor()"
		if !ok {
			defs := u.Match(an.LocalStore(arg))
			ok = len(defs) == 1 && defs[0].RHS != nil && (u.C.Term(defs[0].RHS) == "p0.appliedCursor()")
		}
		r.Check("C02-L6", u.Name+": appliedTo receives the applied cursor of the Ready being advanced", u.Pos(sw.S.Pos), ok, "argument "+arg)
	}
	if u := c.unit("C02-L6", "raft.Ready.appliedCursor"); u != nil {
		r.Returns("C02-L6", u, []an.ReturnClass{
			{Name: "last committed entry", Match: func(u *an.Unit, s *an.Site) bool {
				return u.C.Term(s.Ret.Results[0]) == "recv.CommittedEntries[(len(recv.CommittedEntries) - 1)].Index"
			}, Guard: "0 < len(recv.CommittedEntries)"},
			{Name: "snapshot index", Match: func(u *an.Unit, s *an.Site) bool { return u.C.Term(s.Ret.Results[0]) == "recv.Snapshot.Metadata.Index" }, Guard: "!(0 < len(recv.CommittedEntries))"},
			{Name: "nothing handed out", Match: func(u *an.Unit, s *an.Site) bool { return u.C.Term(s.Ret.Results[0]) == "0" }, Guard: "!(0 < len(recv.CommittedEntries)) && !(0 < recv.Snapshot.Metadata.Index)"},
		}, 3)
	}
	aw := c.W.AllSites(an.Store("raft.raftLog.applied"), "applied", nil)
	r.Min("C02-L6", len(aw), 1, "stores to raftLog.applied")
	for _, sw := range aw {
		u, s := sw.U, sw.S
		switch u.Name {
		case "raft.(*raftLog).appliedTo":
			r.GuardSite("C02-L6", u, s, c.W.Parse("!(recv.committed < p0) && !(p0 < recv.applied)"), "applied <= i <= committed")
		case "raft.newLogWithSize", "raft.newLog":
			r.Ok("C02-L6", u.Name+": initialisation of a new log object", u.Pos(s.Pos), "")
		default:
			r.Bad("C02-L6", u.Name+": store raftLog.applied outside appliedTo", u.Pos(s.Pos), "")
		}
	}
	if u := c.unit("C02-L6", "raft.(*raftLog).nextEnts"); u != nil {
		r.StoreValues("C02-L6", u, an.LocalStore("off"), []string{"raft.max((1 + recv.applied), recv.firstIndex())"}, 1)
		r.ArgValues("C02-L6", u, an.Call("raft.(*raftLog).slice"), 0, []string{"off"}, 1)
		r.ArgValues("C02-L6", u, an.Call("raft.(*raftLog).slice"), 1, []string{"(1 + recv.committed)"}, 1)
	}
	if u := c.unit("C02-L6", "raft.newReady"); u != nil {
		r.StoreValues("C02-L6", u, an.Store("raft.Ready.CommittedEntries"), []string{"p0.raftLog.nextEnts()"}, 1)
	}
	if u := c.unit("C02-L6", "raft.(*node).StepNode"); u != nil {
		// a Ready with content is returned only when no other is outstanding, and marks itself outstanding
		withReady := an.Return().Where("returns a Ready", func(u *an.Unit, s *an.Site) bool {
			return len(s.Ret.Results) == 2 && u.C.Term(s.Ret.Results[1]) == "true"
		})
		r.Order("C02-L6", u, withReady, []an.M{an.Edge("!recv.needAdvance")}, an.OrderOpts{Min: 1})
		r.Order("C02-L6", u, withReady, []an.M{an.Store("raft.node.needAdvance").Where("= true", func(u *an.Unit, s *an.Site) bool { return s.RHS != nil && u.C.Term(s.RHS) == "true" })}, an.OrderOpts{Min: 1})
		r.Order("C02-L6", u, an.DynCall("recv.newReadyFunc"), []an.M{an.Edge("!recv.needAdvance")}, an.OrderOpts{Min: 1})
	}
	na := c.W.AllSites(an.Store("raft.node.needAdvance"), "needAdvance", nil)
	for _, sw := range na {
		val := ""
		if sw.S.RHS != nil {
			val = sw.U.C.Term(sw.S.RHS)
		}
		ok := sw.U.Name == "raft.(*node).StepNode" && val == "true" || sw.U.Name == "raft.(*node).Advance" && val == "false"
		r.Check("C02-L6", fmt.Sprintf("%s: needAdvance = %s (set when a Ready is handed out, cleared only by Advance)", sw.U.Name, val), sw.U.Pos(sw.S.Pos), ok, "")
	}
	if u := c.unit("C02-L6", "raft.(*node).Advance"); u != nil {
		r.Order("C02-L6", u, an.Store("raft.node.needAdvance"), []an.M{an.Call("raft.(*raftLog).appliedTo")}, an.OrderOpts{Assume: "p0.appliedCursor() != 0", Min: 1})
	}
}

func init() {
	old := registry["C02"].Run
	registry["C02"].Run = func(c *Ctx) { old(c); c02L9(c) }
}

// L9: two leaders in one term append different entries at the same index and term, so log matching needs election
// safety's counting rule: a candidate becomes leader only on a quorum of real votes. Same obligations as C01-V4,
// reported under this id as well.
func c02L9(c *Ctx) {
	r := c.R
	r.Clause("C02-L9", "leadership (and with it the right to append) needs a quorum of real votes: same obligations as C01-V4")
	sub := an.NewReport("C02")
	runC01(&Ctx{P: c.P, W: c.W, R: sub, Tier: c.Tier})
	n := 0
	for _, ob := range sub.Obligations {
		if ob.Rule != "C01-V4" {
			continue
		}
		n++
		switch ob.Status {
		case "ok":
			r.Ok("C02-L9", ob.Construct, ob.Pos, ob.Detail)
		case "VIOLATION":
			r.Bad("C02-L9", ob.Construct, ob.Pos, ob.Detail)
		default:
			r.Unknown("C02-L9", ob.Construct, ob.Pos, ob.Detail)
		}
	}
	r.Min("C02-L9", n, 5, "C01-V4 obligations")
}

func init() {
	old := registry["C02"].Run
	registry["C02"].Run = func(c *Ctx) { old(c); c02Heartbeat(c) }
}

// L2 (heartbeat): a heartbeat must not forward a follower's commit index past what the leader knows the follower holds:
// the message carries min(Match of that follower, leader's commit), and the follower commits exactly that (a follower that
// clamped a larger value to its own last index would commit a stale tail it still carries from an old term).
func c02Heartbeat(c *Ctx) {
	r := c.R
	if u := c.unit("C02-L2", "raft.(*raft).sendHeartbeat"); u != nil {
		r.StoreValues("C02-L2", u, an.LocalStore("commit"), []string{"raft.min(recv.getProgress(p0).Match, recv.raftLog.committed)", "raft.min(pr.Match, recv.raftLog.committed)"}, 0)
		lits, err := c.W.PkgLits("raft", "raft/raftpb.Message")
		if err == nil {
			n := 0
			for _, l := range lits {
				if l.Func != u.Name {
					continue
				}
				n++
				v := l.Fields["Commit"]
				ok := v == "raft.min(recv.getProgress(p0).Match, recv.raftLog.committed)" || v == "raft.min(pr.Match, recv.raftLog.committed)" || v == "commit"
				r.Check("C02-L2", u.Name+": the heartbeat carries min(Match of the receiver, commit index)", c.P.Pos(l.Pos), ok, "Commit: "+v)
			}
			r.Min("C02-L2", n, 1, "heartbeat message literal")
		}
	}
	if u := c.unit("C02-L2", "raft.(*raft).handleHeartbeat"); u != nil {
		r.ArgValues("C02-L2", u, an.Call("raft.(*raftLog).commitTo"), 0, []string{"p0.Commit"}, 1)
	}
}
