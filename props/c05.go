package props

import (
	"go/ast"
	"fmt"
	"sort"
	"strings"

	"verif/internal/an"
	"verif/internal/flow"
)

func init() {
	register(&Property{
		ID:          "C05",
		Technique:   "static analysis: agreement of record-type tables between writer and the four readers, dominance/path search (CRC validation before a record is returned; repair offset captured before the failing decode), guard implication by truth table (bounded overwrite, size limit before allocation)",
		Explanation: "Decides shape conditions of the WAL codec and readers: (R1) the record types written anywhere in package wal equal the case labels handled by ReadAll (default = error), Verify handles the same set, ValidSnapshotEntries/Repair handle frozen subsets that always include the CRC record; (R2) every non-CRC record returned by decodeRecord passed the rolling-CRC validation, each reader's CRC case validates against the running CRC unless it is 0 and chains it with updateCRC, the encoder stamps the running CRC after feeding the data, cut chains the new segment with the previous CRC; (R3) the sync policy (same obligations as C03-P3); (R4) index-overwrite on re-read is bounded and loud, the torn-tail zero-fill happens only on EOF at the decoder's last valid offset, Repair truncates at the offset captured before the failing decode and fsyncs; (R5) the record size is bounded before allocation. R4 also: moving to the next segment resets the valid-offset count. R3 also: the hard-state record is written after the entries of the same Save, and the previous state is consulted for the sync decision before saveState replaces it. (R6) a record is forgiven as torn only when one of its own sector chunks is all zero, and a validation failure becomes a short-file error only under isTornEntry.",
		NotDecided:  "that reopening returns exactly a durable prefix for every truncation offset and zero-fill pattern (needs execution), isTornEntry sector arithmetic, page-writer alignment, bit-flip detection probability of CRC32.",
		Assumptions: []string{"calls to Panic*/Fatal* do not return", "path conditions are conjunctions of dominating branch conditions"},
		Run:         runC05,
	})
}

var walTypes = []string{"wal.crcType", "wal.entryType", "wal.metadataType", "wal.snapshotType", "wal.stateType"}

func runC05(c *Ctx) {
	r := c.R
	r.Clause("C05-R1", "record-type tables of writer and readers agree")
	r.Clause("C05-R2", "every returned record passed the rolling CRC; CRC chained across records and segments")
	r.Clause("C05-R3", "sync policy of Save/cut/SaveSnapshot/sync")
	r.Clause("C05-R4", "bounded index overwrite; zero-fill only at the last valid offset on EOF; repair truncation point")
	r.Clause("C05-R5", "size limit before allocation")

	// R1
	lits, err := c.W.PkgLits("wal", "wal/walpb.Record")
	if err != nil {
		r.Unknown("C05-R1", "walpb.Record literals in package wal", "", err.Error())
	} else {
		var written []string
		n := 0
		for _, l := range lits {
			if t, ok := l.Fields["Type"]; ok {
				written = append(written, t)
				n++
			}
		}
		r.Min("C05-R1", n, 6, "walpb.Record{Type: ...} literals in package wal")
		r.SetEq("C05-R1", "record types written in package wal = the five record types", "", written, walTypes, nil, nil)
		readers := []struct {
			fn           string
			allowMissing []string
			needDefault  bool
		}{
			{"wal.(*WAL).ReadAll", nil, true},
			{"wal.Verify", nil, true},
			{"wal.ValidSnapshotEntries", []string{"wal.entryType", "wal.metadataType"}, false},                        // reason: only snapshot markers, commit index and the CRC chain matter for listing valid snapshots
			{"wal.Repair", []string{"wal.entryType", "wal.metadataType", "wal.stateType", "wal.snapshotType"}, false}, // reason: repair only walks the frames and keeps the CRC chain
		}
		for _, rd := range readers {
			u := c.unit("C05-R1", rd.fn)
			if u == nil {
				continue
			}
			sw := u.Switches("rec.Type")
			if len(sw) != 1 {
				r.Unknown("C05-R1", rd.fn+": switch on rec.Type", "", fmt.Sprintf("found %d switches on rec.Type, expected 1", len(sw)))
				continue
			}
			r.SetEq("C05-R1", rd.fn+": cases of switch rec.Type ⊆ written types, ⊇ required", u.Pos(sw[0].Pos), sw[0].Labels, written, rd.allowMissing, nil)
			if rd.needDefault {
				r.Check("C05-R1", rd.fn+": default case of switch rec.Type is an error", u.Pos(sw[0].Pos), u.DefaultReturnsError(sw[0]), "an unknown record type must fail loudly")
			}
			// R2 sibling agreement: the CRC case validates and chains
			r.Guard("C05-R2", u, an.Call("wal.(*decoder).updateCRC"), "rec.Type == wal.crcType", an.GuardOpts{Min: 1})
			r.ArgValues("C05-R2", u, an.Call("wal.(*decoder).updateCRC"), 0, []string{"rec.Crc"}, 1)
			// the running checksum the record is validated against (the local holding it prints as its definition)
			crcT := "decoder.crc.Sum32()"
			if strings.HasSuffix(u.Name, ".ReadAll") {
				crcT = "recv.decoder.crc.Sum32()"
			}
			r.Order("C05-R2", u, an.Call("wal.(*decoder).updateCRC"), []an.M{an.Call("wal/walpb.(*Record).Validate").Ok(an.NilErr)},
				an.OrderOpts{Assume: crcT + " != 0", Min: 1})
			r.ArgValues("C05-R2", u, an.Call("wal/walpb.(*Record).Validate"), 0, []string{crcT}, 1)
		}
	}

	// R2 decoder / encoder
	if u := c.unit("C05-R2", "wal.(*decoder).decodeRecord"); u != nil {
		nilRet := an.Return().Where("nil result", an.LastResultNil)
		r.Order("C05-R2", u, nilRet, []an.M{an.Call("wal/walpb.(*Record).Validate")}, an.OrderOpts{Success: an.NilErr, Assume: "p0.Type != wal.crcType", Min: 1})
		r.Order("C05-R2", u, an.Call("wal/walpb.(*Record).Validate"), []an.M{an.Call("io.Writer.Write", "hash.Hash.Write", "hash.Hash32.Write")}, an.OrderOpts{Min: 1})
		r.ArgValues("C05-R2", u, an.Call("wal/walpb.(*Record).Validate"), 0, []string{"recv.crc.Sum32()"}, 1)
		r.ArgValues("C05-R2", u, an.Call("io.Writer.Write", "hash.Hash.Write", "hash.Hash32.Write"), 0, []string{"p0.Data"}, 1)
		r.Order("C05-R2", u, nilRet, []an.M{an.Call("wal/walpb.(*Record).Unmarshal")}, an.OrderOpts{Success: an.NilErr, Min: 1})
		r.Order("C05-R2", u, an.Call("wal/walpb.(*Record).Unmarshal"), []an.M{an.Call("io.ReadFull")}, an.OrderOpts{Success: an.NilErr, Min: 1})
		r.Returns("C05-R2", u, []an.ReturnClass{
			{Name: "error", Match: an.ErrorReturn},
			{Name: "recursion into the next segment", Match: an.LastResultCall("wal.(*decoder).decodeRecord")},
			{Name: "record accepted", Match: an.LastResultNil},
			{Name: "read error passed on", Match: func(u *an.Unit, s *an.Site) bool {
				return len(s.Ret.Results) == 1 && u.C.Term(s.Ret.Results[0]) == "err"
			}},
		}, 8)
		// R5
		// moving on to the next segment file restarts the valid-offset count: lastOffset() is relative to the last file
		// (it is where the writer continues and where Repair truncates)
		// (whatever the control structure — recursion or a loop — every path from the advance to a normal exit resets it)
		zero := an.Store("wal.decoder.lastValidOff").Where("= 0", func(u *an.Unit, s *an.Site) bool { return s.RHS != nil && u.C.Term(s.RHS) == "0" })
		r.Follow("C05-R4", u, an.Store("wal.decoder.brs"), []an.M{zero}, an.FollowOpts{ErrorExitsExempt: true, Min: 1})
		r.Guard("C05-R5", u, an.Call("builtin.make"), "recBytes < wal.maxWALEntrySizeLimit - padBytes", an.GuardOpts{Min: 1})
		r.ArgValues("C05-R5", u, an.Call("builtin.make"), 1, []string{"(padBytes + recBytes)"}, 1)
	}
	if u := c.unit("C05-R2", "wal.(*encoder).encode"); u != nil {
		r.StoreValues("C05-R2", u, an.Store("wal/walpb.Record.Crc"), []string{"recv.crc.Sum32()"}, 1)
		r.Order("C05-R2", u, an.Store("wal/walpb.Record.Crc"), []an.M{an.Call("io.Writer.Write", "hash.Hash.Write", "hash.Hash32.Write")}, an.OrderOpts{Min: 1})
		r.ArgValues("C05-R2", u, an.Call("io.Writer.Write", "hash.Hash.Write", "hash.Hash32.Write"), 0, []string{"p0.Data"}, 1)
		r.Order("C05-R2", u, an.Call("wal/walpb.(*Record).Marshal", "wal/walpb.(*Record).MarshalTo"), []an.M{an.Store("wal/walpb.Record.Crc")}, an.OrderOpts{Min: 2})
		// the reused encode buffer is handed to the page writer only (which copies), never retained
		r.ArgValues("C05-R2", u, an.Call("pkg/ioutil.(*PageWriter).Write"), 0, []string{"data"}, 1)
	}
	if u := c.unit("C05-R2", "wal.(*WAL).cut"); u != nil {
		r.ArgValues("C05-R2", u, an.Call("wal.(*WAL).saveCrc"), 0, []string{"prevCrc"}, 1)
		r.StoreValues("C05-R2", u, an.LocalStore("prevCrc"), []string{"recv.encoder.crc.Sum32()"}, 2)
		r.Order("C05-R2", u, an.Call("wal.(*encoder).encode"), []an.M{an.Call("wal.(*WAL).saveCrc")}, an.OrderOpts{Success: an.NilErr, Min: 1})
	}
	if u := c.unit("C05-R2", "wal.(*WAL).saveCrc"); u != nil {
		lits, _ := c.W.PkgLits("wal", "wal/walpb.Record")
		ok := false
		for _, l := range lits {
			if l.Func == u.Name && l.Fields["Type"] == "wal.crcType" && l.Fields["Crc"] == "p0" {
				ok = true
			}
		}
		r.Check("C05-R2", "wal.(*WAL).saveCrc: writes Record{Type: crcType, Crc: <argument>}", "", ok, "")
	}

	// R3: same obligations as C03-P3, reported under this id too
	sub := an.NewReport("C05")
	sc := &Ctx{P: c.P, W: c.W, R: sub, Tier: c.Tier}
	runC03(sc)
	for _, ob := range sub.Obligations {
		if ob.Rule != "C03-P3" {
			continue
		}
		switch ob.Status {
		case "ok":
			r.Ok("C05-R3", ob.Construct, ob.Pos, ob.Detail)
		case "VIOLATION":
			r.Bad("C05-R3", ob.Construct, ob.Pos, ob.Detail)
		default:
			r.Unknown("C05-R3", ob.Construct, ob.Pos, ob.Detail)
		}
	}

	// R4
	if u := c.unit("C05-R4", "wal.(*WAL).ReadAll"); u != nil {
		app := an.LocalStore("ents").Where("append", func(u *an.Unit, s *an.Site) bool { return s.RHS != nil })
		r.Guard("C05-R4", u, app, "recv.start.Index < e.Index && !(uint64(len(r2)) < e.Index - recv.start.Index - 1)", an.GuardOpts{Min: 1})
		r.StoreValues("C05-R4", u, app, []string{"append(r2[:((e.Index - recv.start.Index) - 1)], e)"}, 1)
		// the stale tail is cleared to the END of the file (ZeroToEnd, here or in a helper of package wal called from here):
		// clearing only some pages leaves old frames behind a torn record, which a later reopen takes for valid entries
		hasZero := len(u.Match(an.Call("pkg/fileutil.ZeroToEnd"))) > 0
		if !hasZero {
			for _, s := range u.Sites {
				if s.Kind == flow.SCall && s.Callee != nil && strings.HasPrefix(an.CalleeName(s), "wal.") {
					if hu, err := c.W.Unit(an.CalleeName(s)); err == nil && len(hu.Match(an.Call("pkg/fileutil.ZeroToEnd"))) > 0 {
						hasZero = true
					}
				}
			}
		}
		r.Check("C05-R4", u.Name+": in write mode the tail after the last valid record is zeroed to the end of the file", "", hasZero, "no call of fileutil.ZeroToEnd on the repair path")
		if !hasZero {
			return
		}
		r.Order("C05-R4", u, an.Call("pkg/fileutil.ZeroToEnd"), []an.M{an.Edge("r3 == io.EOF")}, an.OrderOpts{Min: 1})
		r.Order("C05-R4", u, an.Call("pkg/fileutil.ZeroToEnd"), []an.M{an.Call("os.(*File).Seek")}, an.OrderOpts{Success: an.NilErr, Min: 1})
		r.ArgValues("C05-R4", u, an.Call("os.(*File).Seek"), 0, []string{"recv.decoder.lastOffset()"}, 1)
		r.ArgValues("C05-R4", u, an.Call("os.(*File).Seek"), 1, []string{"io.SeekStart", "0"}, 1)
		r.Guard("C05-R4", u, an.Call("pkg/fileutil.ZeroToEnd"), "recv.tail() != nil", an.GuardOpts{Min: 1})
	}
	if u := c.unit("C05-R4", "wal.Repair"); u != nil {
		r.Order("C05-R4", u, an.Call("wal.(*decoder).decode"), []an.M{an.LocalStore("lastOffset")}, an.OrderOpts{Min: 1})
		r.StoreValues("C05-R4", u, an.LocalStore("lastOffset"), []string{"decoder.lastOffset()"}, 1)
		r.ArgValues("C05-R4", u, an.Call("os.(*File).Truncate"), 0, []string{"lastOffset"}, 1)
		r.Order("C05-R4", u, an.Call("os.(*File).Truncate"), []an.M{an.Call("io.Copy")}, an.OrderOpts{Success: an.NilErr, Min: 1})
		r.Follow("C05-R4", u, an.Call("os.(*File).Truncate"), []an.M{an.Call("pkg/fileutil.Fsync")}, an.FollowOpts{FromSuccess: an.NilErr, Min: 1})
		// the loop variable must be re-read in every iteration: the assignment sits inside the loop
		if sites := u.Match(an.LocalStore("lastOffset")); len(sites) == 1 {
			dec := u.Match(an.Call("wal.(*decoder).decode"))
			r.Check("C05-R4", "wal.Repair: lastOffset is captured in the same loop iteration as the decode", u.Pos(sites[0].Pos),
				len(dec) == 1 && sites[0].Block == dec[0].Block, "the offset is read immediately before each decode")
		}
	}
	_ = sort.Strings
}

// R6: what counts as a torn write. A CRC or unmarshal failure is forgiven (reported as an unexpected end of file, which
// Repair truncates and read-mode accepts) only when isTornEntry says so; everything else must stay a hard error, or a
// bit flip in a synced record is silently cut off. isTornEntry may say "torn" only for a record a whole sector chunk of
// which is zero: every `return true` lies under the all-zero flag of a chunk of the record's own bytes, the flag is
// lowered by any non-zero byte, and only the last file's tail qualifies.
func c05R6(c *Ctx) {
	r := c.R
	r.Clause("C05-R6", "a record is forgiven as torn only when one of its own sector chunks is all zero")
	u := c.unit("C05-R6", "wal.(*decoder).isTornEntry")
	if u == nil {
		return
	}
	r.Returns("C05-R6", u, []an.ReturnClass{
		{Name: "torn", Match: func(u *an.Unit, s *an.Site) bool { return u.C.Term(s.Ret.Results[0]) == "true" }, Guard: "isZero && 1 == len(recv.brs)"},
		{Name: "not torn", Match: func(u *an.Unit, s *an.Site) bool { return u.C.Term(s.Ret.Results[0]) == "false" }},
	}, 3)
	// the flag: raised per chunk, lowered by any non-zero byte of the chunk
	for _, s := range u.Match(an.LocalStore("isZero")) {
		if s.RHS == nil {
			continue
		}
		switch u.C.Term(s.RHS) {
		case "true":
			r.Ok("C05-R6", u.Name+": the all-zero flag starts raised for every chunk", u.Pos(s.Pos), "")
		case "false":
			r.GuardSite("C05-R6", u, s, c.W.Parse("v != 0"), "lowered exactly by a non-zero byte")
		default:
			r.Bad("C05-R6", u.Name+": the all-zero flag is only set to constants", u.Pos(s.Pos), "value "+u.C.Term(s.RHS))
		}
	}
	// the bytes tested are the record's own: the byte loop ranges over a slice of p0, taken directly or collected in a
	// list of such slices first (either arrangement)
	sliceOfP0 := func(e ast.Expr) bool {
		se, ok := ast.Unparen(e).(*ast.SliceExpr)
		return ok && u.C.Term(se.X) == "p0"
	}
	okBytes, nLoops := true, 0
	u.InspectAll(func(n ast.Node) bool {
		rs, ok := n.(*ast.RangeStmt)
		if !ok {
			return true
		}
		t := u.Info().TypeOf(rs.X)
		if t == nil || t.String() != "[]byte" {
			return true
		}
		nLoops++
		id, ok := ast.Unparen(rs.X).(*ast.Ident)
		if !ok {
			okBytes = okBytes && sliceOfP0(rs.X)
			return true
		}
		o := u.Info().ObjectOf(id)
		// a local defined as a slice of p0 ...
		good := false
		for _, d := range u.Sites {
			if d.Kind == flow.SStore && d.Local == o && d.RHS != nil && sliceOfP0(d.RHS) {
				good = true
			}
		}
		// ... or the value variable of a range over a list that only ever receives slices of p0
		u.InspectAll(func(m ast.Node) bool {
			outer, ok := m.(*ast.RangeStmt)
			if !ok || outer.Value == nil {
				return true
			}
			if vid, ok := outer.Value.(*ast.Ident); !ok || u.Info().ObjectOf(vid) != o {
				return true
			}
			lid, ok := ast.Unparen(outer.X).(*ast.Ident)
			if !ok {
				return true
			}
			lo := u.Info().ObjectOf(lid)
			all, any := true, false
			for _, d := range u.Sites {
				if d.Kind != flow.SStore || d.Local != lo || d.RHS == nil {
					continue
				}
				if call, ok := ast.Unparen(d.RHS).(*ast.CallExpr); ok && len(call.Args) == 2 && strings.HasPrefix(u.C.Term(d.RHS), "append(") {
					any = true
					all = all && sliceOfP0(call.Args[1])
				} else if _, isLit := ast.Unparen(d.RHS).(*ast.CompositeLit); !isLit {
					all = false
				}
			}
			if all && any {
				good = true
			}
			return true
		})
		okBytes = okBytes && good
		return true
	})
	r.Check("C05-R6", u.Name+": the bytes tested for zero are slices of the record's own bytes", "", okBytes && nLoops >= 1, fmt.Sprintf("%d byte loops", nLoops))
	// callers: a failure is turned into ErrUnexpectedEOF only under isTornEntry
	if du := c.unit("C05-R6", "wal.(*decoder).decodeRecord"); du != nil {
		for _, s := range du.Sites {
			if s.Kind == flow.SReturn && len(s.Ret.Results) == 1 && du.C.Term(s.Ret.Results[0]) == "io.ErrUnexpectedEOF" {
				r.GuardSite("C05-R6", du, s, c.W.Parse("recv.isTornEntry(data)"), "a validation failure is reported as a short file only for a torn record")
			}
		}
	}
}

func init() {
	old := registry["C05"].Run
	registry["C05"].Run = func(c *Ctx) { old(c); c05R6(c) }
}
