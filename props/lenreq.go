package props

import (
	"sort"
	"fmt"
	"go/ast"
	"go/constant"
	"go/token"
	"go/types"
	"strconv"
	"strings"

	"verif/internal/an"
	"verif/internal/flow"
)

// lenRequirement: a decoder indexes its []byte parameter with constant bounds and does not test the length itself;
// every caller must have established that many bytes. The requirement R is computed from the decoder (largest
// constant slice bound / index + 1 on the parameter, single-assignment integer locals substituted); at each call site the
// lower bound of len(argument) is computed from the dominating length tests `len(x) < K -> leave` and from re-slicings
// `x = x[:len(x)-c]` between the test and the call. LB >= R is required. A decision that needs more than this
// (lengths flowing through other variables) is undecided, not a verdict.
func lenRequirement(c *Ctx, rule, callee string, param int) {
	r := c.R
	cu := c.unit(rule, callee)
	if cu == nil {
		return
	}
	po := paramAt(cu, param)
	if po == nil {
		r.Unknown(rule, callee+": parameter", "", "no such parameter")
		return
	}
	need := int64(0)
	ast.Inspect(cu.Body, func(n ast.Node) bool {
		switch x := n.(type) {
		case *ast.SliceExpr:
			if id, ok := ast.Unparen(x.X).(*ast.Ident); ok && cu.Info().ObjectOf(id) == po {
				for _, b := range []ast.Expr{x.Low, x.High} {
					if b != nil {
						if v, ok := evalInt(cu, b, 0); ok && v > need {
							need = v
						}
					}
				}
			}
		case *ast.IndexExpr:
			if id, ok := ast.Unparen(x.X).(*ast.Ident); ok && cu.Info().ObjectOf(id) == po {
				if v, ok := evalInt(cu, x.Index, 0); ok && v+1 > need {
					need = v + 1
				}
			}
		}
		return true
	})
	if need == 0 {
		r.Unknown(rule, callee+": constant bounds on its input", "", "none found")
		return
	}
	short := callee[strings.LastIndex(callee, ".")+1:]
	n := 0
	for _, cs := range c.W.AllSites(an.Call(callee), short, nil) {
		u := cs.U
		if strings.HasSuffix(c.P.Fset.Position(cs.S.Pos).Filename, "_test.go") || param >= len(cs.S.Call.Args) {
			continue
		}
		n++
		construct := fmt.Sprintf("%s: %s is handed at least %d bytes", u.Name, short, need)
		id, ok := ast.Unparen(cs.S.Call.Args[param]).(*ast.Ident)
		if !ok {
			r.Unknown(rule, construct, u.Pos(cs.S.Pos), "the argument is not a plain variable: "+u.C.Term(cs.S.Call.Args[param]))
			continue
		}
		obj := u.Info().ObjectOf(id)
		name := u.C.Term(id) // the canonical term: a single-assignment local prints as its definition, a second `v` as v_2
		// lower bound from the tests that hold at a site, for the variable as it is named there
		lbAt := func(s *flow.Site) (int64, bool) {
			pc := u.SitePC(s) // staleness-aware: a test on the variable is forgotten once the variable is assigned
			atoms := map[string]*flow.F{}
			pc.Atoms(atoms)
			best, found := int64(0), false
			for k, a := range atoms {
				// len(x) < K, negated on the path
				pre := "len(" + name + ") < "
				if strings.HasPrefix(k, pre) {
					if kv, ok := constOf(c, k[len(pre):]); ok && flow.Implies(pc, flow.Not(a)).Holds && kv > best {
						best, found = kv, true
					}
				}
				// 0 == len(x) negated: at least one byte
				if (k == "0 == len("+name+")" || k == "nil == "+name) && flow.Implies(pc, flow.Not(a)).Holds && best < 1 && k[0] == '0' {
					best, found = 1, true
				}
			}
			return best, found
		}
		lb, found := lbAt(cs.S)
		if !found {
			// a re-slicing between the test and the call: x = x[:len(x)-c]
			for _, d := range u.Sites {
				if d.Kind != flow.SStore || d.Local != obj || d.RHS == nil {
					continue
				}
				if !(d.Block == cs.S.Block && d.SameBlockBefore(cs.S) || d.Block != cs.S.Block && u.G.Dominates(d.Block, cs.S.Block)) {
					continue
				}
				se, ok := ast.Unparen(d.RHS).(*ast.SliceExpr)
				if !ok || se.Low != nil || se.High == nil {
					continue
				}
				if xid, ok := ast.Unparen(se.X).(*ast.Ident); !ok || u.Info().ObjectOf(xid) != obj {
					continue
				}
				hb, ok := ast.Unparen(se.High).(*ast.BinaryExpr)
				if !ok || hb.Op != token.SUB || u.C.Term(hb.X) != "len("+name+")" && types.ExprString(hb.X) != "len("+id.Name+")" {
					continue
				}
				cut, ok := evalInt(u, hb.Y, 0)
				if !ok {
					continue
				}
				if before, ok := lbAt(d); ok {
					lb, found = before-cut, true
				}
			}
		}
		switch {
		case !found:
			r.Bad(rule, construct, u.Pos(cs.S.Pos), fmt.Sprintf("no length test on %s dominates the call: a short stored value makes %s slice out of range (a client can store such a value with SET)", name, short))
		case lb >= need:
			r.Ok(rule, construct, u.Pos(cs.S.Pos), fmt.Sprintf("len(%s) >= %d here", name, lb))
		default:
			r.Bad(rule, construct, u.Pos(cs.S.Pos), fmt.Sprintf("only len(%s) >= %d is established, %s reads %d bytes: a stored value of the missing length panics in the apply loop", name, lb, short, need))
		}
	}
	r.Min(rule, n, 1, "calls of "+short)
}

func constOf(c *Ctx, term string) (int64, bool) {
	if v, err := strconv.ParseInt(term, 10, 64); err == nil {
		return v, true
	}
	if cv := c.W.Const(term); cv != "" {
		if v, err := strconv.ParseInt(cv, 10, 64); err == nil {
			return v, true
		}
	}
	return 0, false
}

// evalInt evaluates an integer expression built from constants and single-assignment integer locals.
func evalInt(u *an.Unit, e ast.Expr, depth int) (int64, bool) {
	if depth > 6 {
		return 0, false
	}
	e = ast.Unparen(e)
	if tv, ok := u.Info().Types[e]; ok && tv.Value != nil && tv.Value.Kind() == constant.Int {
		v, exact := constant.Int64Val(tv.Value)
		return v, exact
	}
	switch x := e.(type) {
	case *ast.Ident:
		o := u.Info().ObjectOf(x)
		var def ast.Expr
		nd := 0
		for _, d := range u.Sites {
			if d.Kind == flow.SStore && d.Local == o {
				nd++
				def = d.RHS
			}
		}
		if nd == 1 && def != nil {
			return evalInt(u, def, depth+1)
		}
	case *ast.BinaryExpr:
		a, ok1 := evalInt(u, x.X, depth+1)
		b, ok2 := evalInt(u, x.Y, depth+1)
		if ok1 && ok2 {
			switch x.Op {
			case token.ADD:
				return a + b, true
			case token.SUB:
				return a - b, true
			case token.MUL:
				return a * b, true
			}
		}
	case *ast.CallExpr:
		if len(x.Args) == 1 {
			if tv, ok := u.Info().Types[x.Fun]; ok && tv.IsType() {
				if _, isInt := tv.Type.Underlying().(*types.Basic); isInt {
					return evalInt(u, x.Args[0], depth+1)
				}
			}
		}
	}
	return 0, false
}

// boolValueAt: the formula a boolean local stands for at site `use`, when the local is defined once (by an expression or
// a constant) in a block that dominates the use and then possibly overridden by assignments that sit directly under an
// `if c { x = v }` whose test lies between the definition and the use: value = fold over the overrides in order of
// (c ∧ v) ∨ (¬c ∧ value). Whatever the arrangement — `x := e; if c { x = true }`, `x := c || e`, a switch — two
// spellings of the same decision give equivalent formulas. ok is false when the shape is anything else.
func boolValueAt(u *an.Unit, e ast.Expr, use *an.Site) (*flow.F, bool) {
	id, isId := ast.Unparen(e).(*ast.Ident)
	if !isId {
		return u.C.Formula(flow.FromExpr(e)), true
	}
	obj := u.Info().ObjectOf(id)
	var defs []*an.Site
	for _, s := range u.Sites {
		if s.Kind == flow.SStore && s.Local == obj && !s.Index {
			defs = append(defs, s)
		}
	}
	if len(defs) == 0 {
		return u.C.Formula(flow.FromExpr(e)), true // a parameter, or a local that prints as its definition
	}
	// the base definition: dominates the use, is not itself conditional relative to it
	var base *an.Site
	var over []*an.Site
	for _, d := range defs {
		if d.RHS == nil {
			return nil, false
		}
		dominates := d.Block == use.Block && d.SameBlockBefore(use) || d.Block != use.Block && u.G.Dominates(d.Block, use.Block)
		if dominates {
			if base != nil {
				return nil, false
			}
			base = d
		} else {
			over = append(over, d)
		}
	}
	if base == nil {
		return nil, false
	}
	val := u.C.Formula(flow.FromExpr(base.RHS))
	sort.Slice(over, func(i, j int) bool { return over[i].Pos < over[j].Pos })
	for _, o := range over {
		// directly under an edge whose source lies on the straight line between the base definition and the use
		if len(o.Block.Preds) != 1 {
			return nil, false
		}
		edge := o.Block.Preds[0].From
		if edge.EdgeCond == nil || len(edge.Preds) != 1 {
			return nil, false
		}
		src := edge.Preds[0].From
		okSrc := (src == base.Block || u.G.Dominates(base.Block, src)) && (src == use.Block || u.G.Dominates(src, use.Block))
		if !okSrc {
			return nil, false
		}
		c := u.C.Formula(edge.EdgeCond)
		v := u.C.Formula(flow.FromExpr(o.RHS))
		val = flow.Or(flow.And(c, v), flow.And(flow.Not(c), val))
	}
	return flow.Simplify(val), true
}
