package props

import (
	"fmt"
	"go/ast"
	"go/token"
	"strings"

	"verif/internal/an"
	"verif/internal/flow"
)

func init() {
	register(&Property{
		ID:          "C14",
		Technique:   "static analysis: ORDER/FOLLOW rules on the backup request, the checkpoint worker and the restore path; who-may-call enumeration; guard implication by truth table on the purge decision; argument provenance on canonical terms",
		Explanation: "Decides: (B1) pending in-memory caches are flushed before the checkpoint is requested; (B2) the checkpoint is started inside the apply loop: beginSnapshot asks for it outside its goroutine and is called only from maybeTriggerSnapshot <- applyCommits, GetSnapshot returns only after the checkpoint was started (WaitReady), the result is read only after completion (GetResult waits for done and nothing else), the worker signals started from the engine checkpoint and closes done on every exit; (B3) copying into place never truncates an existing (possibly hard-linked) destination: it is unlinked before it is created; the restore removes and creates files in the data directory only; (B4) a checkpoint is purged only when its index is below the latest snapshot index, which is read from the atomically updated field; (B5) restore closes the engine before touching files and re-opens it after the copies; a kept sst file was verified identical; reopening re-creates the HLL cache, the index manager and the default write batch instead of keeping those bound to the replaced engine; (B2, engines) the mem engine notifies started only after its iterator pinned the view and saves through that iterator; the pebble wrapper notifies only after Checkpoint returned (pebble copies its WAL whole at the end); the rocksdb wrapper arms its notification only under the engine lock; (B4) nothing purges checkpoints inside a restore before the engine is reopened. (B1, write-back) every command that modifies a cached HyperLogLog sketch registers that sketch in the dirty cache before it returns success, the dirty cache is the one Flush purges, and its eviction callback is the write to the engine. (B2, directory lock) the checkpoint is written while checkpointDirLock is held exclusively and IsLocalBackupOK/restoreFromPath look at it under the read lock. (B5, kept files) the footer comparison reads both files at the footer offset and the copy loop skips nothing but the LOG file.",
		NotDecided:  "the rocksdb checkpoint notifies \"started\" from a 20 ms timer because rocksdb does not report when its view is pinned (it is fixed when CreateCheckpoint lists the live files, at its start): whether 20 ms suffices is a timing question no static rule decides (stated in DESIGN.md); equality of the restored data with the state at index i (engine behaviour), rsync, repeated/interleaved backups' timing, that the HLL cache flush is complete (cache internals).",
		Assumptions: []string{"path conditions as in C01"},
		Run:         runC14,
	})
}

func runC14(c *Ctx) {
	r := c.R
	r.Clause("C14-B1", "caches flushed before the checkpoint is requested")
	r.Clause("C14-B2", "checkpoint started inside the apply loop; result read only after completion")
	r.Clause("C14-B3", "restoring never writes into the checkpoint")
	r.Clause("C14-B4", "purge keeps what the latest snapshot needs")
	r.Clause("C14-B5", "restore replaces everything: close, remove, copy, reopen")
	if u := c.unit("C14-B1", "rockredis.(*RockDB).Backup"); u != nil {
		r.Order("C14-B1", u, an.Send("recv.backupC"), []an.M{an.Call("rockredis.(*hllCache).Flush")}, an.OrderOpts{Min: 1})
		r.StoreValues("C14-B1", u, an.LocalStore("fname"), []string{"rockredis.GetCheckpointDir(p0, p1)"}, 1)
	}
	hllWriteBack(c, "C14-B1")
	// B2
	if u := c.unit("C14-B2", "node.(*kvStoreSM).GetSnapshot"); u != nil {
		ok := an.Return().Where("success", func(u *an.Unit, s *an.Site) bool { return !an.ErrorReturn(u, s) })
		r.Order("C14-B2", u, ok, []an.M{an.Call("rockredis.(*BackupInfo).WaitReady")}, an.OrderOpts{Min: 1})
		r.Order("C14-B2", u, an.Call("rockredis.(*BackupInfo).WaitReady"), []an.M{an.AnyCall().Where("Backup", func(u *an.Unit, s *an.Site) bool { return strings.HasSuffix(an.CalleeName(s), ".Backup") })}, an.OrderOpts{Min: 1})
	}
	if u := c.unit("C14-B2", "rockredis.(*BackupInfo).WaitReady"); u != nil {
		r.Order("C14-B2", u, an.Return(), []an.M{an.Recv("recv.started"), an.Recv("recv.done")}, an.OrderOpts{Min: 1})
	}
	if u := c.unit("C14-B2", "rockredis.(*BackupInfo).GetResult"); u != nil {
		r.Order("C14-B2", u, an.Return(), []an.M{an.Recv("recv.done")}, an.OrderOpts{Min: 1})
	}
	if u := c.lit("C14-B2", "rockredis.(*RockDB).backupLoop", an.AnyCall().Where("checkpoint save", func(u *an.Unit, s *an.Site) bool { return strings.HasSuffix(an.CalleeName(s), "KVCheckpoint.Save") })); u != nil {
		save := an.AnyCall().Where("checkpoint save", func(u *an.Unit, s *an.Site) bool { return strings.HasSuffix(an.CalleeName(s), "KVCheckpoint.Save") })
		r.ArgValues("C14-B2", u, save, 0, []string{"rsp.backupDir"}, 1)
		r.ArgValues("C14-B2", u, save, 1, []string{"rsp.started"}, 1)
		// done is closed on every exit: deferred at the top
		d := u.Match(an.AnyCall("builtin.close"))
		ok := len(d) == 1 && d[0].Deferred && d[0].Block == u.G.Entry && u.ArgTerm(d[0], 0) == "rsp.done"
		r.Check("C14-B2", "backupLoop worker: close(rsp.done) is deferred before anything else", "", ok, "")
	}
	for _, sw := range c.W.AllSites(an.Call("node.(*raftNode).beginSnapshot"), "beginSnapshot", nil) {
		r.Check("C14-B2", sw.U.Name+": beginSnapshot is called from maybeTriggerSnapshot only", sw.U.Pos(sw.S.Pos), sw.U.Name == "node.(*KVNode).maybeTriggerSnapshot", "")
	}
	for _, sw := range c.W.AllSites(an.Call("node.(*KVNode).maybeTriggerSnapshot"), "maybeTriggerSnapshot", nil) {
		r.Check("C14-B2", sw.U.Name+": maybeTriggerSnapshot is called from the apply loop only", sw.U.Pos(sw.S.Pos), sw.U.Name == "node.(*KVNode).applyCommits", "")
	}
	if u := c.unit("C14-B2", "node.(*raftNode).beginSnapshot"); u != nil {
		r.Order("C14-B2", u, an.AnyCall().Where("go statement", func(u *an.Unit, s *an.Site) bool { return s.Go }),
			[]an.M{an.Call("node.DataStorage.GetSnapshot")}, an.OrderOpts{Success: an.NilErr, Min: 1})
	}
	// B3
	for _, fn := range []string{"rockredis.copyFile", "common.copyFileContents"} {
		if u := c.unit("C14-B3", fn); u != nil {
			r.Order("C14-B3", u, an.Call("os.Create"), []an.M{an.Call("os.Remove")}, an.OrderOpts{Min: 1})
			dstArg := u.ArgTerm(u.Match(an.Call("os.Create"))[0], 0)
			r.ArgValues("C14-B3", u, an.Call("os.Remove"), 0, []string{dstArg}, 1)
		}
	}
	if u := c.unit("C14-B3", "rockredis.(*RockDB).restoreFromPath"); u != nil {
		// what is removed lives in the data directory
		for _, s := range u.Match(an.Call("os.RemoveAll", "os.Remove")) {
			arg := u.ArgTerm(s, 0)
			ok := arg == "fn_2" || arg == "fn"
			r.Check("C14-B3", u.Name+": removes a file listed from the data directory, not from the checkpoint", u.Pos(s.Pos), ok, "argument "+arg)
		}
		// (locals defined once by pure calls print as their definitions: matchName, dst)
		nl := u.Match(an.LocalStore("nameList"))
		r.Check("C14-B3", u.Name+": the removal list is the data directory listing", "", len(nl) == 1 && nl[0].Tuple != nil && u.C.Term(nl[0].Tuple) == "filepath.Glob(path.Join(recv.GetDataDir(), \"*\"))", "")
		for _, cp := range u.Match(an.Call("common.CopyFileForHardLink", "common.CopyFile")) {
			src := u.ArgTerm(cp, 0)
			r.Check("C14-B3", u.Name+": copies from the checkpoint into the data directory", u.Pos(cp.Pos),
				strings.HasPrefix(src, "fn") && u.ArgTerm(cp, 1) == "path.Join(recv.GetDataDir(), path.Base("+src+"))", "copies "+src+" to "+u.ArgTerm(cp, 1))
		}
		// B5
		closeE := an.Call("rockredis.(*RockDB).closeEng")
		r.Order("C14-B5", u, an.Call("os.RemoveAll"), []an.M{closeE}, an.OrderOpts{Min: 1})
		r.Order("C14-B5", u, an.Call("common.CopyFileForHardLink", "common.CopyFile"), []an.M{closeE}, an.OrderOpts{Min: 2})
		r.Order("C14-B5", u, an.Call("rockredis.(*RockDB).reOpenEng"), []an.M{closeE}, an.OrderOpts{Min: 1})
		r.Order("C14-B5", u, an.Return().Where("nil or reopen result", func(u *an.Unit, s *an.Site) bool { return !an.ErrorReturn(u, s) && s.Pos > u.Match(closeE)[0].Pos }),
			[]an.M{an.Call("rockredis.(*RockDB).reOpenEng")}, an.OrderOpts{SkipErrEdges: true, Min: 1})
	}
	// B5: reopening the engine drops every cache filled from the previous engine
	if u := c.unit("C14-B5", "rockredis.(*RockDB).reOpenEng"); u != nil {
		for _, fc := range []struct{ field, ctor string }{
			{"rockredis.RockDB.hllCache", "rockredis.newHLLCache("},
			{"rockredis.RockDB.indexMgr", "rockredis.NewIndexMgr("},
			{"rockredis.RockDB.wb", "recv.rockEng.DefaultWriteBatch("},
		} {
			if !r.Require("C14-B5", u, an.Store(fc.field), "a cache or batch bound to the engine that was just replaced would serve or write back data from after the checkpoint") {
				continue
			}
			for _, s := range u.Match(an.Store(fc.field)) {
				t := defTermOf(u, s)
				r.Check("C14-B5", u.Name+": "+fc.field+" is re-created, not kept, when the engine is reopened", u.Pos(s.Pos), strings.HasPrefix(t, fc.ctor), "assigned "+t)
			}
		}
		for _, f := range []string{"rockredis.RockDB.hllCache", "rockredis.RockDB.indexMgr", "rockredis.RockDB.wb"} {
			r.Order("C14-B5", u, an.Return().Where("success", func(u *an.Unit, s *an.Site) bool { return !an.ErrorReturn(u, s) }),
				[]an.M{an.Store(f)}, an.OrderOpts{SkipErrEdges: true, Min: 1})
		}
	}
	// B2 (engines): the apply loop is released only once the engine's view is pinned
	if u := c.unit("C14-B2", "engine.(*memEngCheckpoint).Save"); u != nil {
		cl := an.AnyCall().Where("close(notify)", func(u *an.Unit, s *an.Site) bool { return s.Builtin == "close" && u.ArgTerm(s, 0) == "p1" })
		r.Order("C14-B2", u, cl, []an.M{an.Call("engine.(*memEng).GetIterator")}, an.OrderOpts{SkipErrEdges: true, Min: 1})
		sv := u.Match(an.Call("engine.saveMemDBToFile"))
		okIt := false
		if len(sv) == 1 {
			if id, ok := ast.Unparen(sv[0].Call.Args[0]).(*ast.Ident); ok {
				o := u.Info().ObjectOf(id)
				n := 0
				for _, d := range u.Sites {
					if d.Kind == flow.SStore && d.Local == o {
						n++
						okIt = d.Tuple != nil && strings.HasPrefix(u.C.Term(d.Tuple), "recv.me.GetIterator(")
					}
				}
				okIt = okIt && n == 1
			}
		}
		r.Check("C14-B2", u.Name+": the saved data is read through the iterator pinned before the notification", "", okIt, "")
	}
	if u := c.unit("C14-B2", "engine.(*memEng).GetIterator"); u != nil {
		r.Require("C14-B2", u, an.Call("engine.newMemIterator"), "the checkpoint reads through the locking iterator")
	}
	if u := c.unit("C14-B2", "engine.newMemIterator"); u != nil {
		// creating the iterator is what pins the view: it takes the engine read lock and a read transaction/snapshot
		r.Require("C14-B2", u, an.AnyCall().Where("engine read lock", func(u *an.Unit, s *an.Site) bool { return strings.HasSuffix(an.CalleeName(s), "RWMutex).RLock") }), "the iterator must hold the engine against close/reopen")
	}
	// pebble copies its WAL files whole at the end of Checkpoint: whatever is written before Checkpoint returns may be
	// in the checkpoint, so the notification must come after it (a timer is not enough; found and fixed, see known_findings)
	if u := c.unit("C14-B2", "engine.(*pebbleEngCheckpoint).Save"); u != nil {
		cl := an.AnyCall().Where("close(notify)", func(u *an.Unit, s *flow.Site) bool { return s.Builtin == "close" && u.ArgTerm(s, 0) == "p1" })
		ck := an.AnyCall().Where("pebble Checkpoint", func(u *an.Unit, s *flow.Site) bool {
			return strings.HasSuffix(an.CalleeName(s), "pebble.(*DB).Checkpoint")
		})
		r.Order("C14-B2", u, cl, []an.M{ck}, an.OrderOpts{Min: 1})
		n := 0
		for _, l := range u.Lits() {
			for _, s := range l.Sites {
				if s.Kind == flow.SCall && s.Builtin == "close" {
					n++
				}
			}
		}
		r.Check("C14-B2", u.Name+": the notification is not sent from a timer or goroutine", "", n == 0 && len(u.Match(an.Call("time.AfterFunc"))) == 0, fmt.Sprintf("%d close calls in closures", n))
	}
	for _, fn := range []string{"engine.(*rockEngCheckpoint).Save"} {
		u := c.unit("C14-B2", fn)
		if u == nil {
			continue
		}
		// rocksdb fixes the WAL sizes it copies when CreateCheckpoint lists the live files, right at its start, and
		// cannot report that moment; the notification is armed (timer) only after the engine lock is held and the
		// engine is known open, and never fires on the closed-engine path. Whether the timer is long enough is not decided.
		arm := an.Call("time.AfterFunc")
		lock := an.AnyCall().Where("engine read lock", func(u *an.Unit, s *flow.Site) bool {
			return strings.HasSuffix(an.CalleeName(s), ".RLock") && !s.Deferred
		})
		r.Order("C14-B2", u, arm, []an.M{lock}, an.OrderOpts{Min: 1})
		n := 0
		for _, l := range u.Lits() {
			for _, s := range l.Sites {
				if s.Kind == flow.SCall && s.Builtin == "close" {
					n++
				}
			}
		}
		direct := 0
		for _, s := range u.Sites {
			if s.Kind == flow.SCall && s.Builtin == "close" {
				direct++
			}
		}
		r.Check("C14-B2", fn+": the notification is sent from the armed timer only", "", n == 1 && direct == 0, fmt.Sprintf("%d in timer closures, %d direct", n, direct))
	}
	// B2 (no reuse): the worker never reports a checkpoint it did not write in this request: every exit of the worker is
	// preceded by Save or by recording an error (a directory left over from a crashed attempt is removed, not trusted)
	if u := c.lit("C14-B2", "rockredis.(*RockDB).backupLoop", an.AnyCall().Where("checkpoint save", func(u *an.Unit, s *flow.Site) bool { return strings.HasSuffix(an.CalleeName(s), "KVCheckpoint.Save") })); u != nil {
		save := an.AnyCall().Where("checkpoint save", func(u *an.Unit, s *flow.Site) bool { return strings.HasSuffix(an.CalleeName(s), "KVCheckpoint.Save") })
		r.Order("C14-B2", u, an.Return(), []an.M{save, an.StoreTerm("rsp.err")}, an.OrderOpts{Min: 3})
		// and an existing directory of the same name is removed before Save writes
		r.Order("C14-B2", u, save, []an.M{an.Call("os.RemoveAll"), an.Edge("os.IsNotExist(err)")}, an.OrderOpts{Min: 1})
	}
	// B2 (directory lock): the checkpoint directory is written under the exclusive lock that IsLocalBackupOK / Restore
	// take in read mode, so nobody is told "this backup is usable" (or restores it) while it is still being written
	if u := c.lit("C14-B2", "rockredis.(*RockDB).backupLoop", an.AnyCall().Where("checkpoint save", func(u *an.Unit, s *flow.Site) bool { return strings.HasSuffix(an.CalleeName(s), "KVCheckpoint.Save") })); u != nil {
		save := u.Match(an.AnyCall().Where("checkpoint save", func(u *an.Unit, s *flow.Site) bool { return strings.HasSuffix(an.CalleeName(s), "KVCheckpoint.Save") }))
		isDirLock := func(name string) an.M {
			return an.AnyCall().Where("checkpointDirLock."+name, func(u *an.Unit, s *flow.Site) bool {
				if !strings.HasSuffix(an.CalleeName(s), "RWMutex)."+name) {
					return false
				}
				sel, ok := s.Call.Fun.(*ast.SelectorExpr)
				return ok && strings.HasSuffix(u.C.Term(sel.X), ".checkpointDirLock")
			})
		}
		locks, unlocks := u.Match(isDirLock("Lock")), u.Match(isDirLock("Unlock"))
		held := len(save) == 1 && len(locks) >= 1
		why := ""
		if held {
			held = false
			for _, l := range locks {
				if pathFree(u, save[0], []*flow.Site{l}) {
					held = true
				}
			}
			if !held {
				why = "Save is not dominated by checkpointDirLock.Lock()"
			}
			for _, ul := range unlocks {
				if ul.Deferred {
					continue
				}
				for _, l := range locks {
					if reaches(u, l, ul) && reaches(u, ul, save[0]) {
						held = false
						why = "checkpointDirLock is released at " + u.Pos(ul.Pos) + " before Save writes the checkpoint"
					}
				}
			}
		}
		r.Check("C14-B2", "backupLoop worker: the checkpoint is written while checkpointDirLock is held exclusively", "", held, why)
	}
	for _, fn := range []string{"rockredis.(*RockDB).IsLocalBackupOK", "rockredis.(*RockDB).restoreFromPath"} {
		if u := c.unit("C14-B2", fn); u != nil {
			rl := an.AnyCall().Where("checkpointDirLock.RLock", func(u *an.Unit, s *flow.Site) bool {
				sel, ok := s.Call.Fun.(*ast.SelectorExpr)
				return ok && strings.HasSuffix(an.CalleeName(s), "RWMutex).RLock") && strings.HasSuffix(u.C.Term(sel.X), ".checkpointDirLock")
			})
			r.Order("C14-B2", u, an.Call("rockredis.(*RockDB).isBackupOKInPath"), []an.M{rl}, an.OrderOpts{Min: 1})
		}
	}
	// B5 (kept files): a kept sst was compared on its footer, read at the footer offset of both files; and every file
	// of the checkpoint is (re)linked or copied into place whether or not a same-named file was kept
	if u := c.unit("C14-B5", "rockredis.isSameSSTFile"); u != nil {
		r.ArgValues("C14-B5", u, an.Call("os.(*File).ReadAt"), 1, []string{"roffset"}, 2)
		r.StoreValues("C14-B5", u, an.LocalStore("roffset"), []string{"(stat1.Size() - rbytes)", "0", "(stat1.Size() - 262144)", "(-262144 + stat1.Size())"}, 1)
	}
	if u := c.unit("C14-B5", "rockredis.(*RockDB).restoreFromPath"); u != nil {
		copies := u.Match(an.Call("common.CopyFileForHardLink", "common.CopyFile"))
		okAll := len(copies) >= 2
		why := ""
		u.InspectAll(func(n ast.Node) bool {
			rs, ok := n.(*ast.RangeStmt)
			if !ok {
				return true
			}
			first := token.NoPos
			for _, cp := range copies {
				if cp.Pos >= rs.Body.Pos() && cp.Pos < rs.Body.End() && (first == token.NoPos || cp.Pos < first) {
					first = cp.Pos
				}
			}
			if first == token.NoPos {
				return true
			}
			// the only element that may be skipped is the engine's info LOG file, which is not data
			var ifs []*ast.IfStmt
			ast.Inspect(rs.Body, func(m ast.Node) bool {
				if is, ok := m.(*ast.IfStmt); ok {
					ifs = append(ifs, is)
				}
				if br, ok := m.(*ast.BranchStmt); ok && br.Pos() < first && (br.Tok == token.CONTINUE || br.Tok == token.BREAK) {
					exempt := false
					for _, is := range ifs {
						if is.Body.Pos() <= br.Pos() && br.Pos() < is.Body.End() {
							ct := u.C.Term(is.Cond)
							if strings.HasPrefix(ct, "strings.HasPrefix(path.Base(") && strings.HasSuffix(ct, `, "LOG")`) {
								exempt = true
							}
						}
					}
					if !exempt {
						okAll = false
						why = "the copy loop skips an element at " + u.Pos(br.Pos()) + " before it reaches the copy"
					}
				}
				return true
			})
			return true
		})
		r.Check("C14-B5", u.Name+": every file of the checkpoint is linked or copied into the data directory (no element of the copy loop is skipped)", "", okAll, why)
	}
	// B4: while a checkpoint is being restored nothing may purge checkpoints (the one being copied could be selected)
	if u := c.unit("C14-B4", "rockredis.(*RockDB).restoreFromPath"); u != nil {
		r.Order("C14-B4", u, an.Call("rockredis.purgeOldCheckpoint"), []an.M{an.Call("rockredis.(*RockDB).reOpenEng")}, an.OrderOpts{Min: 1})
	}
	// B4
	if u := c.unit("C14-B4", "rockredis.purgeOldCheckpoint"); u != nil {
		r.Guard("C14-B4", u, an.Call("os.RemoveAll"), "!(sindex >= p2)", an.GuardOpts{Min: 1})
		sd := u.Match(an.LocalStore("sindex"))
		r.Check("C14-B4", "purgeOldCheckpoint: the compared index is parsed from the checkpoint directory name", "", len(sd) == 1 && sd[0].Tuple != nil && strings.HasPrefix(u.C.Term(sd[0].Tuple), "strconv.ParseUint(strings.Split(path.Base(rockredis.CheckpointSortNames(checkpointList)[(i + p0)]), \"-\")[1], 16"), "")
	}
	for _, sw := range c.W.AllSites(an.Call("rockredis.purgeOldCheckpoint"), "purgeOldCheckpoint", nil) {
		a0, a2 := sw.U.ArgTerm(sw.S, 1), sw.U.ArgTerm(sw.S, 2)
		if strings.Contains(a0, "GetBackupDirForRemote") {
			continue // remote transfer cache: not referenced by raft snapshots
		}
		r.Check("C14-B4", sw.U.Name+": local purge passes the latest snapshot index", sw.U.Pos(sw.S.Pos), a2 == "atomic.LoadUint64(&recv.latestSnapIndex)", "argument "+a2)
	}
	if u := c.unit("C14-B4", "rockredis.(*RockDB).SetLatestSnapIndex"); u != nil {
		r.ArgValues("C14-B4", u, an.Call("sync/atomic.StoreUint64"), 1, []string{"p0"}, 1)
	}
}

// defTermOf: the term stored by s; for a plain local on the right-hand side, the term of that local's single definition.
func defTermOf(u *an.Unit, s *flow.Site) string {
	if s.RHS == nil {
		if s.Tuple != nil {
			return u.C.Term(s.Tuple)
		}
		return ""
	}
	if id, ok := ast.Unparen(s.RHS).(*ast.Ident); ok {
		o := u.Info().ObjectOf(id)
		var defs []string
		for _, d := range u.Sites {
			if d.Kind == flow.SStore && d.Local == o {
				switch {
				case d.Tuple != nil:
					defs = append(defs, u.C.Term(d.Tuple))
				case d.RHS != nil:
					defs = append(defs, u.C.Term(d.RHS))
				}
			}
		}
		if len(defs) == 1 {
			return defs[0]
		}
	}
	return u.C.Term(s.RHS)
}

// hllWriteBack: HyperLogLog sketches are modified in a cache and reach the engine only when the *dirty* cache is
// flushed (Backup) or evicts. The flush-before-checkpoint rule (B1) is only worth something if every modified sketch
// is registered in that dirty cache before the command returns. Reported under C14-B1 and C06-S6.
func hllWriteBack(c *Ctx, rule string) {
	r := c.R
	n := 0
	for _, cs := range c.W.AllSites(an.Call("rockredis.(*hllCacheItem).addCount"), "addCount", []string{"rockredis"}) {
		u := cs.U
		n++
		add := cs.S
		changedRet := an.Return().Where("after the sketch may have changed", func(u *an.Unit, s *flow.Site) bool {
			if s.Pos < add.Pos {
				return false
			}
			return !flow.Implies(u.SitePC(s), c.W.Parse("!changed")).Holds && !an.ErrorReturn(u, s)
		})
		r.Order(rule, u, changedRet, []an.M{an.Call("rockredis.(*hllCache).AddDirtyWrite")}, an.OrderOpts{Min: 1})
		for _, s := range u.Match(an.Call("rockredis.(*hllCache).AddDirtyWrite")) {
			recvOf := ""
			if sel, ok := add.Call.Fun.(*ast.SelectorExpr); ok {
				recvOf = u.C.Term(sel.X)
			}
			r.Check(rule, u.Name+": the sketch registered as dirty is the one that was modified, under the command's key", u.Pos(s.Pos),
				u.ArgTerm(s, 1) == recvOf && u.ArgTerm(s, 0) == "p1", "registered "+u.ArgTerm(s, 1)+" under "+u.ArgTerm(s, 0))
		}
	}
	r.Min(rule, n, 1, "functions that modify a cached HLL sketch")
	if u := c.unit(rule, "rockredis.(*hllCache).AddDirtyWrite"); u != nil {
		ad := u.Match(an.Call("github.com/hashicorp/golang-lru.(*Cache).Add"))
		ok := len(ad) == 1 && strings.HasPrefix(u.C.Term(ad[0].Call.Fun), "recv.dirtyWriteCache")
		r.Check(rule, u.Name+": registers in the dirty cache (the one Flush purges)", "", ok, "")
	}
	if u := c.unit(rule, "rockredis.(*hllCache).Flush"); u != nil {
		pg := u.Match(an.Call("github.com/hashicorp/golang-lru.(*Cache).Purge"))
		ok := len(pg) == 1 && strings.HasPrefix(u.C.Term(pg[0].Call.Fun), "recv.dirtyWriteCache")
		r.Check(rule, u.Name+": purges the dirty cache (eviction writes each dirty sketch to the engine)", "", ok, "")
	}
	if u := c.unit(rule, "rockredis.newHLLCache"); u != nil {
		ok := false
		for _, s := range u.Sites {
			if s.Kind == flow.SStore && s.Tuple != nil && strings.HasPrefix(u.C.Term(s.LHS), "c.dirtyWriteCache") && strings.Contains(u.C.Term(s.Tuple), "c.onEvicted") {
				ok = true
			}
		}
		r.Check(rule, u.Name+": the dirty cache evicts through onEvicted (the write to the engine)", "", ok, "")
	}
}
