package props

import (
	"fmt"
	"go/ast"
	"go/types"
	"strings"

	"verif/internal/an"
	"verif/internal/flow"
)

func init() {
	register(&Property{
		ID:        "C13",
		Technique: "static analysis: argument provenance of the cursor into the range bounds per direction, constant propagation of the open-range type, guard implication on the table-boundary truncation, enumeration of prefix comparisons on table names, page-completeness shape of the scan loop",
		Explanation: "Decides narrow construction clauses of the cursor scans, not their behaviour: (Q1) no element is returned twice at a page boundary: the cursor becomes the lower bound when scanning forward and the upper bound in reverse, the far end is the type/table/collection end built from an empty trailing segment, and the iterator is opened with both ends open (the wrapper's open-bit handling is decided in C20-T3); (Q2) nothing from another table is returned: the node-level scan commands cut the page at the first key whose table (ExtractTable) is not byte-equal to the cursor's table, and no table membership test on this path is a prefix comparison; (Q3) a page is short only when the range is exhausted: the scan loop stops on the element count or on the end of the iterator only (a short page is what the node reads as 'finished'), and a forward MATCH scan starts from the cursor, not from a pattern-derived position. (Q4) the merge scan never overwrites the command name of a per-partition command, (Q5) the count a page is measured against is cut at the store's page limit, (Q6) the store scans from the client's cursor unmodified and the far end of a forward range is the successor of the prefix.",
		NotDecided: "the bulk of C13: completeness, order, termination, MATCH semantics, behaviour under concurrent writes — these need the iterator's behaviour, not its construction.",
		Assumptions: []string{"path conditions as in C01"},
		Run: runC13,
	})
}

func runC13(c *Ctx) {
	r := c.R
	r.Clause("C13-Q1", "the cursor is an exclusive bound in the scan direction; the far end is the collection's end")
	r.Clause("C13-Q2", "pages are cut at the table boundary by exact table equality")
	r.Clause("C13-Q3", "a page is short only when the range is exhausted")
	// Q1
	type rb struct {
		fn                     string
		enc, minEnc, maxEnc    string
		curArg                 string
		args                   string
	}
	for _, x := range []rb{
		{"rockredis.buildScanKeyRange", "rockredis.encodeScanKey", "rockredis.encodeScanMinKey", "rockredis.encodeScanMaxKey", "p1", "p0"},
		{"rockredis.buildSpecificDataScanKeyRange", "rockredis.encodeSpecificDataScanKey", "rockredis.encodeSpecificDataScanMinKey", "rockredis.encodeSpecificDataScanMaxKey", "p3", "p0, p1, p2"},
	} {
		u := c.unit("C13-Q1", x.fn)
		if u == nil {
			continue
		}
		rev := "p2"
		if x.curArg == "p3" {
			rev = "p4"
		}
		check := func(result string, wantCalls []string, cond string) {
			// the store to the named result under the direction
			n := 0
			for _, s := range u.Match(an.LocalStore(result)) {
				if s.Tuple == nil {
					continue
				}
				pc := u.SitePC(s)
				if res := flow.Implies(pc, c.W.Parse(cond)); !res.Holds {
					continue
				}
				n++
				t := u.C.Term(s.Tuple)
				ok := false
				for _, w := range wantCalls {
					if t == w {
						ok = true
					}
				}
				r.Check("C13-Q1", fmt.Sprintf("%s: %s when %s", x.fn, result, cond), u.Pos(s.Pos), ok, "built by "+t)
			}
			if n == 0 {
				r.Bad("C13-Q1", fmt.Sprintf("%s: %s when %s", x.fn, result, cond), "", "no assignment of this bound under this direction")
			}
		}
		a := x.args
		// forward: min from the cursor, max = far end (empty trailing segment)
		// (the "min" encoder is the plain key encoder under another name — checked below when it exists — so either may be
		// called)
		check("minKey", []string{fmt.Sprintf("%s(%s, %s)", x.minEnc, a, x.curArg), fmt.Sprintf("%s(%s, %s)", x.enc, a, x.curArg)}, "!"+rev)
		check("maxKey", []string{fmt.Sprintf("%s(%s, nil)", x.maxEnc, a)}, "!"+rev)
		// reverse: max from the cursor, min = near end
		check("maxKey", []string{fmt.Sprintf("%s(%s, %s)", x.enc, a, x.curArg)}, rev)
		check("minKey", []string{fmt.Sprintf("%s(%s, nil)", x.minEnc, a), fmt.Sprintf("%s(%s, nil)", x.enc, a)}, rev)
		if c.P.Func(x.minEnc) != nil {
			if mu := c.unit("C13-Q1", x.minEnc); mu != nil {
				allArgs := "p0, p1"
				if x.curArg == "p3" {
					allArgs = "p0, p1, p2, p3"
				}
				r.ReturnTerm("C13-Q1", mu, 0, "RES("+x.enc+"("+allArgs+"), 0)", x.enc+"("+allArgs+")")
			}
		}
	}
	if u := c.unit("C13-Q1", "rockredis.(*RockDB).buildScanIterator"); u != nil {
		r.StoreValues("C13-Q1", u, an.LocalStore("tp"), []string{"common.RangeOpen"}, 0)
		it := u.Match(an.Call("rockredis.(*RockDB).NewDBRangeIterator"))
		ok := len(it) == 1 && u.ArgTerm(it[0], 0) == "p0" && u.ArgTerm(it[0], 1) == "p1" && (u.ArgTerm(it[0], 2) == "common.RangeOpen" || u.ArgTerm(it[0], 2) == "tp") && u.ArgTerm(it[0], 3) == "p2"
		r.Check("C13-Q1", "buildScanIterator: both ends open, bounds and direction passed through", "", ok, "")
	}
	r.Check("C13-Q1", "RangeOpen = left open | right open", "", c.W.Const("common.RangeOpen") != "" && atoi(c.W.Const("common.RangeOpen")) == atoi(c.W.Const("common.RangeLOpen"))|atoi(c.W.Const("common.RangeROpen")),
		fmt.Sprintf("RangeOpen=%s LOpen=%s ROpen=%s", c.W.Const("common.RangeOpen"), c.W.Const("common.RangeLOpen"), c.W.Const("common.RangeROpen")))
	for _, fn := range []string{"rockredis.(*RockDB).scanGenericUseBuffer", "rockredis.(*RockDB).buildSpecificDataScanIterator"} {
		if u := c.unit("C13-Q1", fn); u != nil {
			it := u.Match(an.Call("rockredis.(*RockDB).buildScanIterator"))
			ok := len(it) == 1 && u.ArgTerm(it[0], 0) == "minKey" && u.ArgTerm(it[0], 1) == "maxKey"
			r.Check("C13-Q1", fn+": iterates exactly the range computed from the cursor", "", ok, "")
		}
	}
	// Q3: the cursor that reaches the range builders is the caller's cursor, unmodified, all the way from the exported API
	nPass := 0
	seenPT := map[string]bool{}
	var passThrough func(fn string, idx int, depth int)
	passThrough = func(fn string, idx int, depth int) {
		key := fmt.Sprintf("%s#%d", fn, idx)
		if seenPT[key] || depth > 6 {
			return
		}
		seenPT[key] = true
		u := c.unit("C13-Q3", fn)
		if u == nil {
			return
		}
		pv := paramAt(u, idx)
		if pv == nil {
			r.Unknown("C13-Q3", fn+": cursor parameter", "", fmt.Sprintf("no parameter %d", idx))
			return
		}
		nPass++
		var stores []string
		for _, uu := range append([]*an.Unit{u}, u.Lits()...) {
			for _, s := range uu.Sites {
				if s.Kind == flow.SStore && s.Local == pv {
					stores = append(stores, uu.Pos(s.Pos))
				}
			}
		}
		r.Check("C13-Q3", fn+": the cursor parameter "+pv.Name()+" is not replaced on its way to the range bounds", "", len(stores) == 0, "reassigned at "+strings.Join(stores, ", ")+": the cursor is an exclusive bound (the last element returned); any other start position skips or repeats elements")
		fd := c.P.Func(fn)
		if fd == nil || fd.Decl.Name.IsExported() {
			return
		}
		short := fd.Decl.Name.Name
		for _, cs := range c.W.AllSites(an.Call(fn), short, []string{"rockredis"}) {
			if idx >= len(cs.S.Call.Args) {
				continue
			}
			a := ast.Unparen(cs.S.Call.Args[idx])
			id, ok := a.(*ast.Ident)
			var po types.Object
			if ok {
				po = cs.U.Info().ObjectOf(id)
			}
			top, err := c.W.Unit(cs.U.Fn.Name)
			if err != nil {
				continue
			}
			pi := paramIndex(top, po)
			if pi < 0 {
				// a fixed start (nil / empty) is a whole-range scan, not a continuation
				if t := cs.U.C.Term(a); t == "nil" {
					continue
				}
				r.Bad("C13-Q3", fmt.Sprintf("%s: the cursor handed to %s is the caller's cursor", top.Name, short), cs.U.Pos(cs.S.Pos), "it is "+cs.U.C.Term(a)+", not a parameter passed through unchanged")
				continue
			}
			passThrough(top.Name, pi, depth+1)
		}
	}
	passThrough("rockredis.buildScanKeyRange", 1, 0)
	passThrough("rockredis.buildSpecificDataScanKeyRange", 3, 0)
	r.Min("C13-Q3", nPass, 6, "functions the cursor is traced through")
	// Q3: the page loops stop only on count or end of range
	for _, fn := range []string{"rockredis.(*RockDB).scanGenericUseBuffer", "rockredis.(*RockDB).hScanGeneric", "rockredis.(*RockDB).sScanGeneric", "rockredis.(*RockDB).zScanGeneric"} {
		u := c.unit("C13-Q3", fn)
		if u == nil {
			continue
		}
		var loop *ast.ForStmt
		u.InspectAll(func(n ast.Node) bool {
			if f, ok := n.(*ast.ForStmt); ok && loop == nil {
				loop = f
			}
			return true
		})
		ok := false
		detail := "no scan loop"
		if loop != nil && loop.Cond != nil {
			cond := u.C.Formula(flow.FromExpr(loop.Cond))
			ok = false
			for _, cnt := range []string{"p2", "count"} {
				want := c.W.Parse("it.Valid() && i < " + cnt)
				if flow.Implies(cond, want).Holds && flow.Implies(want, cond).Holds {
					ok = true
				}
			}
			detail = "loop condition: " + cond.String()
			ast.Inspect(loop.Body, func(n ast.Node) bool {
				switch x := n.(type) {
				case *ast.BranchStmt:
					if x.Tok.String() == "break" {
						ok = false
						detail += "; the loop body breaks out early"
					}
				case *ast.ReturnStmt:
					// failing the whole command is not a short page
					isErr := false
					for _, rs := range u.Sites {
						if rs.Kind == flow.SReturn && rs.Ret == x && an.ErrorReturn(u, rs) {
							isErr = true
						}
					}
					if !isErr {
						ok = false
						detail += "; the loop body returns a page early"
					}
				case *ast.FuncLit:
					return false
				}
				return true
			})
			// the counter advances exactly when an element is appended: i++ only
			for _, st := range u.Sites {
				if st.Kind == flow.SStore && st.Pos >= loop.Body.Pos() && st.Pos < loop.Body.End() {
					if id, isId := st.LHS.(*ast.Ident); isId && id.Name == "i" && st.Tok.String() != "++" {
						ok = false
						detail += "; the element counter is modified other than by i++"
					}
				}
			}
		}
		r.Check("C13-Q3", u.Name+": the page loop runs until COUNT elements or the end of the range, nothing else", "", ok, detail)
	}
	c13TableCut(c, "C13-Q2")
	for _, fn := range []string{"node.(*KVNode).hscanCommand", "node.(*KVNode).sscanCommand", "node.(*KVNode).zscanCommand"} {
		if u := c.unit("C13-Q3", fn); u != nil {
			c13CursorRule(c, u, fn)
		}
	}
}

func isTableVar(u *an.Unit, id *ast.Ident) bool {
	obj := u.Info().ObjectOf(id)
	if obj == nil {
		return false
	}
	for _, s := range u.Sites {
		if s.Kind == flow.SStore && s.Local == obj && s.Tuple != nil && s.TupleIdx == 0 {
			if strings.HasPrefix(u.C.Term(s.Tuple), "common.ExtractTable(") {
				return true
			}
		}
	}
	if v, ok := obj.(*types.Var); ok && strings.Contains(strings.ToLower(v.Name()), "table") {
		return true
	}
	return false
}

// nodeClosure: u and the functions of package node it calls statically, to the given depth.
func nodeClosure(c *Ctx, u *an.Unit, depth int) []*an.Unit {
	out := []*an.Unit{u}
	seen := map[string]bool{u.Name: true}
	frontier := []*an.Unit{u}
	for d := 0; d < depth; d++ {
		var next []*an.Unit
		for _, x := range frontier {
			for _, xx := range append([]*an.Unit{x}, x.Lits()...) {
				for _, s := range xx.Sites {
					if s.Kind != flow.SCall || s.Callee == nil {
						continue
					}
					n := an.CalleeName(s)
					if !strings.HasPrefix(n, "node.") || seen[n] {
						continue
					}
					seen[n] = true
					if cu, err := c.W.Unit(n); err == nil {
						out = append(out, cu)
						next = append(next, cu)
					}
				}
			}
		}
		frontier = next
	}
	return out
}

func paramAt(u *an.Unit, idx int) *types.Var {
	sig, ok := u.Info().ObjectOf(u.Fn.Decl.Name).Type().(*types.Signature)
	if !ok || idx >= sig.Params().Len() {
		return nil
	}
	return sig.Params().At(idx)
}

func paramIndex(u *an.Unit, o types.Object) int {
	if o == nil || u.Fn == nil || u.Fn.Decl == nil {
		return -1
	}
	sig, ok := u.Info().ObjectOf(u.Fn.Decl.Name).Type().(*types.Signature)
	if !ok {
		return -1
	}
	for i := 0; i < sig.Params().Len(); i++ {
		if sig.Params().At(i) == o {
			return i
		}
	}
	return -1
}

// c13CursorRule: the empty cursor ("finished") is sent only for a short page, a table boundary or an
// undecodable key; a full page continues from its last element.
func c13CursorRule(c *Ctx, u0 *an.Unit, fn string) {
	r := c.R
		// Q3 (node side): the empty cursor ("finished") is sent only for a short page, a table boundary or an
	// undecodable key; a full page continues from its last element
	nEmpty, nCont := 0, 0
	for _, s := range u0.Match(an.LocalStore("nextCursor")) {
		if s.RHS == nil {
			continue
		}
		t := u0.C.Term(s.RHS)
		pc := u0.SitePC(s)
		if t == `[]byte("")` {
			nEmpty++
			atoms := map[string]*flow.F{}
			pc.Atoms(atoms)
			alts := []*flow.F{c.W.Parse("len(ay) < count"), c.W.Parse("0 == len(ay)")}
			for k, a := range atoms {
				if strings.HasPrefix(k, "bytes.Equal(") {
					alts = append(alts, flow.Not(a))
				}
				if strings.HasPrefix(k, "err_") && strings.HasSuffix(k, " == nil") {
					alts = append(alts, flow.Not(a))
				}
			}
			res := flow.Implies(pc, flow.Or(alts...))
			if !res.Holds {
				// the decision may be carried by a flag (a helper read in place of its call reports "crossed the table
				// end" as a boolean): the flag is true only where one of its `= true` assignments was reached
				pc2 := u0.FlagRefine(pc, s)
				atoms2 := map[string]*flow.F{}
				pc2.Atoms(atoms2)
				alts2 := append([]*flow.F{}, alts...)
				for k, a := range atoms2 {
					if strings.HasPrefix(k, "bytes.Equal(") || (strings.HasPrefix(k, "err") && strings.HasSuffix(k, " == nil")) {
						alts2 = append(alts2, flow.Not(a))
					}
				}
				if r2 := flow.Implies(pc2, flow.Or(alts2...)); r2.Holds && r2.Undecided == "" {
					pc, res = pc2, r2
				}
			}
			r.Check("C13-Q3", fn+": the 'finished' cursor is sent only for a short page, a table boundary or a bad key", u0.Pos(s.Pos), res.Holds, "pc = "+clipS(pc.String(), 300))
		} else {
			nCont++
			res := flow.Implies(pc, c.W.Parse("!(len(ay) < count)"))
			r.Check("C13-Q3", fn+": a continuation cursor is sent only for a full page", u0.Pos(s.Pos), res.Holds, "pc = "+clipS(pc.String(), 300))
			okv := t == "ay[(len(ay) - 1)]" || t == "ay[(len(ay) - 1)].Key" || t == "ay[(len(ay) - 1)].Member"
			if id, isId := ast.Unparen(s.RHS).(*ast.Ident); isId && !okv {
				// the key part of the last element (ADVSCAN strips the table)
				o := u0.Info().ObjectOf(id)
				for _, d := range u0.Sites {
					if d.Kind == flow.SStore && d.Local == o && d.Tuple != nil && d.TupleIdx == 1 {
						dt := u0.C.Term(d.Tuple)
						okv = dt == "common.ExtractTable(ay[(len(ay) - 1)])"
						t += " = #1 of " + dt
					}
				}
			}
			r.Check("C13-Q3", fn+": the continuation cursor is the last element of the page", u0.Pos(s.Pos), okv, "value "+t)
		}
	}
	r.Min("C13-Q3", nEmpty, 1, fn+": finished-cursor stores")
	r.Min("C13-Q3", nCont, 1, fn+": continuation-cursor stores")
}

// c13TableCut: the node-level scan commands are the only thing that keeps a table scan inside its table (the
// store-level scan runs on to the end of the data type). Used for C13-Q2 and, as the same structural fact seen
// from the isolation side, for C12-K7.
func c13TableCut(c *Ctx, q2 string) {
	r := c.R
	// Q2
	nCut := 0
	for _, fn := range []string{"node.(*KVNode).scanCommand", "node.(*KVNode).advanceScanCommand"} {
		u0 := c.unit(q2, fn)
		if u0 == nil {
			continue
		}
		// the command function and the helpers of package node it calls (two levels)
		units := nodeClosure(c, u0, 2)
		found := 0
		for _, u := range units {
			for _, s := range u.Sites {
				var cut ast.Expr
				switch {
				case s.Kind == flow.SStore && s.RHS != nil:
					cut = s.RHS
				case s.Kind == flow.SReturn && s.Ret != nil && len(s.Ret.Results) >= 1:
					cut = s.Ret.Results[0]
				default:
					continue
				}
				se, ok := ast.Unparen(cut).(*ast.SliceExpr)
				if !ok || se.Low != nil || se.High == nil {
					continue
				}
				if t := u.Info().TypeOf(se.X); t == nil || t.String() != "[][]byte" {
					continue
				}
				found++
				nCut++
				pc := u.BlockEntryPC(s)
				atoms := map[string]*flow.F{}
				pc.Atoms(atoms)
				okEq := false
				// the innermost loop over the page that contains the cut, and its element variable
				var elem types.Object
				u.InspectAll(func(n ast.Node) bool {
					// (by the position of the cut expression: when the cut is a helper's return read in place of the call,
					// the assignment itself sits at the call)
					if rs, ok := n.(*ast.RangeStmt); ok && rs.Pos() <= cut.Pos() && cut.Pos() < rs.End() {
						if id, ok := rs.Value.(*ast.Ident); ok {
							elem = u.Info().ObjectOf(id)
						}
					}
					return true
				})
				var errAlts []*flow.F
				for k, a := range atoms {
					if strings.HasPrefix(k, "err") && strings.HasSuffix(k, " == nil") {
						errAlts = append(errAlts, flow.Not(a))
					}
				}
				for _, eq := range u.Match(an.Call("bytes.Equal")) {
					a, inPC := atoms[u.C.Term(eq.Call)]
					if !inPC || len(eq.Call.Args) != 2 {
						continue
					}
					// one operand is the table of the element under the loop variable
					fromElem := false
					for _, arg := range eq.Call.Args {
						id, ok := ast.Unparen(arg).(*ast.Ident)
						if !ok {
							continue
						}
						o := u.Info().ObjectOf(id)
						for _, d := range u.Sites {
							if d.Kind == flow.SStore && d.Local == o && d.Tuple != nil && d.TupleIdx == 0 {
								if ce, ok := ast.Unparen(d.Tuple).(*ast.CallExpr); ok && len(ce.Args) == 1 && strings.HasPrefix(u.C.Term(d.Tuple), "common.ExtractTable(") {
									// (by term: a helper read in place of its call names the element by its parameter)
									if elem != nil && u.C.Term(ce.Args[0]) == u.C.TermOfObj(elem) {
										fromElem = true
									}
								}
							}
						}
					}
					if !fromElem {
						continue
					}
					if flow.Implies(pc, flow.Or(append([]*flow.F{flow.Not(a)}, errAlts...)...)).Holds {
						okEq = true
					}
				}
				for k := range atoms {
					// a predicate helper of package node deciding by bytes.Equal on an extracted table
					if i := strings.Index(k, "("); i > 0 && strings.HasPrefix(k, "node.") {
						if hu, err := c.W.Unit(k[:i]); err == nil {
							if len(hu.Match(an.Call("bytes.Equal"))) > 0 && len(hu.Match(an.Call("common.ExtractTable"))) > 0 {
								okEq = true
							}
						}
					}
				}
				r.Check(q2, fn+": the page is cut at the first element whose extracted table differs (bytes.Equal) from the cursor's", u.Pos(s.Pos), okEq, "pc = "+clipS(pc.String(), 300))
			}
		}
		if found == 0 {
			r.Bad(q2, fn+": the page is cut at the table boundary", "", "no truncation of the result page in this command or its helpers: the store-level scan does not stop at the table end")
		}
		if q2 == "C13-Q2" {
			c13CursorRule(c, u0, fn)
		}
		// the reference table is extracted from the cursor
		td := u0.Match(an.LocalStore("table"))
		r.Check(q2, fn+": the reference table is extracted from the cursor", "", len(td) >= 1 && td[0].Tuple != nil && u0.C.Term(td[0].Tuple) == "common.ExtractTable(cursor)", "")
	}
	r.Min(q2, nCut, 2, "page truncation sites in the node scan commands")
	// no prefix comparison on table names anywhere in node/scan.go's functions
	for _, fn := range c.P.Funcs() {
		if !strings.HasPrefix(fn.Name, "node.") || !strings.HasSuffix(c.P.Fset.Position(fn.Decl.Pos()).Filename, "node/scan.go") || fn.Decl.Body == nil {
			continue
		}
		u, err := c.W.Unit(fn.Name)
		if err != nil {
			continue
		}
		for _, s := range u.Match(an.Call("bytes.HasPrefix", "strings.HasPrefix")) {
			// an argument that is a table name (a variable bound from ExtractTable, or a []byte parameter named like it)
			bad := false
			for _, a := range s.Call.Args {
				if id, ok := ast.Unparen(a).(*ast.Ident); ok {
					if isTableVar(u, id) {
						bad = true
					}
				}
			}
			if bad {
				r.Bad(q2, fn.Name+": decides table membership with a prefix comparison", u.Pos(s.Pos), "tables whose names are prefixes of each other (user, user2) are mixed up; compare the extracted table names for equality")
			}
		}
	}
	if u := c.unit(q2, "common.ExtractTable"); u != nil {
		ib := u.Match(an.Call("bytes.IndexByte"))
		r.Check(q2, "common.ExtractTable: the table is what precedes the first separator", "", len(ib) == 1 && u.ArgTerm(ib[0], 0) == "p0", "")
	}
}

// Q4: the command a partition handler receives is the client's command with the cursor of that partition and the
// divided COUNT, nothing else: the handlers derive the scan direction from the command name (Args[0]). Every store
// into an argument slot of a per-partition command in the merge scan writes slot 1 (the cursor) or a slot whose index
// is known to be positive.
func c13Q4(c *Ctx) {
	r := c.R
	r.Clause("C13-Q4", "the merge scan never overwrites the command name of a per-partition command")
	n := 0
	for _, fn := range []string{"server.(*Server).doScanCommon", "server.(*Server).doScanNodesFilter"} {
		u := c.unit("C13-Q4", fn)
		if u == nil {
			continue
		}
		for _, s := range u.Sites {
			if s.Kind != flow.SStore {
				continue
			}
			ix, ok := ast.Unparen(s.LHS).(*ast.IndexExpr)
			if !ok || !strings.HasSuffix(u.C.Term(ix.X), ".Args") {
				continue
			}
			n++
			idx := u.C.Term(ix.Index)
			construct := fmt.Sprintf("%s: store to %s[%s] leaves the command name alone", u.Name, u.C.Term(ix.X), idx)
			if v := u.C.ConstOf(ix.Index); v != "" {
				r.Check("C13-Q4", construct, u.Pos(s.Pos), v != "0", "constant slot "+v)
				continue
			}
			pc := u.SitePC(s)
			res := flow.Implies(pc, c.W.Parse("0 < "+idx))
			r.Check("C13-Q4", construct, u.Pos(s.Pos), res.Holds && res.Undecided == "",
				"slot "+idx+" is 0 (the command name, from which the partition handlers take the scan direction) when the client gave no COUNT; pc = "+pc.String())
		}
	}
	r.Min("C13-Q4", n, 2, "stores into argument slots of per-partition scan commands")
}

func init() {
	old := registry["C13"].Run
	registry["C13"].Run = func(c *Ctx) { old(c); c13Q4(c) }
}

// Q5: the store cuts every scan page at its own limit (rockredis.checkScanCount). The handlers decide "last page" by
// comparing the page length with the count, so the count they use must have been cut at the same limit: parseScanArgs
// stores that very constant into the count under "count above it", on the way to its normal return.
func c13Q5(c *Ctx) {
	r := c.R
	r.Clause("C13-Q5", "the count a page is measured against is cut at the store's page limit")
	r.Clause("C13-Q6", "the store scans from the client's cursor unmodified; the far end of a forward range is the successor of the prefix")
	limit := ""
	if u := c.unit("C13-Q5", "rockredis.checkScanCount"); u != nil {
		for _, s := range u.Match(an.LocalStore("count")) {
			if s.RHS == nil {
				continue
			}
			v := u.C.Term(s.RHS)
			if res := flow.Implies(u.SitePC(s), c.W.Parse(v+" < p0")); res.Holds && res.Undecided == "" {
				limit = v
			}
		}
		r.Check("C13-Q5", u.Name+": cuts the page size at a constant limit", "", limit != "", "limit "+limit)
	}
	if u := c.unit("C13-Q5", "node.parseScanArgs"); u != nil && limit != "" {
		ok := false
		var at string
		for _, s := range u.Sites {
			if s.Kind != flow.SStore || s.RHS == nil || u.C.Term(s.LHS) != "r2" {
				continue
			}
			if u.C.Term(s.RHS) == limit {
				if res := flow.Implies(u.SitePC(s), c.W.Parse(limit+" < r2")); res.Holds && res.Undecided == "" {
					ok, at = true, u.Pos(s.Pos)
				}
			}
		}
		r.Check("C13-Q5", u.Name+": the parsed count is cut at the limit the store applies ("+limit+")", at, ok,
			"without it a page that is full by the store's measure looks short to the handler when COUNT is above the limit: the empty cursor is returned and the rest is never listed")
		// every handler measures its page against that count
		n := 0
		for _, fn := range []string{"node.(*KVNode).scanCommand", "node.(*KVNode).advanceScanCommand", "node.(*KVNode).hscanCommand", "node.(*KVNode).sscanCommand", "node.(*KVNode).zscanCommand"} {
			hu := c.unit("C13-Q5", fn)
			if hu == nil {
				continue
			}
			tv := tupleVars(hu, "node.parseScanArgs")
			okH := len(tv) == 4 && tv[2] != ""
			if okH {
				// no other assignment to the count
				okH = len(hu.Match(an.LocalStore(tv[2]))) == 1
			}
			n++
			r.Check("C13-Q5", fn+": the count compared with the page is the one parseScanArgs returned", "", okH, fmt.Sprint(tv))
			// Q6: the store scans from the client's cursor, whatever its bytes: the cursor is the last element of the
			// previous page, so any name ("0" included) can be one
			okC := len(tv) == 4 && tv[0] != "" && len(hu.Match(an.LocalStore(tv[0]))) == 1
			nScan := 0
			for _, sc := range hu.Match(an.Call("rockredis.(*RockDB).Scan", "rockredis.(*RockDB).HScan", "rockredis.(*RockDB).SScan", "rockredis.(*RockDB).ZScan")) {
				nScan++
				if len(tv) == 4 && hu.ArgTerm(sc, 1) != tv[0] {
					okC = false
				}
			}
			r.Check("C13-Q6", fn+": the store scans from the cursor the client sent, unmodified", "", okC && nScan >= 1,
				"a cursor is the name of the last element of the previous page: rewriting particular values (\"0\") restarts or cuts the iteration when an element has that name")
		}
		r.Min("C13-Q5", n, 5, "scan handlers")
	}
}

func init() {
	old := registry["C13"].Run
	registry["C13"].Run = func(c *Ctx) { old(c); c13Q5(c) }
}


// Q6 (far end): a forward scan ends at the successor of the collection's (or type's) key prefix: the prefix with its
// last byte incremented, which is greater than every key that extends the prefix. Appending a byte instead (0xff) leaves
// out the elements whose name begins with that byte or a greater string.
func c13Q6(c *Ctx) {
	r := c.R
	for _, fn := range []string{"rockredis.encodeScanMaxKey", "rockredis.encodeSpecificDataScanMaxKey"} {
		u := c.unit("C13-Q6", fn)
		if u == nil {
			continue
		}
		inc := an.StoreTerm("*").Where("last byte incremented", func(u *an.Unit, s *an.Site) bool {
			if s.Kind != flow.SStore || s.Tok.String() != "++" {
				return false
			}
			ix, ok := ast.Unparen(s.LHS).(*ast.IndexExpr)
			return ok && u.C.Term(ix.Index) == "(len("+u.C.Term(ix.X)+") - 1)"
		})
		// every successful return that does not simply encode a given cursor passes the increment
		for _, s := range u.Sites {
			if s.Kind != flow.SReturn || !s.Block.Reachable() || !an.LastResultNil(u, s) || len(s.Ret.Results) != 2 {
				continue
			}
			if _, isCall := ast.Unparen(s.Ret.Results[0]).(*ast.CallExpr); isCall && strings.Contains(u.C.Term(s.Ret.Results[0]), "encode") {
				continue // `return encodeScanKey(..)`: a cursor was given, the key itself is the bound
			}
			r.OrderSites("C13-Q6", u, []*an.Site{s}, func(*flow.Site) string { return "successful return of a computed far end" }, []an.M{inc}, an.OrderOpts{})
		}
	}
}

func init() {
	old := registry["C13"].Run
	registry["C13"].Run = func(c *Ctx) { old(c); c13Q6(c) }
}
