package props

import (
	"fmt"
	"go/ast"
	"go/types"
	"sort"
	"strings"

	"verif/internal/an"
	"verif/internal/flow"
)

func init() {
	register(&Property{
		ID:        "C04",
		Technique: "static analysis: ORDER rules on register-before-propose, argument provenance of request ids and reply values at every Trigger site of package node, static type of the reply value outside the apply path, who-may-write agreement of the two batch reply lists, return classification of the client-side waiter",
		Explanation: "Decides one structural ingredient of C04 that no other property covers — the reply plumbing: a success a client sees is the state machine's result for its own request, produced on apply. (W1) the waiter is registered under the request's id before the entry is proposed, and the proposed entry carries that id; every redis write header takes a fresh id from the node's generator; (W2) in ApplyRaftRequest every reply goes to the id of the request being applied (its header id, or the list id when that is 0), and a result value is handed out only on the success path of this very request's handler call; (W3) a batched request's id and result are appended together, reset together, and CommitBatch pairs element i of one list with element i of the other, sending results only when the batch commit returned no error; (W4) outside the functions reached from the apply loop, Trigger is only ever called with a value of static type error (a non-error reply can only originate on the apply path); (W5) the client-side waiter returns a result only when it came from the registered wait (never on timeout or cancellation) and turns an error result into an error. W1 also: the proposed entry owns its bytes (copied out of the pooled marshal buffer), a recycled waiter starts with an empty completion channel, and a pooled request header is emptied before it goes back to the pool. (W6) raft acknowledgements leave a replica only after persistence: the C03-P1 obligations.",
		NotDecided: "linearizability itself: the single point between request and reply, the agreement of replicas on one order (C02, C07), survival of acknowledged writes across kills and leader transfer (C03, C06), at-most-once effect of writes that got an error or no reply (a timed-out proposal may still commit: by design the client is told an error), duplicate proposals by client retries.",
		Assumptions: []string{"path conditions as in C01", "pkg/wait delivers a triggered value to the waiter registered under that id"},
		Run:         runC04,
	})
}

func runC04(c *Ctx) {
	r := c.R
	r.Clause("C04-W1", "the waiter is registered under the request id before the entry is proposed; ids are fresh")
	r.Clause("C04-W2", "on apply every reply goes to the id of the request being applied, results only from its own handler call")
	r.Clause("C04-W3", "batched ids and results are kept in lockstep and paired by position; results only after a successful batch commit")
	r.Clause("C04-W4", "outside the apply path a reply value is always an error")
	r.Clause("C04-W5", "the client-side waiter returns a result only from the registered wait")

	// ---- W1
	if u := c.unit("C04-W1", "node.(*KVNode).ProposeInternal"); u != nil {
		prop := an.Call("raft.Node.ProposeEntryWithDrop")
		reg := an.Call("pkg/wait.Wait.RegisterWithC")
		r.Order("C04-W1", u, prop, []an.M{reg}, an.OrderOpts{Min: 1})
		r.ArgValues("C04-W1", u, reg, 0, []string{"p1.Header.ID"}, 1)
		r.ArgValues("C04-W1", u, prop, 1, []string{"e"}, 1)
		// the entry carries the id: directly (v2) or inside the marshalled request list (v1)
		r.StoreValues("C04-W1", u, an.StoreTerm("e.ID"), []string{"p1.Header.ID"}, 1)
		okList := false
		for _, s := range u.Sites {
			if s.Kind == flow.SStore && s.RHS != nil && u.C.Term(s.LHS) == "wrh.reqs.Reqs" && u.C.Term(s.RHS) == "append(wrh.reqs.Reqs, p1)" {
				okList = true
			}
		}
		r.Check("C04-W1", u.Name+": the v1 request list that is marshalled into the entry contains this request", "", okList, "")
		// the proposed entry owns its bytes: the marshalled request is copied out of the pooled buffer (raft keeps the
		// entry in its log long after the buffer was handed to the next request)
		for _, st := range u.Match(an.StoreTerm("e.Data")) {
			t := defTermOf(u, st)
			ok := t == "p1.Data" || strings.HasPrefix(t, "make([]byte, ")
			r.Check("C04-W1", u.Name+": the entry's data is the request's own bytes or a fresh copy, never the pooled buffer", u.Pos(st.Pos), ok, "e.Data = "+t)
		}
		r.Require("C04-W1", u, an.Call("builtin.copy"), "the marshalled bytes must be copied out of the pooled buffer")
		// a recycled waiter object starts with an empty completion channel: a late Trigger for the previous user of the
		// object (after its timeout) may have left a signal in it
		r.Order("C04-W1", u, reg, []an.M{an.Edge("0 == len(wrh.done)"), an.StoreTerm("wrh.done")}, an.OrderOpts{Min: 1})
		r.StoreValues("C04-W1", u, an.StoreTerm("wrh.done"), []string{"make(chan struct{}, 1)"}, 1)
		r.ArgValues("C04-W1", u, reg, 1, []string{"wrh.done"}, 1)
		// a failed proposal is answered with the error under the same id
		r.ArgValues("C04-W1", u, an.Call("pkg/wait.Wait.Trigger"), 0, []string{"p1.Header.ID"}, 1)
	}
	if u := c.unit("C04-W1", "node.(*KVNode).ProposeRawAsyncFromSyncer"); u != nil {
		r.Order("C04-W1", u, an.Call("raft.Node.ProposeWithDrop"), []an.M{an.Call("pkg/wait.Wait.Register")}, an.OrderOpts{Min: 1})
		r.ArgValues("C04-W1", u, an.Call("pkg/wait.Wait.Register"), 0, []string{"p1.ReqId"}, 1)
	}
	lits, err := c.W.PkgLits("node", "node.RequestHeader")
	if err != nil {
		r.Unknown("C04-W1", "RequestHeader literals", "", err.Error())
	} else {
		n := 0
		for _, l := range lits {
			t, ok := l.Fields["ID"]
			if !ok {
				continue
			}
			n++
			ok2 := t == "recv.rn.reqIDGen.Next()" || t == "0"
			r.Check("C04-W1", l.Func+": a request header gets a fresh id from the node's generator (0 = the list id is used)", c.P.Pos(l.Pos), ok2, "ID: "+t)
		}
		r.Min("C04-W1", n, 5, "RequestHeader literals with an ID")
	}

	// a pooled request header goes back to the pool empty: a request left in it would be proposed (and applied) again with
	// the next write that picks the header up
	if u := c.unit("C04-W1", "node.(*waitReqHeaders).release"); u != nil {
		put := an.AnyCall().Where("pool.Put", func(u *an.Unit, s *an.Site) bool { return strings.HasSuffix(an.CalleeName(s), "sync.(*Pool).Put") })
		reset := an.StoreTerm("recv.reqs.Reqs").Where("[:0]", func(u *an.Unit, s *an.Site) bool { return s.RHS != nil && u.C.Term(s.RHS) == "recv.reqs.Reqs[:0]" })
		r.Order("C04-W1", u, put, []an.M{reset}, an.OrderOpts{Min: 1})
		r.Order("C04-W1", u, put, []an.M{an.StoreTerm("recv.wr")}, an.OrderOpts{Min: 1})
	}
	// acknowledgements leave a replica only after what they acknowledge is durable: the C03-P1/P2 obligations, reported
	// here as W6 because an early MsgAppResp is exactly an acknowledged write that a kill can lose
	r.Clause("C04-W6", "raft acknowledgements leave only after persistence (same obligations as C03-P1)")
	{
		sub := an.NewReport("C04")
		runC03(&Ctx{P: c.P, W: c.W, R: sub, Tier: c.Tier})
		n := 0
		for _, ob := range sub.Obligations {
			if ob.Rule != "C03-P1" {
				continue
			}
			n++
			switch ob.Status {
			case "ok":
				r.Ok("C04-W6", ob.Construct, ob.Pos, ob.Detail)
			case "VIOLATION":
				r.Bad("C04-W6", ob.Construct, ob.Pos, ob.Detail)
			default:
				r.Unknown("C04-W6", ob.Construct, ob.Pos, ob.Detail)
			}
		}
		r.Min("C04-W6", n, 2, "C03-P1 obligations")
	}

	// ---- W2
	if u := c.unit("C04-W2", "node.(*kvStoreSM).ApplyRaftRequest"); u != nil {
		// reqID is the id of the request of this iteration
		for _, s := range u.Match(an.LocalStore("reqID")) {
			t := defTermOf(u, s)
			switch t {
			case "req.Header.ID":
				r.Ok("C04-W2", u.Name+": reqID is the header id of the request being applied", u.Pos(s.Pos), "")
			case "p2.ReqId":
				r.GuardSite("C04-W2", u, s, c.W.Parse("0 == reqID"), "the list id stands in only when the request has no id of its own")
			default:
				r.Bad("C04-W2", u.Name+": reqID is the header id of the request being applied", u.Pos(s.Pos), "reqID = "+t)
			}
		}
		trig := u.Match(an.Call("pkg/wait.Wait.Trigger"))
		r.Min("C04-W2", len(trig), 8, u.Name+": Trigger calls")
		// the handler call of this iteration
		var hcall *flow.Site
		for _, s := range u.Sites {
			if s.Kind == flow.SCall && s.Callee == nil && s.Builtin == "" && s.Call != nil && u.C.Term(s.Call.Fun) == "h" {
				hcall = s
			}
		}
		if hcall == nil {
			r.Unknown("C04-W2", u.Name+": the handler call", "", "not found")
		}
		hM := an.DynCall("h")
		for _, s := range trig {
			id := u.ArgTerm(s, 0)
			okID := id == "reqID" || id == "req.Header.ID" || id == "req_2.Header.ID"
			if id == "p2.ReqId" {
				// the list's own id is answered once, outside the per-request loops
				okID = true
				u.InspectAll(func(n ast.Node) bool {
					if rs, ok := n.(*ast.RangeStmt); ok && u.C.Term(rs.X) == "p2.Reqs" && rs.Body.Pos() <= s.Pos && s.Pos < rs.Body.End() {
						okID = false
					}
					return true
				})
			}
			r.Check("C04-W2", u.Name+": the reply goes to the id of the request being applied", u.Pos(s.Pos), okID, "Trigger("+id+", …)")
			val := s.Call.Args[1]
			vt := u.Info().TypeOf(val)
			isErr := vt != nil && types.Identical(vt, types.Universe.Lookup("error").Type())
			if isErr || u.C.Term(val) == "nil" {
				continue
			}
			// a result value: the handler's first result, on the success path of that call
			okV := false
			if vid, ok := ast.Unparen(val).(*ast.Ident); ok && hcall != nil {
				o := u.Info().ObjectOf(vid)
				for _, d := range u.Sites {
					if d.Kind == flow.SStore && d.Local == o && d.Tuple == hcall.Call && d.TupleIdx == 0 {
						okV = true
					}
				}
			}
			r.Check("C04-W2", u.Name+": a result value handed to the client is the first result of this request's handler call", u.Pos(s.Pos), okV, "value "+u.C.Term(val))
			if hcall != nil {
				if ok, msg := u.ErrTested(hcall); !ok {
					r.Bad("C04-W2", u.Name+": the handler's error is tested", u.Pos(hcall.Pos), msg)
				} else {
					r.OrderSites("C04-W2", u, []*flow.Site{s}, nil, []an.M{hM.Ok(an.NilErr)}, an.OrderOpts{})
				}
			}
		}
		for _, s := range u.Match(an.Call("node.IBatchOperator.AddBatchRsp")) {
			r.Check("C04-W2", u.Name+": a batched result is recorded under the id of the request being applied", u.Pos(s.Pos), u.ArgTerm(s, 0) == "reqID", "AddBatchRsp("+u.ArgTerm(s, 0)+", …)")
			if hcall != nil {
				r.OrderSites("C04-W2", u, []*flow.Site{s}, nil, []an.M{hM.Ok(an.NilErr)}, an.OrderOpts{})
			}
		}
	}

	// ---- W3
	if u := c.unit("C04-W3", "node.(*kvbatchOperator).AddBatchRsp"); u != nil {
		r.StoreValues("C04-W3", u, an.StorePlain("node.kvbatchOperator.batchReqIDList"), []string{"append(recv.batchReqIDList, p0)"}, 1)
		r.StoreValues("C04-W3", u, an.StorePlain("node.kvbatchOperator.batchReqRspList"), []string{"append(recv.batchReqRspList, p1)"}, 1)
		for _, f := range []string{"node.kvbatchOperator.batchReqIDList", "node.kvbatchOperator.batchReqRspList"} {
			r.Order("C04-W3", u, an.Return(), []an.M{an.StorePlain(f)}, an.OrderOpts{Min: 1})
		}
	}
	writers := map[string]map[string]bool{}
	for _, f := range []string{"node.kvbatchOperator.batchReqIDList", "node.kvbatchOperator.batchReqRspList"} {
		for _, sw := range c.W.AllSites(an.Store(f), f[strings.LastIndex(f, ".")+1:], []string{"node"}) {
			if writers[sw.U.Name] == nil {
				writers[sw.U.Name] = map[string]bool{}
			}
			writers[sw.U.Name][f] = true
		}
	}
	var wn []string
	for n := range writers {
		wn = append(wn, n)
	}
	sort.Strings(wn)
	for _, n := range wn {
		r.Check("C04-W3", n+": writes both batch reply lists or neither (they are paired by position)", "", len(writers[n]) == 2, fmt.Sprint(writers[n]))
	}
	r.Min("C04-W3", len(wn), 3, "functions writing the batch reply lists")
	if u := c.unit("C04-W3", "node.(*kvbatchOperator).CommitBatch"); u != nil {
		okPair := false
		for _, s := range u.Match(an.M{}.Range()) {
			if u.C.Term(s.Rng.X) == "recv.batchReqIDList" && localName(u, s.Rng.Key) == "idx" && localName(u, s.Rng.Value) == "rid" {
				okPair = true
			}
		}
		r.Check("C04-W3", u.Name+": replies are sent by walking the id list with its index", "", okPair, "")
		for _, s := range u.Match(an.Call("pkg/wait.Wait.Trigger")) {
			r.Check("C04-W3", u.Name+": the reply goes to the id at this position", u.Pos(s.Pos), u.ArgTerm(s, 0) == "rid", "")
			v := u.ArgTerm(s, 1)
			switch v {
			case "recv.batchReqRspList[idx]":
				r.GuardSite("C04-W3", u, s, c.W.Parse("err == nil"), "the batch commit returned no error")
			case "err":
				r.Ok("C04-W3", u.Name+": a failed batch commit answers every batched request with the error", u.Pos(s.Pos), "")
			default:
				r.Bad("C04-W3", u.Name+": the value sent is the result at the same position, or the commit error", u.Pos(s.Pos), "value "+v)
			}
		}
		r.StoreValues("C04-W3", u, an.LocalStore("err"), []string{"recv.kvsm.store.CommitBatchWrite()"}, 1)
	}

	// ---- W4
	apply := c.unit("C04-W4", "node.(*KVNode).applyEntries")
	if apply != nil {
		cf := &an.ClockFlow{W: c.W}
		cf.Run([]*an.Unit{apply})
		onApply := map[string]bool{}
		for _, n := range cf.ReachedNames() {
			onApply[n] = true
		}
		r.Note("C04-W4: %d functions reached from applyEntries", len(onApply))
		n, off := 0, 0
		for _, cs := range c.W.AllSites(an.Call("pkg/wait.Wait.Trigger"), "Trigger", []string{"node"}) {
			if strings.HasSuffix(c.P.Fset.Position(cs.S.Pos).Filename, "_test.go") || len(cs.S.Call.Args) != 2 {
				continue
			}
			// the generic-purpose wait (index waits) is a different type
			n++
			top := cs.U.Fn.Name
			if onApply[top] {
				continue
			}
			off++
			vt := cs.U.Info().TypeOf(cs.S.Call.Args[1])
			isErr := vt != nil && types.Identical(vt, types.Universe.Lookup("error").Type())
			r.Check("C04-W4", top+": off the apply path a reply is an error, never a result", cs.U.Pos(cs.S.Pos), isErr, "value "+cs.U.C.Term(cs.S.Call.Args[1])+" of type "+fmt.Sprint(vt))
		}
		r.Min("C04-W4", n, 20, "Trigger calls in package node")
		r.Min("C04-W4", off, 3, "Trigger calls off the apply path")
	}

	// ---- W5
	if u := c.lit("C04-W5", "node.(*KVNode).queueRequest", an.Call("pkg/wait.WaitResult.GetResult")); u != nil {
		// rsp is either the registered wait's result or the context error
		for _, s := range u.Match(an.LocalStore("rsp")) {
			if s.RHS == nil {
				continue
			}
			t := u.C.Term(s.RHS)
			switch t {
			case "wrh.wr.GetResult()":
				r.OrderSites("C04-W5", u, []*flow.Site{s}, nil, []an.M{an.Recv("wrh.wr.WaitC()")}, an.OrderOpts{})
			case "err", "nil":
				r.Ok("C04-W5", u.Name+": on timeout/cancellation the reply is the error", u.Pos(s.Pos), "")
			default:
				r.Bad("C04-W5", u.Name+": the reply is the registered wait's result or the context error", u.Pos(s.Pos), "rsp = "+t)
			}
		}
		// a non-nil result is returned only with err == nil and when the result is not itself an error
		for _, s := range u.Match(an.Return()) {
			if len(s.Ret.Results) == 2 && u.C.Term(s.Ret.Results[0]) != "nil" {
				// control dependence: the return lies behind the test of the wait's outcome (err is reused further down)
				r.OrderSites("C04-W5", u, []*flow.Site{s}, nil, []an.M{an.Edge("err == nil")}, an.OrderOpts{})
			}
		}
		r.Require("C04-W5", u, an.Recv("ctx.Done()"), "the waiter also gives up on the proposal's context")
	}
}
