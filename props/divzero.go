package props

import (
	"fmt"
	"go/ast"
	"go/token"
	"strings"

	"verif/internal/an"
	"verif/internal/flow"
	"verif/internal/load"
)

// divisorSites lists the divisions and remainders whose divisor prints as len(X) (directly or through a call-free local),
// with the condition under which each is evaluated.
func divisorSites(u *an.Unit) []lastElem {
	var out []lastElem
	for _, b := range u.G.Blocks {
		if !b.Reachable() {
			continue
		}
		for i, n := range b.Nodes {
			var walk func(n ast.Node, ctx *flow.F)
			walk = func(n ast.Node, ctx *flow.F) {
				if n == nil {
					return
				}
				switch x := n.(type) {
				case *ast.FuncLit:
					return
				case *flow.RangeHead:
					walk(x.Stmt.X, ctx)
					return
				case *ast.BinaryExpr:
					if x.Op == token.LAND {
						walk(x.X, ctx)
						walk(x.Y, flow.And(ctx, flow.FromExpr(x.X)))
						return
					}
					if x.Op == token.LOR {
						walk(x.X, ctx)
						walk(x.Y, flow.And(ctx, flow.Not(flow.FromExpr(x.X))))
						return
					}
					if x.Op == token.QUO || x.Op == token.REM {
						d := u.C.Term(x.Y)
						if strings.HasPrefix(d, "len(") && strings.HasSuffix(d, ")") && strings.Count(d, "(") == strings.Count(d, ")") {
							out = append(out, lastElem{U: u, Site: &flow.Site{Kind: flow.SUse, Block: b, NodeIdx: i, Pos: x.OpPos, Ctx: ctx}, X: d[4 : len(d)-1], K: x.Op.String()})
						}
					}
				case *ast.AssignStmt:
					if (x.Tok == token.QUO_ASSIGN || x.Tok == token.REM_ASSIGN) && len(x.Rhs) == 1 {
						d := u.C.Term(x.Rhs[0])
						if strings.HasPrefix(d, "len(") && strings.HasSuffix(d, ")") {
							out = append(out, lastElem{U: u, Site: &flow.Site{Kind: flow.SUse, Block: b, NodeIdx: i, Pos: x.TokPos, Ctx: ctx}, X: d[4 : len(d)-1], K: x.Tok.String()})
						}
					}
				}
				ast.Inspect(n, func(c ast.Node) bool {
					if c == n || c == nil {
						return true
					}
					walk(c, ctx)
					return false
				})
			}
			walk(n, flow.True())
		}
	}
	return out
}

// divisorNonZero: every division or remainder by len(X) in the named packages is evaluated only where 0 < len(X)
// follows from the path condition.
func divisorNonZero(c *Ctx, rule string, pkgs []string) int {
	r := c.R
	n := 0
	for _, fn := range c.P.Funcs() {
		file := c.P.Fset.Position(fn.Decl.Pos()).Filename
		if fn.Decl.Body == nil || !containsStr(pkgs, load.ShortPkg(fn.Pkg.PkgPath)) || strings.HasSuffix(file, "_test.go") || strings.HasSuffix(file, ".pb.go") {
			continue
		}
		u, err := c.W.Unit(fn.Name)
		if err != nil {
			continue
		}
		for _, uu := range append([]*an.Unit{u}, u.Lits()...) {
			for _, le := range divisorSites(uu) {
				n++
				pc := uu.SitePC(le.Site)
				res := flow.Implies(pc, c.W.Parse("0 < len("+le.X+")"))
				if !res.Holds && res.Undecided == "" {
					// a bound against a constant: !(len(X) < c), c >= 1; c < len(X), c >= 0
					var cv int
					atoms := map[string]*flow.F{}
					pc.Atoms(atoms)
					for _, a := range atoms {
						if a.Cmp == nil || a.Cmp.Op != "<" {
							continue
						}
						if a.Cmp.L == "len("+le.X+")" && a.Cmp.RConst != "" {
							if _, err := fmt.Sscan(a.Cmp.RConst, &cv); err == nil && cv >= 1 && flow.Implies(pc, flow.Not(a)).Holds {
								res.Holds = true
							}
						}
						if a.Cmp.R == "len("+le.X+")" && a.Cmp.LConst != "" {
							if _, err := fmt.Sscan(a.Cmp.LConst, &cv); err == nil && cv >= 0 && flow.Implies(pc, a).Holds {
								res.Holds = true
							}
						}
					}
				}
				construct := fmt.Sprintf("%s: %s len(%s) is evaluated only when the collection is not empty", uu.Name, le.K, le.X)
				switch {
				case res.Undecided != "":
					r.Unknown(rule, construct, uu.Pos(le.Site.Pos), res.Undecided)
				case res.Holds:
					r.Ok(rule, construct, uu.Pos(le.Site.Pos), "")
				default:
					r.Bad(rule, construct, uu.Pos(le.Site.Pos), "pc = "+pc.String())
				}
			}
		}
	}
	return n
}
