package props

import (
	"fmt"
	"go/ast"
	"go/parser"
	"go/token"
	"os"
	"os/exec"
	"path/filepath"
	"strings"

	"verif/internal/an"
	"verif/internal/flow"
)

func init() {
	register(&Property{
		ID:        "C15",
		Technique: "static analysis: expression identity between the server's and the client SDK's partition function (normalised pure expressions over the same library function), argument provenance on the routing path, same-iteration provenance in the per-partition regrouping loop",
		Explanation: "Decides: (H1) node.GetHashedPartitionID (with HashedKey inlined) and github.com/youzan/go-zanredisdb.GetHashedPartitionID (the version the repository's go.mod selects, read from the module cache) normalise to the identical expression int(murmur3.Sum32(p0)) % p1 over the same import path — identity of pure expressions over one library function is agreement for all keys and partition counts; (H2) the node that executes a command is looked up with the hash of the command's own primary key: the partition id is pkSum % PartitionNum, pkSum is HashedKey(pk) at every caller, pk is extracted from cmd.Args[1], the node name is GetNsDesp(ns, pid); (H3) in the per-partition regrouping of multi-key commands handler and arguments are stored under the key of the node the key was looked up with, in the same loop iteration, and PLSET values travel with their key index.",
		NotDecided: "merged replies 'as if run on one store' (ordering of per-partition results), namespace prefix parsing edge cases, negative hash values on 32-bit platforms (both sides alike).",
		Assumptions: []string{"one build list selects one murmur3 version for server and SDK"},
		Run: runC15,
	})
}

func sdkDir(repo string) (string, error) {
	cmd := exec.Command("go", "list", "-modfile=/verif/.work/base.mod", "-m", "-f", "{{.Dir}}", "github.com/youzan/go-zanredisdb")
	cmd.Dir = repo
	cmd.Env = append(os.Environ(), "GOFLAGS=-mod=mod", "GOPROXY=off", "GOSUMDB=off", "GOTOOLCHAIN=local", "GOWORK=off")
	out, err := cmd.Output()
	if err != nil {
		return "", fmt.Errorf("go list -m github.com/youzan/go-zanredisdb: %v", err)
	}
	return strings.TrimSpace(string(out)), nil
}

// sdkExpr parses the SDK's GetHashedPartitionID and prints its returned expression with parameters
// renamed positionally and the package alias replaced by the imported package's last path element.
func sdkExpr(dir string) (expr string, murmurPath string, err error) {
	files, _ := filepath.Glob(filepath.Join(dir, "*.go"))
	fset := token.NewFileSet()
	for _, fn := range files {
		if strings.HasSuffix(fn, "_test.go") {
			continue
		}
		f, perr := parser.ParseFile(fset, fn, nil, 0)
		if perr != nil {
			continue
		}
		for _, d := range f.Decls {
			fd, ok := d.(*ast.FuncDecl)
			if !ok || fd.Name.Name != "GetHashedPartitionID" || fd.Recv != nil || fd.Body == nil {
				continue
			}
			if len(fd.Body.List) != 1 {
				return "", "", fmt.Errorf("SDK GetHashedPartitionID is not a single return statement")
			}
			ret, ok := fd.Body.List[0].(*ast.ReturnStmt)
			if !ok || len(ret.Results) != 1 {
				return "", "", fmt.Errorf("SDK GetHashedPartitionID is not a single return statement")
			}
			ren := map[string]string{}
			i := 0
			for _, p := range fd.Type.Params.List {
				for _, n := range p.Names {
					ren[n.Name] = fmt.Sprintf("p%d", i)
					i++
				}
			}
			for _, im := range f.Imports {
				path := strings.Trim(im.Path.Value, `"`)
				name := path[strings.LastIndex(path, "/")+1:]
				alias := name
				if im.Name != nil {
					alias = im.Name.Name
				}
				ren[alias] = name
				if name == "murmur3" {
					murmurPath = path
				}
			}
			ast.Inspect(ret.Results[0], func(n ast.Node) bool {
				if id, ok := n.(*ast.Ident); ok {
					if r, ok := ren[id.Name]; ok {
						id.Name = r
					}
				}
				return true
			})
			fm, perr := flow.ParseFormula("X == "+exprString(ret.Results[0]), nil)
			if perr != nil {
				return "", "", perr
			}
			return strings.TrimPrefix(strings.TrimSuffix(fm.Key, ""), ""), murmurPath, nil
		}
	}
	return "", "", fmt.Errorf("GetHashedPartitionID not found in %s", dir)
}

func exprString(e ast.Expr) string {
	var sb strings.Builder
	fset := token.NewFileSet()
	_ = fset
	// small printer sufficient for the expression at hand
	var pr func(e ast.Expr)
	pr = func(e ast.Expr) {
		switch x := e.(type) {
		case *ast.Ident:
			sb.WriteString(x.Name)
		case *ast.SelectorExpr:
			pr(x.X)
			sb.WriteString("." + x.Sel.Name)
		case *ast.CallExpr:
			pr(x.Fun)
			sb.WriteString("(")
			for i, a := range x.Args {
				if i > 0 {
					sb.WriteString(", ")
				}
				pr(a)
			}
			sb.WriteString(")")
		case *ast.BinaryExpr:
			sb.WriteString("(")
			pr(x.X)
			sb.WriteString(" " + x.Op.String() + " ")
			pr(x.Y)
			sb.WriteString(")")
		case *ast.ParenExpr:
			pr(x.X)
		case *ast.BasicLit:
			sb.WriteString(x.Value)
		default:
			sb.WriteString("?")
		}
	}
	pr(e)
	return sb.String()
}

func runC15(c *Ctx) {
	r := c.R
	r.Clause("C15-H1", "server and client SDK hash identically")
	r.Clause("C15-H2", "the node that executes is the node the key hashes to")
	r.Clause("C15-H3", "per-partition regrouping is consistent")
	// H1
	srv := ""
	if u := c.unit("C15-H1", "node.GetHashedPartitionID"); u != nil {
		if hk := c.unit("C15-H1", "node.HashedKey"); hk != nil {
			var rets []*an.Site
			for _, s := range hk.Sites {
				if s.Kind == flow.SReturn && s.Block.Reachable() {
					rets = append(rets, s)
				}
			}
			var urets []*an.Site
			for _, s := range u.Sites {
				if s.Kind == flow.SReturn && s.Block.Reachable() {
					urets = append(urets, s)
				}
			}
			if len(rets) == 1 && len(urets) == 1 {
				inner := hk.C.Term(rets[0].Ret.Results[0])
				outer := u.C.Term(urets[0].Ret.Results[0])
				srv = strings.ReplaceAll(outer, "node.HashedKey(p0)", inner)
			}
		}
	}
	dir, err := sdkDir(c.P.Repo)
	if err != nil {
		r.Unknown("C15-H1", "client SDK source", "", err.Error())
	} else {
		sdk, mp, err := sdkExpr(dir)
		if err != nil {
			r.Unknown("C15-H1", "client SDK GetHashedPartitionID", "", err.Error())
		} else {
			sdk = strings.TrimPrefix(sdk, "X == ")
			if i := strings.Index(sdk, " == "); i >= 0 { // MakeCmp may have ordered the sides
				if strings.HasSuffix(sdk, " == X") {
					sdk = strings.TrimSuffix(sdk, " == X")
				}
			}
			r.Check("C15-H1", "node.GetHashedPartitionID ≡ go-zanredisdb.GetHashedPartitionID as expressions", "", srv != "" && srv == sdk,
				fmt.Sprintf("server: %s ; SDK (%s): %s", srv, filepath.Base(dir), sdk))
			// same library
			same := false
			if pkg := c.P.ByPath["github.com/youzan/ZanRedisDB/node"]; pkg != nil {
				for p := range pkg.Imports {
					if p == mp {
						same = true
					}
				}
			}
			r.Check("C15-H1", "both sides hash with the same library package", "", same, "SDK imports "+mp)
		}
	}
	// H2
	if u := c.unit("C15-H2", "node.(*NamespaceMgr).GetNamespaceNodeWithPrimaryKeySum"); u != nil {
		// (pid and fullName, defined once by pure expressions, print as their definitions)
		nd := u.Match(an.LocalStore("n"))
		r.Check("C15-H2", u.Name+": the node is looked up under the partition's full name", "", len(nd) == 1 && nd[0].Tuple != nil && u.C.Term(nd[0].Tuple) == "recv.kvNodes[common.GetNsDesp(p0, (p2 % v.PartitionNum))]", func() string {
			if len(nd) == 1 && nd[0].Tuple != nil {
				return "looked up under " + u.C.Term(nd[0].Tuple)
			}
			return ""
		}())
		vd := u.Match(an.LocalStore("v"))
		r.Check("C15-H2", u.Name+": the partition count is the namespace's own", "", len(vd) == 1 && vd[0].Tuple != nil && u.C.Term(vd[0].Tuple) == "recv.nsMetas[p0]", "")
		r.Returns("C15-H2", u, []an.ReturnClass{
			{Name: "error", Match: an.ErrorReturn},
			{Name: "the looked-up node", Match: func(u *an.Unit, s *an.Site) bool { return u.C.Term(s.Ret.Results[0]) == "n" }},
		}, 4)
	}
	if u := c.unit("C15-H2", "node.(*NamespaceMgr).GetNamespaceNodeWithPrimaryKey"); u != nil {
		r.ArgValues("C15-H2", u, an.Call("node.(*NamespaceMgr).GetNamespaceNodeWithPrimaryKeySum"), 2, []string{"node.HashedKey(p1)", "pkSum"}, 1)
		r.StoreValues("C15-H2", u, an.LocalStore("pkSum"), []string{"node.HashedKey(p1)"}, 0)
		r.ArgValues("C15-H2", u, an.Call("node.(*NamespaceMgr).GetNamespaceNodeWithPrimaryKeySum"), 1, []string{"p1"}, 1)
		r.ArgValues("C15-H2", u, an.Call("node.(*NamespaceMgr).GetNamespaceNodeWithPrimaryKeySum"), 0, []string{"p0"}, 1)
	}
	for _, sw := range c.W.AllSites(an.Call("node.(*NamespaceMgr).GetNamespaceNodeWithPrimaryKeySum"), "GetNamespaceNodeWithPrimaryKeySum", nil) {
		if sw.U.Name == "node.(*NamespaceMgr).GetNamespaceNodeWithPrimaryKey" {
			continue
		}
		ok := sw.U.Name == "server.(*Server).GetHandleNode" && sw.U.ArgTerm(sw.S, 1) == "p1" && sw.U.ArgTerm(sw.S, 2) == "p2" && sw.U.ArgTerm(sw.S, 0) == "p0"
		r.Check("C15-H2", sw.U.Name+": passes namespace, key and key hash through unchanged", sw.U.Pos(sw.S.Pos), ok, "")
	}
	if u := c.unit("C15-H2", "server.GetPKAndHashSum"); u != nil {
		r.StoreValues("C15-H2", u, an.LocalStore("pkSum"), []string{"node.HashedKey(pk)"}, 0) // (the return classes below accept the call itself)
		r.StoreValues("C15-H2", u, an.LocalStore("rawKey"), []string{"p1.Args[1]"}, 0)
		pk := u.Match(an.LocalStore("pk"))
		r.Check("C15-H2", u.Name+": the primary key is extracted from the command's key argument", "", len(pk) == 1 && pk[0].Tuple != nil && (u.C.Term(pk[0].Tuple) == "common.ExtractNamesapce(p1.Args[1])" || u.C.Term(pk[0].Tuple) == "common.ExtractNamesapce(rawKey)"), "")
		r.Returns("C15-H2", u, []an.ReturnClass{
			{Name: "error", Match: an.ErrorReturn},
			{Name: "ns, pk, hash", Match: func(u *an.Unit, s *an.Site) bool {
				return len(s.Ret.Results) == 4 && u.C.Term(s.Ret.Results[0]) == "namespace" && u.C.Term(s.Ret.Results[1]) == "pk" && (u.C.Term(s.Ret.Results[2]) == "pkSum" || u.C.Term(s.Ret.Results[2]) == "node.HashedKey(pk)")
			}},
		}, 3)
	}
	if u := c.unit("C15-H2", "server.(*Server).serverRedis"); u != nil {
		g := u.Match(an.Call("server.(*Server).GetHandleNode"))
		r.Min("C15-H2", len(g), 1, "serverRedis: GetHandleNode calls")
		for _, s := range g {
			ok := u.ArgTerm(s, 0) == "ns" && u.ArgTerm(s, 1) == "pk" && u.ArgTerm(s, 2) == "pkSum"
			r.Check("C15-H2", "serverRedis: the handler node is fetched with the namespace, key and hash computed from this command", u.Pos(s.Pos), ok, "")
		}
		tv := tupleVars(u, "server.GetPKAndHashSum")
		r.Check("C15-H2", "serverRedis: ns, pk, pkSum come from GetPKAndHashSum(cmdName, cmd)", "", len(tv) == 4 && tv[0] == "ns" && tv[1] == "pk" && tv[2] == "pkSum", fmt.Sprint(tv))
	}
	// H3
	if u := c.unit("C15-H3", "server.(*Server).getHandlersForKeys"); u != nil {
		look := u.Match(an.Call("node.(*NamespaceMgr).GetNamespaceNodeWithPrimaryKey"))
		r.Check("C15-H3", u.Name+": each key is looked up with its own extracted primary key", "", len(look) == 1 && u.ArgTerm(look[0], 1) == "realKey" && u.ArgTerm(look[0], 0) == "ns", "")
		rk := tupleVars(u, "common.ExtractNamesapce")
		r.Check("C15-H3", u.Name+": the primary key is extracted from the loop's own argument", "", len(rk) == 3 && rk[1] == "realKey", fmt.Sprint(rk))
		r.StoreValues("C15-H3", u, an.StoreTerm("handlerMap[nsNode.FullName()]"), []string{"f"}, 1)
		for _, s := range u.Match(an.StoreTerm("cmdArgMap[*")) {
			r.Check("C15-H3", u.Name+": arguments are grouped under the looked-up node", u.Pos(s.Pos), u.C.Term(s.LHS) == "cmdArgMap[nsNode.FullName()]" && u.C.Term(s.RHS) == "cmdArgs", "")
		}
		for _, s := range u.Match(an.LocalStore("cmdArgs")) {
			if s.RHS == nil && s.Tuple != nil {
				r.Check("C15-H3", u.Name+": the argument list continued is the looked-up node's", u.Pos(s.Pos), u.C.Term(s.Tuple) == "cmdArgMap[nsNode.FullName()]", "")
			}
			if s.RHS != nil && strings.HasPrefix(u.C.Term(s.RHS), "append(cmdArgs, ") {
				v := strings.TrimSuffix(strings.TrimPrefix(u.C.Term(s.RHS), "append(cmdArgs, "), ")")
				ok := v == "arg" || v == "vals[kindex]" || v == "[]byte(p0)"
				r.Check("C15-H3", u.Name+": appends this iteration's key (and, for PLSET, the value at the same index)", u.Pos(s.Pos), ok, "appended "+v)
			}
		}
		ft := tupleVars(u, "node.(*KVNode).GetMergeHandler")
		r.Check("C15-H3", u.Name+": the handler comes from the looked-up node", "", len(ft) == 3 && ft[0] == "f", fmt.Sprint(ft))
		// every partition's argument list has its own backing array: the list is either continued from the
		// map entry of the same partition, freshly made, or appended to itself
		n := 0
		for _, s := range u.Match(an.LocalStore("cmdArgs")) {
			n++
			var t string
			switch {
			case s.Tuple != nil:
				t = u.C.Term(s.Tuple)
			case s.RHS != nil:
				t = u.C.Term(s.RHS)
			}
			fresh := false
			if ce, ok := ast.Unparen(rhsOf(s)).(*ast.CallExpr); ok {
				if id, ok := ce.Fun.(*ast.Ident); ok && id.Name == "make" {
					fresh = true
				}
			}
			ok := fresh || strings.HasPrefix(t, "append(cmdArgs, ") || t == "cmdArgMap[nsNode.FullName()]"
			r.Check("C15-H3", u.Name+": a partition's argument list never shares storage with another partition's", u.Pos(s.Pos), ok, "assigned "+t+": a slice shared between partitions is overwritten by the other partitions' keys")
		}
		r.Min("C15-H3", n, 3, "assignments to the per-partition argument list")
	}
	// H3 (pairing): handlers[i] and cmds[i] are handed out as a pair; they are built in ONE iteration over the handler
	// map (two separate iterations of a Go map visit the keys in different orders)
	if u := c.unit("C15-H3", "server.(*Server).getHandlersForKeys"); u != nil {
		var hs, cs *flow.Site
		for _, s := range u.Sites {
			if s.Kind == flow.SStore && s.RHS != nil {
				switch {
				case localName(u, s.LHS) == "handlers" && strings.HasPrefix(u.C.Term(s.RHS), "append(handlers, "):
					hs = s
				case localName(u, s.LHS) == "cmds" && strings.HasPrefix(u.C.Term(s.RHS), "append(cmds, "):
					cs = s
				}
			}
		}
		ok := hs != nil && cs != nil
		why := "the two appends were not found"
		if ok {
			// the innermost range statement around each append is the same one, and it ranges over the handler map
			inner := func(s *flow.Site) *ast.RangeStmt {
				var out *ast.RangeStmt
				u.InspectAll(func(n ast.Node) bool {
					if rs, isR := n.(*ast.RangeStmt); isR && rs.Body.Pos() <= s.Pos && s.Pos < rs.Body.End() {
						out = rs
					}
					return true
				})
				return out
			}
			a, b := inner(hs), inner(cs)
			ok = a != nil && a == b
			why = "handlers and cmds are appended in different loops: position i of one does not belong to position i of the other"
			if ok {
				ok = strings.HasPrefix(u.C.Term(cs.RHS), "append(cmds, server.buildCommand(cmdArgMap[name]))") && localName(u, a.Key) == "name" && localName(u, a.Value) == "handler" &&
					u.C.Term(hs.RHS) == "append(handlers, handler)"
				why = "the command is not built from the arguments grouped under the same name as the handler"
			}
		}
		r.Check("C15-H3", u.Name+": the handler and the command of one partition are appended in the same iteration, under the same name", "", ok, why)
	}
	// H4: the modulus the server routes with is the partition count of the namespace as configured now
	if u := c.unit("C15-H2", "node.(*NamespaceMgr).InitNamespaceNode"); u != nil {
		set := an.StoreTerm("recv.nsMetas[p0.BaseName]")
		for _, s := range u.Match(set) {
			t := defTermOf(u, s)
			// the stored meta is built from the configuration being installed
			okv := false
			if id, isId := ast.Unparen(s.RHS).(*ast.Ident); isId {
				o := u.Info().ObjectOf(id)
				okv = true
				seen := 0
				for _, d := range u.Sites {
					if d.Kind == flow.SStore && d.Local == o && d.RHS != nil && reachesSite(u, d, s) && sameBlockOrDom(u, d, s) {
						seen++
						if !strings.Contains(u.C.Term(d.RHS), "PartitionNum: p0.PartitionNum") {
							okv = false
						}
						t = u.C.Term(d.RHS)
					}
				}
				okv = okv && seen >= 1
			} else {
				okv = strings.Contains(t, "PartitionNum: p0.PartitionNum")
			}
			r.Check("C15-H2", u.Name+": a namespace meta is recorded with the configured partition count", u.Pos(s.Pos), okv, "stored "+t)
		}
		r.Min("C15-H2", len(u.Match(set)), 1, "namespace meta stores")
		// the node is created only after the meta agrees with the configuration: freshly stored, or tested equal
		r.Order("C15-H2", u, an.Call("node.NewKVNode"), []an.M{set, an.Edge("_.PartitionNum == p0.PartitionNum")}, an.OrderOpts{Min: 1})
	}
	for _, sw := range c.W.AllSites(an.Store("node.NamespaceMeta.PartitionNum"), "PartitionNum", nil) {
		r.Bad("C15-H2", sw.U.Name+": the partition count of a live namespace meta is never changed in place", sw.U.Pos(sw.S.Pos), "routing (hash % PartitionNum) would change under running partitions")
	}
	for _, sw := range c.W.AllSites(an.Store("node.NamespaceMgr.nsMetas"), "nsMetas", nil) {
		if sw.U.Name == "node.NewNamespaceMgr" {
			continue
		}
		r.Check("C15-H2", sw.U.Name+": namespace metas are recorded by InitNamespaceNode only", sw.U.Pos(sw.S.Pos), sw.U.Name == "node.(*NamespaceMgr).InitNamespaceNode", "")
	}
}

func rhsOf(s *flow.Site) ast.Expr {
	if s.RHS != nil {
		return s.RHS
	}
	if s.Tuple != nil {
		return s.Tuple
	}
	return &ast.Ident{Name: "_"}
}

// reachesSite / sameBlockOrDom: definition d is the one that flows into s when it is in the same block before s,
// or in a block dominating s's.
func reachesSite(u *an.Unit, d, s *flow.Site) bool { return reaches(u, d, s) }
func sameBlockOrDom(u *an.Unit, d, s *flow.Site) bool {
	if d.Block == s.Block {
		return d.SameBlockBefore(s)
	}
	return u.G.Dominates(d.Block, s.Block)
}

// H4: every key of a multi-key command reaches a partition. The regrouping loop of getHandlersForKeys hands each key
// (and its value) to the command of the key's partition; an iteration that neither appends nor fails — a `continue` —
// drops a key: EXISTS k k answers 1, PLSET k v1 k v2 writes one value and one OK. (Duplicate keys are the client's
// business: each occurrence is executed, as on a single store.)
func c15H4(c *Ctx) {
	r := c.R
	r.Clause("C15-H4", "the regrouping loop skips no key of a multi-key command")
	u := c.unit("C15-H4", "server.(*Server).getHandlersForKeys")
	if u == nil {
		return
	}
	var loop *ast.RangeStmt
	u.InspectAll(func(n ast.Node) bool {
		if rs, ok := n.(*ast.RangeStmt); ok {
			has := false
			ast.Inspect(rs.Body, func(m ast.Node) bool {
				if call, ok := m.(*ast.CallExpr); ok && strings.HasSuffix(u.C.Term(call.Fun), "ExtractNamesapce") {
					has = true
				}
				return !has
			})
			if has && loop == nil {
				loop = rs
			}
		}
		return true
	})
	if loop == nil {
		r.Unknown("C15-H4", u.Name+": regrouping loop", "", "no range loop that extracts the namespace of each key")
		return
	}
	skips := 0
	var walk func(n ast.Node, inner bool)
	walk = func(n ast.Node, inner bool) {
		ast.Inspect(n, func(m ast.Node) bool {
			if m == n {
				return true
			}
			switch x := m.(type) {
			case *ast.FuncLit:
				return false
			case *ast.ForStmt, *ast.RangeStmt:
				walk(m, true)
				return false
			case *ast.BranchStmt:
				if x.Tok.String() == "continue" && (!inner || x.Label != nil) {
					skips++
				}
			}
			return true
		})
	}
	walk(loop.Body, false)
	r.Check("C15-H4", u.Name+": every iteration over the keys appends the key to its partition's command or fails", u.Pos(loop.Pos()), skips == 0,
		fmt.Sprintf("%d `continue` statement(s) in the loop over the keys: a skipped key is neither executed nor answered", skips))
}

func init() {
	old := registry["C15"].Run
	registry["C15"].Run = func(c *Ctx) { old(c); c15H4(c) }
}
