package props

import (
	"fmt"
	"go/ast"
	"go/token"
	"go/types"
	"golang.org/x/tools/go/types/typeutil"
	"sort"
	"strings"

	"verif/internal/an"
	"verif/internal/flow"
	"verif/internal/load"
)

func init() {
	register(&Property{
		ID:          "C20",
		Technique:   "static analysis: field mod-sets of the write-batch implementations (what the mutators may store vs what Clear/Destroy reset), who-may-call enumeration of raw iterator constructors, guard implication by truth table on the shared range/limit iterator (which bound and which open bit each direction tests)",
		Explanation: "Decides three narrow clauses of 'one contract for all engines': (T1) a cleared batch carries nothing over: for every implementation of engine.WriteBatch the receiver fields its mutators (Put, Delete, DeleteRange, Merge) may store to are reset by Clear and by Destroy, and wrappers delegate Clear to the wrapped batch; (T2) bounds, direction and limits are implemented once: outside package engine no raw engine iterator is obtained (only the shared range/limit wrapper constructors); (T3) the shared wrapper tests the upper bound with the right-open bit when iterating forward and the lower bound with the left-open bit when iterating in reverse, both in Valid and at the initial positioning, and the Count/Offset limits are applied in Valid/constructor. (T3, fallback) when SeekForPrev finds nothing the reverse fallback to the first key steps back if that key is beyond Max; (T5) the three in-memory DeleteRange walks stop at the end key (exclusive, like rocksdb and pebble); (T6) SeekForPrev is less-than-or-equal in every engine iterator: an implementation that uses a strictly-less seek looks for the equal key first. Added after defects were shown on the in-memory engine: (T7) the radix write batch reads only through its own open transaction while it is built (no reader of the committed state in Put/Delete/DeleteRange/Merge), (T8) radix index keys are order preserving and prefix-free and encoder/decoder agree on the terminator, (T9) pebble's exclusive upper bound is extended exactly when the right end is closed.",
		NotDecided:  "nearly all of C20: observational equivalence of pebble, the in-memory trees and (C++) rocksdb for seeks, merges, delete-range, snapshots; the merge operators' arithmetic agreement; SeekForPrev semantics of each engine.",
		Assumptions: []string{"mod-sets are computed from direct stores in the methods (and one level of same-type helper calls)"},
		Run:         runC20,
	})
}

func recvFieldStores(c *Ctx, u *an.Unit, depth int, seen map[string]bool) map[string]bool {
	out := map[string]bool{}
	if u == nil || seen[u.Name] {
		return out
	}
	seen[u.Name] = true
	for _, uu := range append([]*an.Unit{u}, u.Lits()...) {
		for _, s := range uu.Sites {
			if s.Kind == flow.SStore && s.Field != nil {
				if strings.HasPrefix(uu.C.Term(s.LHS), "recv.") || strings.HasPrefix(uu.C.Term(s.LHS), "recv[") {
					out[s.Field.Name()] = true
				}
			}
			// delete(recv.m, k) / append handled as stores; map deletes mutate the map field
			if s.Kind == flow.SCall && s.Builtin == "delete" && len(s.Call.Args) > 0 {
				if f := selField(uu, s.Call.Args[0]); f != "" {
					out[f] = true
				}
			}
			if depth > 0 && s.Kind == flow.SCall && s.Callee != nil {
				if se, ok := ast.Unparen(s.Call.Fun).(*ast.SelectorExpr); ok && uu.C.Term(se.X) == "recv" {
					if src := c.P.FuncOf(s.Callee); src != nil {
						if cu, err := c.W.Unit(src.Name); err == nil {
							for f := range recvFieldStores(c, cu, depth-1, seen) {
								out[f] = true
							}
						}
					}
				}
			}
		}
	}
	return out
}

func selField(u *an.Unit, e ast.Expr) string {
	if se, ok := ast.Unparen(e).(*ast.SelectorExpr); ok && u.C.Term(se.X) == "recv" {
		return se.Sel.Name
	}
	return ""
}

func runC20(c *Ctx) {
	r := c.R
	r.Clause("C20-T1", "a cleared batch carries nothing over")
	r.Clause("C20-T2", "raw engine iterators are not used outside package engine")
	r.Clause("C20-T3", "the shared range/limit iterator tests the right bound and open bit per direction")
	// T1: find implementations of engine.WriteBatch
	pkg := c.P.ByPath[load.ModPath+"/engine"]
	if pkg == nil {
		r.Unknown("C20-T1", "package engine", "", "not loaded")
		return
	}
	ifaceObj := pkg.Types.Scope().Lookup("WriteBatch")
	if ifaceObj == nil {
		r.Unknown("C20-T1", "engine.WriteBatch", "", "not found")
		return
	}
	iface := ifaceObj.Type().Underlying().(*types.Interface)
	nImpl := 0
	for _, n := range pkg.Types.Scope().Names() {
		tn, ok := pkg.Types.Scope().Lookup(n).(*types.TypeName)
		if !ok {
			continue
		}
		if _, isI := tn.Type().Underlying().(*types.Interface); isI {
			continue
		}
		if !types.Implements(types.NewPointer(tn.Type()), iface) {
			continue
		}
		nImpl++
		tname := "engine.(*" + n + ")"
		mut := map[string]bool{}
		for _, m := range []string{"Put", "Delete", "DeleteRange", "Merge"} {
			u, err := c.W.Unit(tname + "." + m)
			if err != nil {
				r.Unknown("C20-T1", tname+"."+m, "", err.Error())
				continue
			}
			for f := range recvFieldStores(c, u, 1, map[string]bool{}) {
				mut[f] = true
			}
		}
		var mlist []string
		for f := range mut {
			mlist = append(mlist, f)
		}
		sort.Strings(mlist)
		for _, reset := range []string{"Clear", "Destroy"} {
			u, err := c.W.Unit(tname + "." + reset)
			if err != nil {
				r.Unknown("C20-T1", tname+"."+reset, "", err.Error())
				continue
			}
			rs := recvFieldStores(c, u, 1, map[string]bool{})
			// discarding a field's buffered content through its own Abort/Reset/Clear counts as resetting it
			for _, s := range u.Sites {
				if s.Kind == flow.SCall && s.Callee != nil {
					switch s.Callee.Name() {
					case "Abort", "Reset", "Clear", "Close", "Destroy":
						if se, ok := ast.Unparen(s.Call.Fun).(*ast.SelectorExpr); ok {
							if f := selField(u, se.X); f != "" {
								rs[f] = true
							}
						}
					}
				}
			}
			var missing []string
			for _, f := range mlist {
				if !rs[f] {
					missing = append(missing, f)
				}
			}
			r.Check("C20-T1", fmt.Sprintf("%s: every field its mutators store to {%s} is reset by %s", tname, strings.Join(mlist, ", "), reset), u.Pos(u.Body.Pos()), len(missing) == 0,
				"not reset: "+strings.Join(missing, ", ")+" — what an aborted batch buffered there leaks into the next one")
			if len(mlist) == 0 {
				// a wrapper: must delegate to the wrapped batch
				deleg := false
				for _, s := range u.Sites {
					if s.Kind == flow.SCall && s.Callee != nil {
						nm := s.Callee.Name()
						if nm == "Clear" || nm == "Reset" || nm == "Destroy" || nm == "Close" {
							if se, ok := ast.Unparen(s.Call.Fun).(*ast.SelectorExpr); ok && strings.HasPrefix(u.C.Term(se.X), "recv.") {
								deleg = true
							}
						}
					}
				}
				r.Check("C20-T1", fmt.Sprintf("%s: %s delegates to the wrapped batch", tname, reset), u.Pos(u.Body.Pos()), deleg, "")
			}
		}
	}
	r.Min("C20-T1", nImpl, 3, "implementations of engine.WriteBatch")

	// T2
	inside, outside := 0, 0
	for _, fn := range c.P.Funcs() {
		if fn.Decl.Body == nil {
			continue
		}
		sp := load.ShortPkg(fn.Pkg.PkgPath)
		hit := false
		ast.Inspect(fn.Decl.Body, func(n ast.Node) bool {
			if id, ok := n.(*ast.Ident); ok && (id.Name == "GetIterator" || id.Name == "NewDBIterator") {
				hit = true
			}
			return !hit
		})
		if !hit {
			continue
		}
		u, err := c.W.Unit(fn.Name)
		if err != nil {
			continue
		}
		for _, uu := range append([]*an.Unit{u}, u.Lits()...) {
			for _, s := range uu.Sites {
				if s.Kind != flow.SCall || s.Callee == nil {
					continue
				}
				q := an.CalleeName(s)
				if !(strings.HasPrefix(q, "engine.") && (strings.HasSuffix(q, ".GetIterator") || strings.HasSuffix(q, ".NewDBIterator"))) {
					continue
				}
				if sp == "engine" {
					inside++
					continue
				}
				outside++
				r.Bad("C20-T2", uu.Name+": obtains a raw engine iterator ("+q+") outside package engine", uu.Pos(s.Pos), "bounds/direction/limit semantics must come from the shared wrapper")
			}
		}
	}
	r.Check("C20-T2", "raw engine iterators are obtained inside package engine only", "", outside == 0, fmt.Sprintf("%d call(s) inside engine (positive control), %d outside", inside, outside))
	r.Min("C20-T2", inside, 1, "GetIterator calls inside package engine (positive control)")

	// T4: the counter merge operator never retains (aliases) an operand handed in by the engine
	r.Clause("C20-T4", "the pebble counter merger accumulates into its own buffer")
	fresh := func(t string) bool {
		return t == "nil" || strings.HasPrefix(t, "make([]byte") || strings.HasPrefix(t, "append([]byte(nil)") || strings.HasPrefix(t, "append([]byte{}")
	}
	nT4 := 0
	for _, sw := range c.W.AllSites(an.Store("engine.Uint64AddMerger.buf"), "buf", []string{"engine"}) {
		if sw.S.Index {
			continue
		}
		nT4++
		v := "<none>"
		if sw.S.RHS != nil {
			v = sw.U.C.Term(sw.S.RHS)
		}
		r.Check("C20-T4", sw.U.Name+": Uint64AddMerger.buf is a freshly allocated buffer", sw.U.Pos(sw.S.Pos), fresh(v), "assigned "+v+": writing the sum into an operand overwrites the engine's stored value in place")
	}
	if lits, err := c.W.PkgLits("engine", "engine.Uint64AddMerger"); err == nil {
		for _, l := range lits {
			if v, ok := l.Fields["buf"]; ok {
				nT4++
				r.Check("C20-T4", l.Func+": Uint64AddMerger literal starts from a fresh buffer", c.P.Pos(l.Pos), fresh(v), "buf: "+v)
			}
		}
	}
	r.Min("C20-T4", nT4, 1, "assignments of Uint64AddMerger.buf")

	// T3
	if u := c.unit("C20-T3", "engine.(*RangeLimitedIterator).Valid"); u != nil {
		rs := u.Match(an.LocalStore("r"))
		names := map[string]string{}
		for _, s := range rs {
			if s.RHS != nil {
				names[u.C.Term(s.RHS)] = u.C.Term(s.LHS)
			}
		}
		rmax, rmin := names["bytes.Compare(recv.Iterator.RefKey(), recv.r.Max)"], names["bytes.Compare(recv.Iterator.RefKey(), recv.r.Min)"]
		if rmax == "" || rmin == "" {
			r.Bad("C20-T3", u.Name+": compares the current key with r.Max (forward) and r.Min (reverse)", "", fmt.Sprint(names))
		} else {
			// whatever the arrangement of the returns: valid = within the limits, on a position, and inside the bound
			// the direction runs towards (strictly inside when that bound is open)
			r.Truth("C20-T3", u, "!(recv.l.Offset < 0) && !(recv.l.Count >= 0 && recv.step >= recv.l.Count) && recv.Iterator.Valid() && "+
				"((!recv.reverse && (recv.r.Max == nil || (recv.r.Type&common.RangeROpen > 0 && "+rmax+" < 0) || (!(recv.r.Type&common.RangeROpen > 0) && "+rmax+" <= 0))) || "+
				"(recv.reverse && (recv.r.Min == nil || (recv.r.Type&common.RangeLOpen > 0 && "+rmin+" > 0) || (!(recv.r.Type&common.RangeLOpen > 0) && "+rmin+" >= 0))))", an.Equiv)
		}
	}
	if u := c.unit("C20-T3", "engine.rangeLimitIterator"); u != nil {
		r.Guard("C20-T3", u, an.Call("engine.Iterator.Seek"), "!p3 && p1.Min != nil", an.GuardOpts{Min: 1})
		r.ArgValues("C20-T3", u, an.Call("engine.Iterator.Seek"), 0, []string{"p1.Min"}, 1)
		r.Guard("C20-T3", u, an.Call("engine.Iterator.SeekForPrev"), "p3 && p1.Max != nil", an.GuardOpts{Min: 1})
		r.ArgValues("C20-T3", u, an.Call("engine.Iterator.SeekForPrev"), 0, []string{"p1.Max"}, 1)
		// the equal key is skipped exactly under the open bit of the bound that was sought
		for _, s := range u.Match(an.Call("engine.Iterator.Next")) {
			pc := u.SitePC(s)
			if res := flow.Implies(pc, c.W.Parse("i < p2.Offset")); res.Holds {
				continue // the offset loop
			}
			r.GuardSite("C20-T3", u, s, c.W.Parse("!p3 && p1.Type&common.RangeLOpen > 0 && bytes.Compare(it.Iterator.RefKey(), p1.Min) <= 0"), "forward: skip the key equal to Min only when left-open")
		}
		// skipping Offset elements must not count against Count: the skip steps the underlying iterator, and the limit
		// counter is written by the wrapper's Next only
		nRaw := 0
		for _, s := range u.Sites {
			if s.Kind == flow.SCall && (an.CalleeName(s) == "engine.(*RangeLimitedIterator).Next" || an.CalleeName(s) == "engine.(*RangeLimitedIterator).Prev") {
				r.Bad("C20-T3", u.Name+": the offset skip steps the underlying iterator, not the counting wrapper", u.Pos(s.Pos), "the wrapper's Next counts towards Count: with Offset > Count the skip stops early")
			}
			if s.Kind == flow.SCall && (an.CalleeName(s) == "engine.Iterator.Next" || an.CalleeName(s) == "engine.Iterator.Prev") {
				if flow.Implies(u.SitePC(s), c.W.Parse("i < p2.Offset")).Holds {
					nRaw++
				}
			}
		}
		r.Check("C20-T3", u.Name+": the offset skip has a forward and a backward raw step", "", nRaw == 2, fmt.Sprintf("%d raw steps in the offset loop", nRaw))
		// the reverse fallback (SeekToFirst after an empty SeekForPrev) must not leave the iterator on a key beyond Max
		for _, f := range u.Match(an.Call("engine.Iterator.SeekToFirst")) {
			if !flow.Implies(u.SitePC(f), c.W.Parse("p3")).Holds {
				continue
			}
			okFb := false
			for _, s := range u.Match(an.Call("engine.Iterator.Prev")) {
				if reaches(u, f, s) && flow.Implies(u.SitePC(s), c.W.Parse("1 == bytes.Compare(it.Iterator.RefKey(), p1.Max)")).Holds {
					okFb = true
				}
			}
			r.Check("C20-T3", u.Name+": reverse: a fallback to the first key is followed by a step back when that key is beyond Max", u.Pos(f.Pos), okFb,
				"the first key of the store is returned as part of a range it does not belong to (the reverse validity test only looks at Min)")
		}
		for _, s := range u.Match(an.Call("engine.Iterator.Prev")) {
			pc := u.SitePC(s)
			if res := flow.Implies(pc, c.W.Parse("i < p2.Offset")); res.Holds {
				continue
			}
			// the other legitimate step back: SeekForPrev found nothing, the fallback stands on the first key and that key is beyond Max
			if res := flow.Implies(pc, c.W.Parse("p3 && 1 == bytes.Compare(it.Iterator.RefKey(), p1.Max)")); res.Holds {
				fb := u.Match(an.Call("engine.Iterator.SeekToFirst"))
				after := false
				for _, f := range fb {
					if reaches(u, f, s) && flow.Implies(u.SitePC(f), c.W.Parse("p3 && !it.Iterator.Valid()")).Holds {
						after = true
					}
				}
				r.Check("C20-T3", u.Name+": reverse: when nothing is <= Max the fallback steps before the first key (the range is empty)", u.Pos(s.Pos), after, "")
				continue
			}
			r.GuardSite("C20-T3", u, s, c.W.Parse("p3 && p1.Type&common.RangeROpen > 0 && bytes.Compare(it.Iterator.RefKey(), p1.Max) >= 0"), "reverse: skip the key equal to Max only when right-open")
		}
	}
}

func init() {
	old := registry["C20"].Run
	registry["C20"].Run = func(c *Ctx) { old(c); c20T5(c) }
}

// T5: DeleteRange(start, end) excludes end on rocksdb and pebble (their own batch does it); the three in-memory
// implementations (skiplist, btree, radix) walk from start and must stop *at* end: the loop is left under
// bytes.Compare(key, end) >= 0. Sibling agreement over every such loop in engine/mem_writebatch.go.
func c20T5(c *Ctx) {
	r := c.R
	r.Clause("C20-T5", "the in-memory DeleteRange implementations exclude the end key, like rocksdb and pebble")
	n := 0
	for _, fn := range c.P.Funcs() {
		if load.ShortPkg(fn.Pkg.PkgPath) != "engine" || fn.Decl.Body == nil || !strings.HasSuffix(c.P.Fset.Position(fn.Decl.Pos()).Filename, "mem_writebatch.go") {
			continue
		}
		info := fn.Pkg.TypesInfo
		ast.Inspect(fn.Decl.Body, func(nd ast.Node) bool {
			is, ok := nd.(*ast.IfStmt)
			if !ok || len(is.Body.List) != 1 {
				return true
			}
			br, ok := is.Body.List[0].(*ast.BranchStmt)
			if !ok || br.Tok != token.BREAK {
				return true
			}
			// find `bytes.Compare(x, y) OP 0` in the condition
			ast.Inspect(is.Cond, func(m ast.Node) bool {
				be, ok := m.(*ast.BinaryExpr)
				if !ok {
					return true
				}
				call, ok := ast.Unparen(be.X).(*ast.CallExpr)
				if !ok {
					return true
				}
				f, _ := typeutil.Callee(info, call).(*types.Func)
				if f == nil || f.FullName() != "bytes.Compare" {
					return true
				}
				if tv, ok := info.Types[be.Y]; !ok || tv.Value == nil || tv.Value.ExactString() != "0" {
					return true
				}
				n++
				r.Check("C20-T5", fmt.Sprintf("%s: the range walk stops at the end key (Compare(key, end) >= 0)", fn.Name), c.P.Pos(is.Pos()), be.Op == token.GEQ,
					"the loop is left under Compare "+be.Op.String()+" 0: the end key itself is deleted, unlike on rocksdb and pebble")
				return false
			})
			return true
		})
	}
	r.Min("C20-T5", n, 3, "range walks in the in-memory write batch")
}

func init() {
	old := registry["C20"].Run
	registry["C20"].Run = func(c *Ctx) { old(c); c20T6(c) }
}

// T6: the iterator contract says SeekForPrev(k) stands on the last key <= k (rocksdb's meaning; the shared range iterator
// relies on it for closed upper bounds). An implementation that only calls a strictly-less seek (pebble's SeekLT, the
// btree's SeekLT) loses the key equal to k. Every SeekForPrev in package engine that uses a strict seek must first look
// for the equal key: a greater-or-equal seek followed by an equality test that returns.
func c20T6(c *Ctx) {
	r := c.R
	r.Clause("C20-T6", "SeekForPrev means less-than-or-equal on every engine iterator")
	n := 0
	for _, fn := range c.P.Funcs() {
		if load.ShortPkg(fn.Pkg.PkgPath) != "engine" || fn.Decl.Name.Name != "SeekForPrev" || fn.Decl.Recv == nil || fn.Decl.Body == nil {
			continue
		}
		u, err := c.W.Unit(fn.Name)
		if err != nil {
			continue
		}
		n++
		var strict, ge *flow.Site
		for _, s := range u.Sites {
			if s.Kind != flow.SCall || s.Call == nil {
				continue
			}
			name := ""
			if sel, ok := ast.Unparen(s.Call.Fun).(*ast.SelectorExpr); ok {
				name = sel.Sel.Name
			}
			switch name {
			case "SeekLT":
				strict = s
			case "SeekGE", "Seek":
				if ge == nil {
					ge = s
				}
			}
		}
		construct := fn.Name + ": positions on the last key <= target"
		switch {
		case strict == nil:
			// delegates to something that is less-or-equal by name/contract (SeekForPrev of the wrapped iterator,
			// ReverseLowerBound, find_le): noted, not judged
			var callees []string
			for _, s := range u.Sites {
				if s.Kind == flow.SCall && s.Call != nil {
					callees = append(callees, u.C.Term(s.Call.Fun))
				}
			}
			r.Ok("C20-T6", construct, "", "no strict seek: delegates to "+strings.Join(callees, ", "))
		case ge != nil && reaches(u, ge, strict):
			// the equal key is looked for first, and the strict seek is skipped when it was found
			eq := false
			for _, s := range u.Match(an.Return()) {
				if reaches(u, ge, s) && !reaches(u, strict, s) {
					pc := u.SitePC(s)
					atoms := map[string]*flow.F{}
					pc.Atoms(atoms)
					for k := range atoms {
						if strings.Contains(k, "Equal(") || strings.Contains(k, "cmp(") || strings.Contains(k, "Compare(") {
							eq = true
						}
					}
				}
			}
			r.Check("C20-T6", construct, u.Pos(strict.Pos), eq, "a greater-or-equal seek precedes the strict one, but no early return on the equal key was found")
		default:
			r.Bad("C20-T6", construct, u.Pos(strict.Pos), "only a strictly-less seek ("+u.C.Term(strict.Call.Fun)+"): the key equal to the target is skipped, so a reverse scan with a closed upper bound loses its first element on this engine")
		}
	}
	r.Min("C20-T6", n, 4, "SeekForPrev implementations in package engine")
}

func init() {
	old := registry["C20"].Run
	registry["C20"].Run = func(c *Ctx) { old(c); c20StepWriters(c) }
}

// who may write the limit counter
func c20StepWriters(c *Ctx) {
	r := c.R
	n := 0
	for _, sw := range c.W.AllSites(an.Store("engine.RangeLimitedIterator.step"), "step", []string{"engine"}) {
		n++
		ok := sw.U.Name == "engine.(*RangeLimitedIterator).Next" && sw.S.Tok.String() == "++"
		r.Check("C20-T3", sw.U.Name+": the limit counter is advanced by the wrapper's Next only", sw.U.Pos(sw.S.Pos), ok, "store "+sw.S.Tok.String()+" in "+sw.U.Name)
	}
	r.Min("C20-T3", n, 1, "stores to RangeLimitedIterator.step")
}

// T7: the operations of a write batch take effect in the order they were added (rocksdb and pebble batches are ordered
// logs; the btree and skiplist engines replay the operation list at commit). The radix engine applies each operation
// to an open transaction at once, so whatever a batch-building method reads must be read through that transaction
// (wb.writer): a reader of the last committed state (memEng.Get*NoLock, radixMemIndex.Get / NewIterator) does not see
// the batch's earlier puts and deletes.
func c20T7(c *Ctx) {
	r := c.R
	r.Clause("C20-T7", "the radix write batch reads its own writes: no reader of the committed state in a batch-building method")
	committed := an.Call("engine.(*memEng).GetBytesNoLock", "engine.(*memEng).GetRefNoLock", "engine.(*memEng).GetBytes", "engine.(*memEng).GetRef",
		"engine.(*memEng).ExistNoLock", "engine.(*memEng).Exist", "engine.(*memEng).GetIterator", "engine.(*memEng).NewIterator",
		"engine.(*radixMemIndex).Get", "engine.(*radixMemIndex).NewIterator", "engine/radixdb.(*MemDB).Snapshot")
	n := 0
	for _, m := range []string{"Put", "Delete", "DeleteRange", "Merge"} {
		u := c.unit("C20-T7", "engine.(*memWriteBatch)."+m)
		if u == nil {
			continue
		}
		n++
		bad := false
		for _, s := range u.Match(committed) {
			// only the radix branch applies operations while the batch is being built
			if res := flow.Implies(u.SitePC(s), c.W.Parse("engine.useMemType == engine.memTypeRadix")); res.Holds {
				bad = true
				r.Bad("C20-T7", u.Name+": reads the committed state while building a radix batch", u.Pos(s.Pos),
					"call "+an.CalleeName(s)+": keys put or deleted earlier in the same batch are not seen (the other engines apply a batch in order)")
			}
		}
		if !bad {
			r.Ok("C20-T7", u.Name+": no reader of the committed state in the radix branch", u.Pos(u.Body.Pos()), "")
		}
	}
	r.Min("C20-T7", n, 4, "batch-building methods of memWriteBatch")
	// the range delete enumerates a snapshot of the batch's own transaction
	if u := c.unit("C20-T7", "engine.(*memWriteBatch).DeleteRange"); u != nil {
		lits, _ := c.W.PkgLits("engine", "engine.radixIterator")
		ok := false
		for _, l := range lits {
			if l.Func == u.Name && l.Fields["miTxn"] == "recv.writer.Snapshot()" {
				ok = true
			}
		}
		r.Check("C20-T7", u.Name+": the range is enumerated over a snapshot of the batch's transaction", "", ok, "")
	}
	if u := c.unit("C20-T7", "engine.(*memWriteBatch).readPending"); u != nil {
		r.ArgValues("C20-T7", u, an.Call("engine/radixdb.(*Txn).First"), 0, []string{"p0"}, 1)
		rs := u.Match(an.Call("engine/radixdb.(*Txn).First"))
		r.Check("C20-T7", u.Name+": reads through the batch's transaction", "", len(rs) == 1 && u.C.Term(rs[0].Call.Fun) == "recv.writer.First", "")
	}
}

func init() {
	old := registry["C20"].Run
	registry["C20"].Run = func(c *Ctx) { old(c); c20T7(c) }
}

// T8: the in-memory radix engine stores a key under an index key. The radix iterators of the dependency return a key
// that is a prefix of the following ones out of order, so iteration in byte order (forwards, backwards, seeks) needs
// index keys none of which is a prefix of another, in the order of the keys. Decided on the encoder/decoder pair:
//   - toIndexKey never appends to its parameter (the caller's key keeps its storage to itself),
//   - it ends the key with a terminator of N >= 2 bytes whose first byte cannot stand alone inside the encoded key: a
//     byte equal to it is followed by an escape byte, inside a loop over the key,
//   - extractFromIndexKey strips exactly N bytes and undoes the escape.
func c20T8(c *Ctx) {
	r := c.R
	r.Clause("C20-T8", "radix index keys: order preserving, no index key a prefix of another, encoder and decoder agree")
	enc := c.unit("C20-T8", "engine/radixdb.toIndexKey")
	dec := c.unit("C20-T8", "engine/radixdb.extractFromIndexKey")
	if enc == nil || dec == nil {
		return
	}
	// appends: none to the parameter; the terminator is the constant tail of the returned append
	termLen, aliased, escaped := -1, false, false
	for _, s := range enc.Sites {
		if s.Kind != flow.SCall || s.Builtin != "append" || len(s.Call.Args) == 0 {
			continue
		}
		if enc.C.Term(s.Call.Args[0]) == "p0" {
			aliased = true
			r.Bad("C20-T8", enc.Name+": appends to the caller's key", enc.Pos(s.Pos), "append(p0, ...) writes behind the caller's slice when it has spare capacity")
		}
		vals := []string{}
		for _, a := range s.Call.Args[1:] {
			vals = append(vals, enc.C.ConstOf(a))
		}
		if _, inRet := returnsCall(enc, s); inRet {
			n := 0
			for _, v := range vals {
				if v == "0" {
					n++
				}
			}
			if n == len(vals) {
				termLen = n
			}
		} else if len(vals) == 1 && vals[0] != "" && vals[0] != "0" {
			// the escape byte, added when the byte just copied is the terminator byte
			pc := enc.SitePC(s)
			atoms := map[string]*flow.F{}
			pc.Atoms(atoms)
			for _, a := range atoms {
				if a.Cmp != nil && a.Cmp.Op == "==" && (a.Cmp.LConst == "0" || a.Cmp.RConst == "0") && flow.Implies(pc, a).Holds {
					escaped = true
				}
			}
		}
	}
	if !aliased {
		r.Ok("C20-T8", enc.Name+": the index key has storage of its own", enc.Pos(enc.Body.Pos()), "")
	}
	r.Check("C20-T8", enc.Name+": the terminator has at least two bytes and its byte is escaped inside the key", enc.Pos(enc.Body.Pos()), termLen >= 2 && escaped,
		fmt.Sprintf("terminator bytes %d, escape of the terminator byte found: %v (a one-byte terminator makes the index key of k a prefix of the index key of k+0x00)", termLen, escaped))
	// decoder: strips termLen bytes
	strip := -1
	for _, s := range dec.Sites {
		if s.Kind != flow.SStore && s.Kind != flow.SReturn {
			continue
		}
		var e ast.Expr
		if s.Kind == flow.SStore {
			e = s.RHS
		} else if len(s.Ret.Results) == 1 {
			e = s.Ret.Results[0]
		}
		if sl, ok := e.(*ast.SliceExpr); ok && sl.High != nil {
			if be, ok := ast.Unparen(sl.High).(*ast.BinaryExpr); ok && be.Op.String() == "-" {
				if v := dec.C.ConstOf(be.Y); v != "" && strings.HasPrefix(dec.C.Term(be.X), "len(") {
					fmt.Sscan(v, &strip)
				}
			}
		}
	}
	r.Check("C20-T8", dec.Name+": strips exactly the terminator toIndexKey appends", dec.Pos(dec.Body.Pos()), strip == termLen && strip > 0,
		fmt.Sprintf("decoder strips %d byte(s), encoder appends %d", strip, termLen))
}

// returnsCall: the call is the operand of a return statement of u.
func returnsCall(u *an.Unit, call *flow.Site) (*flow.Site, bool) {
	for _, s := range u.Sites {
		if s.Kind == flow.SReturn && len(s.Ret.Results) == 1 && ast.Unparen(s.Ret.Results[0]) == ast.Expr(call.Call) {
			return s, true
		}
	}
	return nil, false
}

func init() {
	old := registry["C20"].Run
	registry["C20"].Run = func(c *Ctx) { old(c); c20T8(c) }
}

// T9: pebble's own iterator bounds. pebble's UpperBound is exclusive; the contract's Max is inclusive unless the right
// end is open. newPebbleIterator extends the bound by one zero byte exactly when the right end is not open and a Max
// is given: the store happens under that condition and under no stronger one (a test against RangeClose alone forgets
// left-open/right-closed ranges: the key equal to Max disappears on pebble only).
func c20T9(c *Ctx) {
	r := c.R
	r.Clause("C20-T9", "pebble's exclusive upper bound is made inclusive exactly when the right end is closed")
	u := c.unit("C20-T9", "engine.newPebbleIterator")
	if u == nil {
		return
	}
	// the extension: a store `B = append(B, 0)` where B holds the upper bound (a local, or the field of the options
	// handed to pebble: either arrangement)
	n := 0
	for _, s := range u.Sites {
		if s.Kind != flow.SStore || s.RHS == nil {
			continue
		}
		lhs := u.C.Term(s.LHS)
		if !strings.Contains(strings.ToLower(lhs), "upperbound") || !strings.HasPrefix(u.C.Term(s.RHS), "append("+lhs) {
			continue
		}
		n++
		r.Check("C20-T9", u.Name+": extended by exactly one zero byte", u.Pos(s.Pos), u.C.Term(s.RHS) == "append("+lhs+", 0)", u.C.Term(s.RHS))
		// the condition, as far as it speaks about the range options and the bound: equivalent to "right end not open and a
		// Max is given" (what else holds there — the engine is open — is the function's precondition)
		pc := u.SitePC(s)
		want := c.W.Parse("!(p1.Type&common.RangeROpen > 0) && " + lhs + " != nil")
		atoms := map[string]*flow.F{}
		pc.Atoms(atoms)
		pre := flow.True()
		for k, a := range atoms {
			if strings.Contains(k, "p1.") || strings.Contains(k, lhs) {
				continue
			}
			if flow.Implies(pc, a).Holds {
				pre = flow.And(pre, a)
			} else if flow.Implies(pc, flow.Not(a)).Holds {
				pre = flow.And(pre, flow.Not(a))
			}
		}
		fw, bw := flow.Implies(pc, want), flow.Implies(flow.And(want, pre), pc)
		ok := fw.Holds && bw.Holds && fw.Undecided == "" && bw.Undecided == ""
		r.Check("C20-T9", u.Name+": the upper bound is extended iff the right end is closed and a Max is given", u.Pos(s.Pos), ok, "pc = "+pc.String())
	}
	r.Min("C20-T9", n, 1, "extension of pebble's upper bound")
	// the bounds handed to pebble come from the options' Min and Max and from nothing else
	for _, f := range []string{"LowerBound", "UpperBound"} {
		src := map[string]string{"LowerBound": "p1.Min", "UpperBound": "p1.Max"}[f]
		vals := map[string]bool{}
		for _, s := range u.Sites {
			if s.Kind == flow.SStore && s.RHS != nil && strings.HasSuffix(u.C.Term(s.LHS), "."+f) {
				v := u.C.Term(s.RHS)
				if ds := u.Match(an.LocalStore(v)); len(ds) > 0 {
					for _, d := range ds {
						if d.RHS != nil {
							vals[u.C.Term(d.RHS)] = true
						}
					}
				} else {
					vals[v] = true
				}
			}
		}
		lits, _ := c.W.PkgLits("engine", "github.com/cockroachdb/pebble.IterOptions")
		for _, l := range lits {
			if l.Func == u.Name && l.Fields[f] != "" {
				vals[l.Fields[f]] = true
			}
		}
		ok := len(vals) > 0
		for v := range vals {
			if v != src && !strings.HasPrefix(v, "append(") {
				ok = false
			}
		}
		r.Check("C20-T9", u.Name+": pebble's "+f+" is the range's "+src, "", ok, fmt.Sprint(vals))
	}
}

func init() {
	old := registry["C20"].Run
	registry["C20"].Run = func(c *Ctx) { old(c); c20T9(c) }
}
