package props

import (
	"fmt"
	"go/ast"
	"go/token"
	"go/types"
	"sort"
	"strings"

	"verif/internal/an"
	"verif/internal/flow"
	"verif/internal/load"
)

func init() {
	register(&Property{
		ID:        "C10",
		Technique: "static analysis: typestate over the labelled CFG (an old value obtained together with its Expired witness may not be content-read on a path where the witness holds unless it was reset), sibling agreement of the data-type case tables of the expiry operations, guard implication by truth table on the background-deletion conditions, value provenance of overwrite vs modify headers",
		Explanation: "Decides: (X1) in every write command that obtains the old KV value together with keyInfo.Expired, no content read of the old value (append, copy, slicing, length arithmetic, parsing, use as stored value) is reachable on a path where Expired holds unless the value was reset to nil on that path; (X2) the ten per-type expiry operations of the value-header policy handle the same set of data types {Hash, KV, Set, Bitmap, List, ZSet}; (X4) whole-value overwrites build the stored value with a fresh header (resetWithNewKVValue) while modifying commands re-encode with the old header, and PERSIST clears the expiry; (X5) background deletion is never early: the TTL checker emits a key only when its stored time is not after now, lazy physical removal requires ExpireAt + grace < now, stale-generation removal requires a differing (or missing) generation.",
		NotDecided: "TTL second-rounding, compaction timing, version-key collisions for two renewals in the same nanosecond, local-deletion races, collections' element-level visibility across generations (iterator behaviour), X3 (which clock reaches isExpired) is decided under C07.",
		Assumptions: []string{"a comparison with nil is not a content read", "a content read inside a branch condition is harmless when, under Expired, the branch outcome does not depend on it (decided by truth table)"},
		Run: runC10,
	})
}

func runC10(c *Ctx) {
	r := c.R
	r.Clause("C10-X1", "no write builds on expired content")
	r.Clause("C10-X2", "every data type is covered by every expiry operation")
	r.Clause("C10-X4", "overwrite clears the TTL, modify keeps it")
	r.Clause("C10-X5", "background deletion is never early")
	c10x1(c)
	c10x2(c)
	c10x4(c)
	c10x5(c)
	c10x6(c)
}

// X6: the expiry predicate itself and the guards of the TTL-changing commands
func c10x6(c *Ctx) {
	r := c.R
	r.Clause("C10-X6", "a key is expired exactly from its expiry second on; TTL changes never apply to an expired or absent key")
	// X1 (renewal): a key that is absent or expired gets a fresh generation on the write path, whatever its old header
	// said: every return of renewOnExpired for the six compacted data types is preceded by the three resets
	if u := c.unit("C10-X1", "rockredis.(*compactExpiration).renewOnExpired"); u != nil {
		six := "p1 == rockredis.KVType || p1 == rockredis.HashType || p1 == rockredis.SetType || p1 == rockredis.BitmapType || p1 == rockredis.ListType || p1 == rockredis.ZSetType"
		ret := an.Return().Where("for a compacted data type with a header", func(u *an.Unit, s *an.Site) bool {
			pc := u.SitePC(s)
			return !flow.Implies(pc, c.W.Parse("nil == p3")).Holds && !flow.Implies(pc, c.W.Parse("!("+six+")")).Holds
		})
		for _, f := range []struct{ field, val string }{
			{"rockredis.headerMetaValue.ValueVersion", "p0"},
			{"rockredis.headerMetaValue.ExpireAt", "0"},
			{"rockredis.headerMetaValue.UserData", "nil"},
		} {
			r.Order("C10-X1", u, ret, []an.M{an.Store(f.field)}, an.OrderOpts{Min: 1})
			r.StoreValues("C10-X1", u, an.Store(f.field), []string{f.val}, 1)
		}
	}
	// the write path asks for the renewal whenever the key is absent or expired, before it derives the versioned key
	if u := c.unit("C10-X1", "rockredis.(*RockDB).prepareCollKeyForWrite"); u != nil {
		ren := an.Call("rockredis.expiration.renewOnExpired")
		r.Order("C10-X1", u, an.Call("rockredis.expiration.encodeToVersionKey"), []an.M{ren}, an.OrderOpts{Assume: "keyInfo.IsNotExistOrExpired()", Min: 1})
		r.ArgValues("C10-X1", u, ren, 3, []string{"keyInfo.OldHeader", "p3.OldHeader"}, 1)
		r.ArgValues("C10-X1", u, ren, 0, []string{"p0"}, 1)
	}
	retIs := func(v string) func(u *an.Unit, s *an.Site) bool {
		return func(u *an.Unit, s *an.Site) bool { return len(s.Ret.Results) > 0 && u.C.Term(s.Ret.Results[0]) == v }
	}
	if u := c.unit("C10-X6", "rockredis.(*headerMetaValue).isExpired"); u != nil {
		n := 0
		for _, s := range u.Sites {
			if s.Kind != flow.SReturn || !s.Block.Reachable() {
				continue
			}
			n++
			if retIs("false")(u, s) {
				r.GuardSite("C10-X6", u, s, c.W.Parse("recv.Ver != 1 || recv.ExpireAt == 0 || p0 == 0"), "not expiring: no V1 header, no expiry set, or no timestamp")
				continue
			}
			got := u.C.Formula(flow.FromExpr(s.Ret.Results[0]))
			want := c.W.Parse("int64(recv.ExpireAt) <= p0/1000000000")
			a, b := flow.Implies(got, want), flow.Implies(want, got)
			ok := a.Holds && b.Holds && a.Undecided == "" && b.Undecided == ""
			r.Check("C10-X6", u.Name+": expired iff ExpireAt <= log time in seconds", u.Pos(s.Pos), ok, "returned: "+got.String())
		}
		r.Min("C10-X6", n, 3, u.Name+": return statements")
	}
	for _, fn := range []string{"rockredis.(*RockDB).collExpire", "rockredis.(*RockDB).collPersist"} {
		if u := c.unit("C10-X6", fn); u != nil {
			r.Guard("C10-X6", u, an.Call("rockredis.expiration.ExpireAt", "rockredis.(*RockDB).ExpireAt"), "!expired && err == nil && oldh.UserData != nil", an.GuardOpts{Min: 1})
			hm := u.Match(an.Call("rockredis.(*RockDB).collHeaderMeta"))
			r.Check("C10-X6", fn+": expiry evaluated against the log timestamp, without the read lock", "", len(hm) == 1 && u.ArgTerm(hm[0], 0) == "p0" && u.ArgTerm(hm[0], 3) == "false", "")
		}
	}
	for _, fn := range []string{"rockredis.(*RockDB).Expire", "rockredis.(*RockDB).Persist"} {
		if u := c.unit("C10-X6", fn); u != nil {
			r.Guard("C10-X6", u, an.Call("rockredis.expiration.ExpireAt", "rockredis.(*RockDB).ExpireAt"), "!expired && err == nil && v != nil", an.GuardOpts{Min: 1})
			g := u.Match(an.Call("rockredis.(*RockDB).getRawDBKVValue"))
			r.Check("C10-X6", fn+": expiry evaluated against the log timestamp", "", len(g) == 1 && u.ArgTerm(g[0], 0) == "p0", "")
		}
	}
	if u := c.unit("C10-X6", "rockredis.(*RockDB).collPersist"); u != nil {
		r.ArgValues("C10-X6", u, an.Call("rockredis.expiration.ExpireAt", "rockredis.(*RockDB).ExpireAt"), 3, []string{"0"}, 1)
	}
	if u := c.unit("C10-X6", "rockredis.(*RockDB).Persist"); u != nil {
		r.ArgValues("C10-X6", u, an.Call("rockredis.expiration.ExpireAt", "rockredis.(*RockDB).ExpireAt"), 3, []string{"0"}, 1)
	}
	if u := c.unit("C10-X6", "rockredis.(*RockDB).collHeaderMeta"); u != nil {
		ie := an.AnyCall().Where("isExpired", func(u *an.Unit, s *an.Site) bool { return strings.HasSuffix(an.CalleeName(s), "expiration.isExpired") })
		r.ArgValues("C10-X6", u, ie, 0, []string{"p0"}, 1)
		r.ArgValues("C10-X6", u, ie, 3, []string{"v"}, 1)
	}
}

func c10x1(c *Ctx) {
	r := c.R
	getters := an.Call("rockredis.(*RockDB).prepareKVValueForWrite", "rockredis.(*RockDB).getDBKVRealValueAndHeader")
	n := 0
	for _, fn := range c.P.Funcs() {
		if load.ShortPkg(fn.Pkg.PkgPath) != "rockredis" || fn.Decl.Body == nil {
			continue
		}
		u, err := c.W.Unit(fn.Name)
		if err != nil {
			continue
		}
		info := u.Info()
		for _, g := range u.Match(getters) {
			if an.CalleeName(g) == "rockredis.(*RockDB).getDBKVRealValueAndHeader" && u.ArgTerm(g, 2) != "false" {
				continue // read path (uses the lock and the local clock); not a write building on old data
			}
			// the tuple assignment keyInfo, realV, err := getter(...)
			node, ok := g.Block.Nodes[g.NodeIdx].(*ast.AssignStmt)
			if !ok || len(node.Lhs) != 3 || len(node.Rhs) != 1 || ast.Unparen(node.Rhs[0]) != ast.Expr(g.Call) {
				if u.Name == "rockredis.(*RockDB).prepareKVValueForWrite" {
					continue
				}
				r.Unknown("C10-X1", u.Name+": result of "+an.CalleeName(g)+" is not bound by a 3-variable assignment", u.Pos(g.Pos), "unrecognised call shape")
				continue
			}
			kid, _ := node.Lhs[0].(*ast.Ident)
			vid, _ := node.Lhs[1].(*ast.Ident)
			if vid == nil || vid.Name == "_" {
				continue // old value not used at all
			}
			if kid == nil || kid.Name == "_" {
				r.Bad("C10-X1", u.Name+": old value taken without its expiry witness", u.Pos(g.Pos), "")
				continue
			}
			n++
			vobj := info.ObjectOf(vid)
			witness := u.C.Term(kid) + ".Expired"
			var targets []*flow.Site
			for _, use := range flow.VarUses(u.G, info, vobj) {
				if !use.Block.Reachable() || !isContentRead(u, use, witness) {
					continue
				}
				targets = append(targets, use)
			}
			if len(targets) == 0 {
				r.Ok("C10-X1", u.Name+": old value "+vid.Name+" is only compared with nil", u.Pos(g.Pos), "")
				continue
			}
			reset := an.LocalStore(vid.Name).Where("= nil", func(u *an.Unit, s *an.Site) bool {
				if s.RHS == nil {
					return false
				}
				id, ok := ast.Unparen(s.RHS).(*ast.Ident)
				return ok && id.Name == "nil"
			})
			r.OrderSites("C10-X1", u, targets, func(s *flow.Site) string {
				return "content read of old value " + vid.Name + " (" + useContext(u, s) + ")"
			}, []an.M{reset}, an.OrderOpts{Assume: witness})
		}
	}
	r.Min("C10-X1", n, 8, "write commands obtaining the old KV value with its expiry witness")
}

// isContentRead classifies a use of the old value. Not content reads: comparison with nil; a use
// inside a branch condition whose outcome, under the witness, does not depend on the atom holding
// the use.
func isContentRead(u *an.Unit, use *flow.Site, witness string) bool {
	if len(use.Parents) > 0 {
		if be, ok := use.Parents[len(use.Parents)-1].(*ast.BinaryExpr); ok && (be.Op == token.EQL || be.Op == token.NEQ) {
			other := be.X
			if ast.Unparen(be.X) == ast.Expr(use.Use) {
				other = be.Y
			}
			if id, ok := ast.Unparen(other).(*ast.Ident); ok && id.Name == "nil" {
				return false
			}
		}
	}
	// use inside a condition node: masked by the witness?
	if cond, ok := use.Block.Nodes[use.NodeIdx].(ast.Expr); ok && len(use.Block.Succs) == 2 {
		f := u.C.Formula(flow.FromExpr(cond))
		atoms := map[string]*flow.F{}
		f.Atoms(atoms)
		// the atom containing the use: find the smallest enclosing boolean atom by printing parents
		var atomKey string
		for i := len(use.Parents) - 1; i >= 0; i-- {
			if e, ok := use.Parents[i].(ast.Expr); ok {
				k := u.C.Formula(flow.FromExpr(e))
				if k.Op == flow.OpAtom {
					if _, ok := atoms[k.Key]; ok {
						atomKey = k.Key
						break
					}
				}
				if k.Op == flow.OpNot && k.Kids[0].Op == flow.OpAtom {
					if _, ok := atoms[k.Kids[0].Key]; ok {
						atomKey = k.Kids[0].Key
						break
					}
				}
			}
		}
		if atomKey != "" {
			w := u.W.Parse(witness)
			ft := substAtom(f, atomKey, flow.True())
			ff := substAtom(f, atomKey, flow.False())
			same := flow.Or(flow.And(ft, ff), flow.And(flow.Not(ft), flow.Not(ff)))
			if res := flow.Implies(w, same); res.Holds && res.Undecided == "" {
				return false
			}
		}
	}
	return true
}

func substAtom(f *flow.F, key string, v *flow.F) *flow.F {
	switch f.Op {
	case flow.OpAtom:
		if f.Key == key {
			return v
		}
		return f
	case flow.OpNot:
		return flow.Not(substAtom(f.Kids[0], key, v))
	case flow.OpAnd, flow.OpOr:
		var ks []*flow.F
		for _, k := range f.Kids {
			ks = append(ks, substAtom(k, key, v))
		}
		if f.Op == flow.OpAnd {
			return flow.And(ks...)
		}
		return flow.Or(ks...)
	}
	return f
}

func useContext(u *an.Unit, s *flow.Site) string {
	for i := len(s.Parents) - 1; i >= 0; i-- {
		switch p := s.Parents[i].(type) {
		case *ast.CallExpr:
			return "in " + clipS(u.C.Term(p), 60)
		case *ast.SliceExpr, *ast.IndexExpr, *ast.BinaryExpr:
			return "in " + clipS(u.C.Term(p.(ast.Expr)), 60)
		}
	}
	return "direct"
}

func clipS(s string, n int) string {
	if len(s) > n {
		return s[:n] + "…"
	}
	return s
}

// ---- X2

func c10x2(c *Ctx) {
	r := c.R
	want := []string{"rockredis.BitmapType", "rockredis.HashType", "rockredis.KVType", "rockredis.ListType", "rockredis.SetType", "rockredis.ZSetType"}
	// frozen difference: KV values have no version key (their generation is the value itself)
	noKV := map[string]bool{"rockredis.(*compactExpiration).encodeToVersionKey": true, "rockredis.(*compactExpiration).decodeFromVersionKey": true}
	n := 0
	for _, fn := range c.P.Funcs() {
		if load.ShortPkg(fn.Pkg.PkgPath) != "rockredis" || fn.Decl.Body == nil || !strings.Contains(fn.Name, "(*compactExpiration)") {
			continue
		}
		u, err := c.W.Unit(fn.Name)
		if err != nil {
			continue
		}
		for _, sw := range u.Switches("") {
			if !isDataTypeTag(u, sw) {
				continue
			}
			n++
			var allowMissing []string
			if noKV[fn.Name] {
				allowMissing = []string{"rockredis.KVType"}
			}
			r.SetEq("C10-X2", fn.Name+": data types handled under the value-header policy (switch "+sw.Tag+")", u.Pos(sw.Pos), sw.Labels, want, allowMissing, nil)
		}
	}
	r.Min("C10-X2", n, 11, "data-type switches in the compactExpiration methods")
	// the meta-key mapping used by the compaction filter and the expiry code covers the collection types
	for _, fn := range []string{"rockredis.encodeMetaKey"} {
		if u := c.unit("C10-X2", fn); u != nil {
			for _, sw := range u.Switches("") {
				if isDataTypeTag(u, sw) {
					r.SetEq("C10-X2", fn+": every data type maps to a meta key", u.Pos(sw.Pos), sw.Labels, want, nil,
						[]string{"rockredis.HSizeType", "rockredis.SSizeType", "rockredis.BitmapMetaType", "rockredis.LMetaType", "rockredis.ZSizeType", "rockredis.ZScoreType"})
					r.Check("C10-X2", fn+": unknown data type is rejected", u.Pos(sw.Pos), u.DefaultReturnsError(sw), "")
				}
			}
		}
	}
}

func isDataTypeTag(u *an.Unit, sw *an.SwitchInfo) bool {
	// the tag is of the package's byte type used for data types and labels are *Type constants
	for _, l := range sw.Labels {
		if !strings.HasSuffix(l, "Type") || !strings.HasPrefix(l, "rockredis.") {
			return false
		}
	}
	return len(sw.Labels) > 0
}

// ---- X4

func c10x4(c *Ctx) {
	r := c.R
	// whole-value overwrites go through resetWithNewKVValue (fresh header, old expire meta removed)
	for _, fn := range []string{"rockredis.(*RockDB).setKV", "rockredis.(*RockDB).KVGetSet", "rockredis.(*RockDB).KVSetWithOpts", "rockredis.(*RockDB).SetIfEQ"} {
		u := c.unit("C10-X4", fn)
		if u == nil {
			continue
		}
		put := an.Call("engine.WriteBatch.Put")
		r.Order("C10-X4", u, put, []an.M{an.Call("rockredis.(*RockDB).resetWithNewKVValue")}, an.OrderOpts{Min: 1})
	}
	if u := c.unit("C10-X4", "rockredis.(*RockDB).resetWithNewKVValue"); u != nil {
		// fresh header: decoded from nil, not from the stored value
		dec := an.Call("rockredis.*.decodeRawValue", "rockredis.(*).decodeRawValue")
		dec = an.AnyCall().Where("decodeRawValue", func(u *an.Unit, s *an.Site) bool { return strings.HasSuffix(an.CalleeName(s), ".decodeRawValue") })
		r.ArgValues("C10-X4", u, dec, 1, []string{"nil"}, 1)
		// no TTL requested => the expiry is cleared; TTL requested => set from the log timestamp
		del := an.AnyCall().Where("delExpire", func(u *an.Unit, s *an.Site) bool { return strings.HasSuffix(an.CalleeName(s), ".delExpire") })
		r.Guard("C10-X4", u, del, "p3 <= 0", an.GuardOpts{Min: 1})
		exp := an.AnyCall().Where("rawExpireAt", func(u *an.Unit, s *an.Site) bool { return strings.HasSuffix(an.CalleeName(s), ".rawExpireAt") })
		r.ArgValues("C10-X4", u, exp, 3, []string{"((p0 / 1000000000) + p3)"}, 1)
	}
	// modifying commands re-encode with the header that was read
	for _, fn := range []string{"rockredis.(*RockDB).incr", "rockredis.(*RockDB).Append", "rockredis.(*RockDB).SetRange", "rockredis.(*RockDB).BitSetOld"} {
		u := c.unit("C10-X4", fn)
		if u == nil {
			continue
		}
		r.ArgValues("C10-X4", u, an.Call("rockredis.(*RockDB).encodeRealValueToDBRawValue"), 1, []string{"keyInfo.OldHeader"}, 1)
		r.Order("C10-X4", u, an.Call("engine.WriteBatch.Put"), []an.M{an.Call("rockredis.(*RockDB).encodeRealValueToDBRawValue")}, an.OrderOpts{Min: 1})
	}
}

// ---- X5

func c10x5(c *Ctx) {
	r := c.R
	retIs := func(v string) func(u *an.Unit, s *an.Site) bool {
		return func(u *an.Unit, s *an.Site) bool { return len(s.Ret.Results) > 0 && u.C.Term(s.Ret.Results[0]) == v }
	}
	if u := c.unit("C10-X5", "rockredis.(*rockCompactFilter).lazyExpireCheck"); u != nil {
		r.Returns("C10-X5", u, []an.ReturnClass{
			{Name: "remove", Match: retIs("true"),
				Guard: "p0.ExpireAt != 0 && rockredis.minExpiredPossible < p0.ExpireAt && rockredis.lazyCleanExpired.Nanoseconds()/1000000000 + int64(p0.ExpireAt) < ts"},
			{Name: "keep", Match: retIs("false")},
		}, 4)
		// the clock compared against is the local wall clock in seconds (cached, refreshed from time.Now)
		r.StoreValues("C10-X5", u, an.LocalStore("ts"), []string{"atomic.LoadInt64(&recv.cachedTimeSec)", "time.Now().Unix()"}, 2)
	}
	if u := c.unit("C10-X5", "rockredis.(*rockCompactFilter).Filter"); u != nil {
		r.Returns("C10-X5", u, []an.ReturnClass{
			{Name: "through the lazy expiry check", Match: an.LastResultNil, Guard: ""},
		}, 0)
		for _, s := range u.Match(an.Return().Where("remove", retIs("true"))) {
			// stale generation: version set, long past, and the meta is gone or names another generation
			r.GuardSite("C10-X5", u, s, c.W.Parse("ver != 0 && !(ver + rockredis.lazyCleanExpired.Nanoseconds() >= ts * 1000000000) && (metav == nil || h_2.ValueVersion != ver)"),
				"stale generation long past its time and superseded")
		}
		r.Min("C10-X5", len(u.Match(an.Return().Where("remove", retIs("true")))), 2, "Filter: removal returns")
		lz := u.Match(an.Call("rockredis.(*rockCompactFilter).lazyExpireCheck"))
		r.Min("C10-X5", len(lz), 2, "Filter: lazyExpireCheck calls")
	}
	if u := c.unit("C10-X5", "rockredis.(*TTLChecker).check"); u != nil {
		w := u.Match(an.AnyCall().Where("expired buffer write", func(u *an.Unit, s *an.Site) bool { return strings.HasSuffix(an.CalleeName(s), "expiredMetaBuffer.Write") }))
		r.Min("C10-X5", len(w), 1, "TTLChecker.check: writes to the expired-data buffer")
		for _, s := range w {
			r.GuardSite("C10-X5", u, s, c.W.Parse("!(now < nt)"), "stored expiry time not after now")
		}
		r.StoreValues("C10-X5", u, an.LocalStore("now"), []string{"time.Now().Unix()"}, 1)
		nt := u.Match(an.LocalStore("nt"))
		ok := len(nt) == 1 && nt[0].Tuple != nil && u.C.Term(nt[0].Tuple) == "rockredis.expDecodeTimeKey(tk)"
		r.Check("C10-X5", "rockredis.(*TTLChecker).check: the compared time is decoded from the time-index key", "", ok, "")
	}
	_ = fmt.Sprint
	_ = sort.Strings
	_ = types.Typ
}

// X7: a write command that reads old content through an accessor with a `checkExpired` switch must switch it on:
// read with the switch off, the field of a hash that expired at or before the log timestamp is taken for live content
// and carried into the new generation (HINCRBY continues counting from the dead value). The accessors are found by
// their declaration (a bool parameter named checkExpired in package rockredis); a caller is a write command when it
// puts into, or commits, a write batch.
func c10X7(c *Ctx) {
	r := c.R
	r.Clause("C10-X7", "write commands read old content with the expiry check switched on")
	type acc struct {
		name string
		idx  int
	}
	var accs []acc
	for _, fn := range c.P.Funcs() {
		if load.ShortPkg(fn.Pkg.PkgPath) != "rockredis" || fn.Decl.Type.Params == nil {
			continue
		}
		i := 0
		for _, f := range fn.Decl.Type.Params.List {
			for _, n := range f.Names {
				if n.Name == "checkExpired" {
					accs = append(accs, acc{fn.Name, i})
				}
				i++
			}
			if len(f.Names) == 0 {
				i++
			}
		}
	}
	r.Min("C10-X7", len(accs), 1, "accessors with a checkExpired switch")
	n := 0
	for _, a := range accs {
		for _, sw := range c.W.AllSites(an.Call(a.name), "", []string{"rockredis"}) {
			u := sw.U
			if len(u.Match(an.Call("engine.WriteBatch.Put", "rockredis.(*RockDB).MaybeCommitBatch", "rockredis.(*RockDB).CommitBatchWrite", "engine.KVEngine.Write"))) == 0 {
				continue // a reader
			}
			n++
			v := u.ArgTerm(sw.S, a.idx)
			r.Check("C10-X7", u.Name+": reads through "+a.name+" with the expiry check on", u.Pos(sw.S.Pos), v == "true", "checkExpired = "+v)
		}
	}
	r.Min("C10-X7", n, 1, "write commands reading through such an accessor")
}

func init() {
	old := registry["C10"].Run
	registry["C10"].Run = func(c *Ctx) { old(c); c10X7(c) }
}
