package props

import (
	"fmt"
	"go/ast"
	"go/types"
	"sort"
	"strings"

	"verif/internal/an"
	"verif/internal/flow"
)

func init() {
	register(&Property{
		ID:          "C07",
		Technique:   "static analysis: inter-procedural dependence summaries (data and control dependence on clock/random sources, relative to parameters) over the registry-resolved apply handlers and everything they call; ORDER/GUARD rules on the batch cut in ApplyRaftRequest; idiom classification of map iterations on the apply path",
		Explanation: "Decides: (T1) on the synchronous apply path (every registered apply handler, ApplyRaftRequest, the batch operator, custom/schema requests, and all module functions they reach through static calls and interface implementations, go statements not followed) no value that depends on the local clock, a random source or process identity reaches a write-batch operation, a decision that controls one, the handler's reply, or the reply handed to the waiting client; (T2) a command that is not batchable is preceded by a commit of the open batch, a key is batched at most once per batch, non-redis requests commit the batch first; (T3) every map iteration on the apply path is order-insensitive by idiom. T1 also pins the one replica-local cache on the apply path: PFADD raises its reply only when the sketch accepted an element or no stored sketch exists (never merely because the sketch was not cached). T2 also requires that every batchable command hands the store exactly the key registered for the duplicate check (cmd.Args[1]), unless IsBatchable refuses its multi-key form.",
		NotDecided:  "engine-level nondeterminism inside pebble/rocksdb, float formatting, agreement of different engines (C20), leader-vs-follower differences that are not clock/order related, whether the batchable commands only read state of their own key.",
		Assumptions: []string{"dependence is tracked per variable (flow-insensitive inside a function) and per struct field for clock-derived values; calls outside the module return values that depend on their arguments only, except the listed sources (time.Now/Since/Until, math/rand, crypto/rand, os.Getpid/Hostname, runtime.NumGoroutine)", "goroutines started on the apply path are not followed (listed in the evidence)", "logging, metrics and slow-log calls have no effect on data"},
		Run:         runC07,
	})
}

func runC07(c *Ctx) {
	r := c.R
	r.Clause("C07-T1", "no clock/random-dependent value reaches stored data, a decision controlling a store, or a reply on the apply path")
	applies, err := c.W.Registrations("node.(*kvStoreSM).registerHandlers")
	if err != nil {
		r.Unknown("C07-T1", "registry of kvStoreSM.registerHandlers", "", err.Error())
		return
	}
	type entry struct {
		name    string
		u       *an.Unit
		handler bool
	}
	var entries []entry
	var units []*an.Unit
	for _, a := range applies {
		if a.Kind != "RegisterInternal" {
			continue
		}
		entries = append(entries, entry{"command " + a.Name, a.Unit, true})
		units = append(units, a.Unit)
	}
	r.Min("C07-T1", len(entries), 60, "registered apply handlers")
	for _, fn := range []string{"node.(*kvStoreSM).ApplyRaftRequest", "node.(*kvbatchOperator).CommitBatch", "node.(*kvbatchOperator).AbortBatchForError",
		"node.(*kvbatchOperator).BeginBatch", "node.(*kvbatchOperator).IsBatchable"} {
		if u := c.unit("C07-T1", fn); u != nil {
			entries = append(entries, entry{fn, u, false})
			units = append(units, u)
		}
	}
	cf := &an.ClockFlow{W: c.W, Skip: map[string]string{
		"node.(*kvStoreSM).handleCustomRequest": "custom requests (delete-range, remote backup transfer, schema/index changes) are not data commands; the property is stated for data commands",
	}}
	cf.Run(units)
	c07cf = cf
	r.Note("C07-T1: %d module functions reached from %d entry points; %d clock/random source call sites seen; %d go statements not followed", cf.Reached(), len(entries), len(cf.Sources), len(cf.Cuts))
	r.Min("C07-T1", cf.Reached(), 300, "functions reachable from the apply entry points")
	for _, e := range entries {
		s := cf.Sum[e.u.Name]
		if s == nil {
			r.Unknown("C07-T1", e.name+": no summary", "", "")
			continue
		}
		construct := fmt.Sprintf("%s (%s): stored data and controlling decisions are independent of clock/random sources", e.name, e.u.Name)
		r.Check("C07-T1", construct, e.u.Pos(e.u.Body.Pos()), s.Sink&an.SRC == 0, "clock-dependent value reaches a store: "+s.SinkWhy)
		if e.handler {
			bad := false
			for _, d := range s.Res {
				if d&an.SRC != 0 {
					bad = true
				}
			}
			r.Check("C07-T1", fmt.Sprintf("%s (%s): the reply is independent of clock/random sources", e.name, e.u.Name), e.u.Pos(e.u.Body.Pos()), !bad, s.ResWhy)
		}
	}
	// evidence: fields that carry clock-derived values, sources, cuts
	var fs []string
	for f, why := range cf.FieldSRC {
		fs = append(fs, c.W.FieldNames[f]+" <- "+why)
	}
	sort.Strings(fs)
	r.Note("C07-T1 clock-derived struct fields (%d): %s", len(fs), strings.Join(fs, "; "))
	for fn, why := range cf.Skip {
		r.Note("C07-T1 not followed: %s — %s", fn, why)
	}
	r.Note("C07-T1 go statements not followed: %s", strings.Join(cf.Cuts, "; "))
	r.Note("C07-T1 source sites: %s", strings.Join(cf.SortedSources(), "; "))
}

func init() {
	old := registry["C07"].Run
	registry["C07"].Run = func(c *Ctx) { old(c); c07T2(c) }
}

// T2: the batch cut. What a command reads must not depend on how entries were grouped into apply batches.
func c07T2(c *Ctx) {
	r := c.R
	r.Clause("C07-T2", "a batch is cut before a repeated key or a non-batchable command; a failed command leaves nothing in the shared batch")
	if u := c.unit("C07-T2", "node.(*kvStoreSM).ApplyRaftRequest"); u != nil {
		h := an.DynCall("h")
		commit := an.Call("node.IBatchOperator.CommitBatch")
		// every path to the handler passes a commit of the open batch or the "batchable" decision
		r.Order("C07-T2", u, h, []an.M{commit, an.Edge("p1.IsBatchable(_)")}, an.OrderOpts{Min: 1})
		ib := u.Match(an.Call("node.IBatchOperator.IsBatchable"))
		ok := len(ib) == 1 && u.ArgTerm(ib[0], 0) == "cmdName" && u.ArgTerm(ib[0], 2) == "cmd.Args"
		r.Check("C07-T2", "ApplyRaftRequest: batchability is decided on the command name and its full argument list", "", ok, "")
		r.StoreValues("C07-T2", u, an.LocalStore("cmdName"), []string{"strings.ToLower(string(cmd.Args[0]))"}, 1)
		// the key is recorded before the handler runs whenever a batch is open
		r.Order("C07-T2", u, h, []an.M{an.Call("node.IBatchOperator.AddBatchKey")}, an.OrderOpts{Assume: "p1.IsBatched() && cmd.Args[1] != nil", Min: 1})
		// requests that are not redis commands cut the batch first
		r.Order("C07-T2", u, an.Call("node.(*kvStoreSM).handleCustomRequest"), []an.M{commit}, an.OrderOpts{Min: 1})
		// replies of batched commands are released only by the batch commit/abort
		r.Guard("C07-T2", u, an.Call("node.IBatchOperator.AddBatchRsp"), "p1.IsBatched()", an.GuardOpts{Min: 1})
	}
	if u := c.unit("C07-T2", "node.(*kvbatchOperator).IsBatchable"); u != nil {
		r.Returns("C07-T2", u, []an.ReturnClass{
			{Name: "batchable", Match: func(u *an.Unit, s *an.Site) bool { return u.C.Term(s.Ret.Results[0]) == "true" },
				Guard: "rockredis.IsBatchableWrite(p0) && len(recv.batchReqIDList) < node.maxDBBatchCmdNum && !ok && !(p0 == \"del\" && 2 < len(p2))"},
			{Name: "cut", Match: func(u *an.Unit, s *an.Site) bool { return u.C.Term(s.Ret.Results[0]) == "false" }},
		}, 2)
		okDef := u.Match(an.LocalStore("ok"))
		r.Check("C07-T2", "IsBatchable: the duplicate test looks the command's key up in the keys of the open batch", "",
			len(okDef) == 1 && okDef[0].Tuple != nil && u.C.Term(okDef[0].Tuple) == "recv.dupCheckMap[p1]", "")
	}
	// T1 (cache residency): the HLL cache is replica-local volatile state (it is emptied by restarts and evictions that
	// are not in the log). PFADD's reply must not depend on whether the sketch happened to be cached: `changed` is raised
	// only when the sketch accepted an element or when no stored sketch exists
	if u := c.unit("C07-T1", "rockredis.(*RockDB).PFAdd"); u != nil {
		n := 0
		for _, s := range u.Match(an.LocalStore("changed")) {
			if s.RHS == nil || u.C.Term(s.RHS) != "true" {
				continue
			}
			n++
			r.GuardSite("C07-T1", u, s, c.W.Parse("added || nil == oldV"), "the sketch accepted an element, or there is no stored sketch")
		}
		r.Min("C07-T1", n, 2, "PFAdd: places where the reply becomes 1")
		r.StoreValues("C07-T1", u, an.LocalStore("added"), []string{"TUPLE p3.addCount(recv.hasher64, p2...) #0", "TUPLE item.addCount(recv.hasher64, p2...) #0"}, 0)
	}
	// a failed command leaves nothing in the shared batch: AbortBatch clears the store's write batch unconditionally
	// (also when no batch is open: an unbatched command that failed half way has staged writes too)
	c07AbortClears(c, "C07-T2")
	// every key a batchable command writes is covered by the duplicate check: the check registers cmd.Args[1] only, so
	// the apply handler of a batchable command hands exactly that key to the store, unless IsBatchable refuses the
	// command's multi-key form
	c07BatchableKeys(c)
	if u := c.unit("C07-T2", "node.(*kvbatchOperator).AddBatchKey"); u != nil {
		r.StoreValues("C07-T2", u, an.StoreElem("node.kvbatchOperator.dupCheckMap"), []string{"true"}, 1)
	}
	for _, fn := range []string{"node.(*kvbatchOperator).CommitBatch", "node.(*kvbatchOperator).AbortBatchForError"} {
		if u := c.unit("C07-T2", fn); u != nil {
			// the key set is emptied together with the batch
			r.StoreValues("C07-T2", u, an.StorePlain("node.kvbatchOperator.dupCheckMap"), []string{"make(map[string]bool)"}, 1)
		}
	}
	if u := c.unit("C07-T2", "node.(*KVNode).applyEntries"); u != nil {
		// the batch never spans two Readys: it is committed at the end of every applyEntries
		r.Order("C07-T2", u, an.Return().Where("after the loop", func(u *an.Unit, s *an.Site) bool {
			return len(s.Ret.Results) == 2 && u.C.Term(s.Ret.Results[0]) != "false"
		}),
			[]an.M{an.Call("node.IBatchOperator.CommitBatch")}, an.OrderOpts{Assume: "batch != nil", Min: 1})
	}
	// leftovers of a failed command would be committed by the next write on a running replica but lost on a
	// restarted one: same obligations as C11-A3(i)
	sub := an.NewReport("C07")
	c11A3(&Ctx{P: c.P, W: c.W, R: sub, Tier: c.Tier})
	for _, ob := range sub.Obligations {
		if ob.Rule != "C11-A3" || !(strings.Contains(ob.Construct, "AbortBatchForError") || strings.Contains(ob.Construct, "ApplyRaftRequest") || strings.Contains(ob.Construct, "IsNeedAbortError")) {
			continue
		}
		switch ob.Status {
		case "ok":
			r.Ok("C07-T2", ob.Construct, ob.Pos, ob.Detail)
		case "VIOLATION":
			r.Bad("C07-T2", ob.Construct, ob.Pos, ob.Detail)
		default:
			r.Unknown("C07-T2", ob.Construct, ob.Pos, ob.Detail)
		}
	}
}

func init() {
	old := registry["C07"].Run
	registry["C07"].Run = func(c *Ctx) { old(c); c07T3(c) }
}

var c07cf *an.ClockFlow

// T3: map iterations on the apply path must be order-insensitive.
func c07T3(c *Ctx) {
	r := c.R
	r.Clause("C07-T3", "every map iteration on the apply path is order-insensitive by idiom")
	if c07cf == nil {
		return
	}
	n := 0
	for _, name := range c07cf.ReachedNames() {
		u, err := c.W.Unit(name)
		if err != nil {
			continue
		}
		for _, uu := range append([]*an.Unit{u}, u.Lits()...) {
			for _, s := range uu.Match(an.M{}.Range()) {
				t := uu.Info().TypeOf(s.Rng.X)
				if t == nil {
					continue
				}
				if _, isMap := t.Underlying().(*types.Map); !isMap {
					continue
				}
				n++
				kind, ok := an.MapRangeIdiom(uu, s.Rng, c07cf)
				if why, ex := mapRangeExceptions[uu.Name]; ex && !ok {
					kind, ok = "exception: "+why, true
				}
				r.Check("C07-T3", fmt.Sprintf("%s: range over map %s", uu.Name, uu.C.Term(s.Rng.X)), uu.Pos(s.Pos), ok, kind)
			}
		}
	}
	r.Note("C07-T3: %d map iterations in the functions reached from the apply entry points", n)
}

// one named symbol per exception, with the reason
var mapRangeExceptions = map[string]string{
	"rockredis.(*TableIndexContainer).marshalHsetIndexes": "the serialized index list is read back into a map keyed by index name (unmarshalHsetIndexes); its order is not observable through any data command",
}

func c07BatchableKeys(c *Ctx) {
	r := c.R
	applies, err := c.W.Registrations("node.(*kvStoreSM).registerHandlers")
	if err != nil {
		r.Unknown("C07-T2", "registry of kvStoreSM.registerHandlers", "", err.Error())
		return
	}
	handler := map[string]*an.Unit{}
	for _, a := range applies {
		if a.Kind == "RegisterInternal" {
			handler[a.Name] = a.Unit
		}
	}
	// the batchable set, from the stores into rockredis.batchableCmds
	var names []string
	for _, sw := range c.W.AllSites(an.StoreTerm("*").Where("element of batchableCmds", func(u *an.Unit, s *an.Site) bool {
		return strings.HasPrefix(u.C.Term(s.LHS), "rockredis.batchableCmds[")
	}), "batchableCmds", []string{"rockredis"}) {
		ix, ok := ast.Unparen(sw.S.LHS).(*ast.IndexExpr)
		if !ok {
			continue
		}
		tv := sw.U.Info().Types[ix.Index]
		if tv.Value == nil {
			r.Unknown("C07-T2", "batchable command set: "+sw.U.C.Term(ix.Index), sw.U.Pos(sw.S.Pos), "not a constant command name")
			continue
		}
		names = append(names, strings.Trim(tv.Value.ExactString(), `"`))
	}
	sort.Strings(names)
	r.Min("C07-T2", len(names), 3, "batchable commands")
	// multi-key forms that IsBatchable refuses
	refused := map[string]bool{}
	if u := c.unit("C07-T2", "node.(*kvbatchOperator).IsBatchable"); u != nil {
		for _, s := range u.Match(an.Return()) {
			if len(s.Ret.Results) == 1 && u.C.Term(s.Ret.Results[0]) == "false" {
				pc := u.SitePC(s)
				for _, n := range names {
					if flow.Implies(pc, c.W.Parse(`p0 == "`+n+`" && 2 < len(p2)`)).Holds {
						refused[n] = true
					}
				}
			}
		}
	}
	for _, n := range names {
		u := handler[n]
		if u == nil {
			r.Unknown("C07-T2", "batchable command "+n+": apply handler", "", "not registered with RegisterInternal")
			continue
		}
		nCalls := 0
		single := true
		why := ""
		for _, s := range u.Sites {
			if s.Kind != flow.SCall || s.Call == nil || s.Callee == nil {
				continue
			}
			q := an.CalleeName(s)
			if !strings.HasPrefix(q, "node.(*KVStore).") && !strings.HasPrefix(q, "rockredis.(*RockDB).") {
				continue
			}
			nCalls++
			// the key handed to the store: the first []byte / ...[]byte / record-list parameter after the timestamp
			sig := s.Callee.Type().(*types.Signature)
			ki := -1
			for i := 0; i < sig.Params().Len(); i++ {
				if b, ok := sig.Params().At(i).Type().Underlying().(*types.Basic); ok && b.Kind() == types.Int64 && i == 0 {
					continue
				}
				ki = i
				break
			}
			if ki < 0 || ki >= len(s.Call.Args) {
				continue
			}
			kt := u.C.Term(s.Call.Args[ki])
			if kt != "p0.Args[1]" || (s.Call.Ellipsis.IsValid() && ki == len(s.Call.Args)-1) {
				single = false
				why = fmt.Sprintf("%s is called with %s as its key argument", q, kt)
			}
		}
		construct := fmt.Sprintf("batchable command %s (%s): the store is given exactly the key registered for the duplicate check (cmd.Args[1])", n, u.Name)
		switch {
		case nCalls == 0:
			r.Unknown("C07-T2", construct, "", "no store call found in the handler")
		case single:
			r.Ok("C07-T2", construct, "", "")
		case refused[n]:
			r.Ok("C07-T2", construct, "", "multi-key handler, but IsBatchable refuses "+n+" with more than one key")
		default:
			r.Bad("C07-T2", construct, u.Pos(u.Body.Pos()), why+"; keys other than the first are not in the duplicate-check map, so a later command of the same batch on such a key is evaluated against the store as it was before this command")
		}
	}
}

func c07AbortClears(c *Ctx, rule string) {
	r := c.R
	if u := c.unit(rule, "rockredis.(*RockDB).AbortBatch"); u != nil {
		clr := an.AnyCall().Where("recv.wb.Clear()", func(u *an.Unit, s *an.Site) bool {
			sel, ok := s.Call.Fun.(*ast.SelectorExpr)
			return ok && sel.Sel.Name == "Clear" && u.C.Term(sel.X) == "recv.wb"
		})
		r.Order(rule, u, an.Return(), []an.M{clr}, an.OrderOpts{Min: 1})
	}
	if u := c.unit(rule, "node.(*kvbatchOperator).AbortBatchForError"); u != nil {
		r.Order(rule, u, an.Return(), []an.M{an.Call("node.KVStore.AbortBatch", "node.(*KVStore).AbortBatch", "rockredis.(*RockDB).AbortBatch")}, an.OrderOpts{Min: 1})
	}
}
