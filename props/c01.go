package props

import (
	"fmt"
	"go/ast"

	"verif/internal/an"
	"verif/internal/flow"
)

func init() {
	register(&Property{
		ID:        "C01",
		Technique: "static analysis: who-may-write enumeration of the vote/term fields with per-writer shape obligations, guard implication by truth table over path conditions of raft.Step/campaign/stepCandidate, FOLLOW path search (a granted vote is recorded), expression-shape check of quorum()",
		Explanation: "Decides six mechanisms without which election safety fails for some schedule or crash point: (V1) the vote is part of the durable hard state (saved, compared, sync-forcing, restored); (V2) every store to raft.Vote in the module has one of four shapes (reset to None only when the term changes; own id after reset(Term+1); m.From only for MsgVote under Vote==From or Vote==None; loadState) and a granted MsgVote reply is followed by recording the vote; (V3) raft.Term is written only by reset/loadState and becomeFollower receives a term that is the message's higher term, the current term, or the bootstrap constant; (V4) quorum() is len(voters)/2+1, becomeLeader is called only when poll() reached quorum, poll counts only granted votes, vote requests go to voters only; (V5) learners neither answer votes nor campaign, promotable() requires a non-learner voter entry, a voter is never turned into a learner; (V6) the leader-lease check guards every term bump caused by a vote request.",
		NotDecided: "the election-safety theorem itself (interaction of these rules across replicas and time), message duplication, the fork's queue driver ordering, configuration-change interplay (pendingConf), maybeTryElection in node/.",
		Assumptions: []string{"calls to panic/Panicf do not return", "path conditions are disjunctions over forward paths of conjunctions of branch conditions, weakened where operands may have been reassigned; writes through callees between guard and effect are not tracked"},
		Run: runC01,
	})
}

func subRules(c *Ctx, from func(*Ctx), srcRule, dstRule string) {
	sub := an.NewReport(c.R.Property)
	from(&Ctx{P: c.P, W: c.W, R: sub, Tier: c.Tier})
	for _, ob := range sub.Obligations {
		if ob.Rule != srcRule {
			continue
		}
		switch ob.Status {
		case "ok":
			c.R.Ok(dstRule, ob.Construct, ob.Pos, ob.Detail)
		case "VIOLATION":
			c.R.Bad(dstRule, ob.Construct, ob.Pos, ob.Detail)
		default:
			c.R.Unknown(dstRule, ob.Construct, ob.Pos, ob.Detail)
		}
	}
}

func runC01(c *Ctx) {
	r := c.R
	r.Clause("C01-V1", "vote is durable state: hardState/loadState/isHardStateEqual/MustSync/newReady agree on {Term, Vote, Commit}")
	r.Clause("C01-V2", "one vote per term: shapes of all writers of raft.Vote; grant is recorded")
	r.Clause("C01-V3", "term moves only through reset/loadState; becomeFollower term provenance")
	r.Clause("C01-V4", "majorities counted over voters only")
	r.Clause("C01-V5", "learners neither vote nor campaign")
	r.Clause("C01-V6", "lease check guards vote-induced term bumps")
	subRules(c, runC03, "C03-P4", "C01-V1")

	// V2: writers of raft.Vote
	voteW := c.W.AllSites(an.Store("raft.raft.Vote"), "Vote", nil)
	r.Min("C01-V2", len(voteW), 4, "stores to raft.Vote in the module")
	for _, sw := range voteW {
		u, s := sw.U, sw.S
		val := "<none>"
		if s.RHS != nil {
			val = u.C.Term(s.RHS)
		}
		me := an.Store("raft.raft.Vote").Where("this site", func(_ *an.Unit, x *an.Site) bool { return x == s })
		switch {
		case u.Name == "raft.(*raft).reset" && val == "raft.None":
			r.Order("C01-V2", u, me, []an.M{an.Edge("p0 != recv.Term")}, an.OrderOpts{Min: 1})
		case u.Name == "raft.(*raft).becomeCandidate" && val == "recv.id":
			r.Order("C01-V2", u, me, []an.M{an.Call("raft.(*raft).reset").Where("argument Term+1", func(u *an.Unit, x *an.Site) bool { return u.ArgTerm(x, 0) == "(1 + recv.Term)" })}, an.OrderOpts{Min: 1})
		case u.Name == "raft.(*raft).Step" && val == "p0.From":
			r.Guard("C01-V2", u, me, "p0.Type == raftpb.MsgVote && (recv.Vote == p0.From || recv.Vote == raft.None)", an.GuardOpts{Min: 1})
		case u.Name == "raft.(*raft).loadState" && val == "p0.Vote":
			r.Ok("C01-V2", u.Name+": store raft.Vote from the persisted hard state", u.Pos(s.Pos), "")
		default:
			r.Bad("C01-V2", fmt.Sprintf("%s: store raft.Vote = %s has none of the accepted writer shapes", u.Name, val), u.Pos(s.Pos),
				"accepted: None in reset under term change; own id in becomeCandidate after reset(Term+1); m.From in Step for MsgVote under Vote==From||Vote==None; loadState")
		}
	}
	if u := c.unit("C01-V2", "raft.(*raft).Step"); u != nil {
		grant := an.Call("raft.(*raft).send").Where("vote response without Reject", func(u *an.Unit, s *an.Site) bool {
			return isVoteResp(u, s) && !litHasField(s.Call, "Reject")
		})
		r.Follow("C01-V2", u, grant, []an.M{an.Store("raft.raft.Vote")}, an.FollowOpts{Assume: "p0.Type == raftpb.MsgVote", Min: 1})
		// V5: no vote response of any kind from a learner
		resp := an.Call("raft.(*raft).send").Where("vote response", isVoteResp)
		for _, s := range u.Match(resp) {
			pc := u.SitePC(s)
			// only the responses in the vote-handling branch (same term or after stepping down)
			if res := flow.Implies(pc, c.W.Parse("p0.Term < recv.Term")); res.Holds && res.Undecided == "" {
				continue // reply to a stale pre-vote: a rejection carrying our term, not a vote
			}
			r.GuardSite("C01-V5", u, s, c.W.Parse("!recv.isLearner"), "!recv.isLearner")
		}
		r.Min("C01-V5", r.RuleCount("C01-V5"), 2, "vote responses in Step")
		// V6: a vote request with a higher term bumps our term only when the lease check let it through
		bf := an.Call("raft.(*raft).becomeFollower")
		r.Guard("C01-V6", u, bf.Where("higher-term branch", func(u *an.Unit, s *an.Site) bool { return u.ArgTerm(s, 0) == "p0.Term" }),
			"!((p0.Type == raftpb.MsgVote || p0.Type == raftpb.MsgPreVote) && !bytes.Equal(p0.Context, []byte(raft.campaignTransfer)) && recv.checkQuorum && recv.lead != raft.None && recv.electionElapsed < recv.electionTimeout)", an.GuardOpts{Min: 2})
		r.StoreValues("C01-V6", u, an.LocalStore("force"), []string{"bytes.Equal(p0.Context, []byte(raft.campaignTransfer))"}, 1)
		// V3: term provenance at becomeFollower in Step
		r.Guard("C01-V3", u, bf.Where("term argument m.Term", func(u *an.Unit, s *an.Site) bool { return u.ArgTerm(s, 0) == "p0.Term" }), "recv.Term < p0.Term", an.GuardOpts{Min: 2})
	}

	// V3: writers of raft.Term and all becomeFollower callers
	termW := c.W.AllSites(an.Store("raft.raft.Term"), "Term", nil)
	r.Min("C01-V3", len(termW), 2, "stores to raft.Term in the module")
	for _, sw := range termW {
		u, s := sw.U, sw.S
		val := "<none>"
		if s.RHS != nil {
			val = u.C.Term(s.RHS)
		}
		me := an.Store("raft.raft.Term").Where("this site", func(_ *an.Unit, x *an.Site) bool { return x == s })
		switch {
		case u.Name == "raft.(*raft).reset" && val == "p0":
			r.Order("C01-V3", u, me, []an.M{an.Edge("p0 != recv.Term")}, an.OrderOpts{Min: 1})
		case u.Name == "raft.(*raft).loadState" && val == "p0.Term":
			r.Ok("C01-V3", u.Name+": store raft.Term from the persisted hard state", u.Pos(s.Pos), "")
		default:
			r.Bad("C01-V3", fmt.Sprintf("%s: store raft.Term = %s outside reset/loadState", u.Name, val), u.Pos(s.Pos), "")
		}
	}
	bfAll := c.W.AllSites(an.Call("raft.(*raft).becomeFollower"), "becomeFollower", nil)
	r.Min("C01-V3", len(bfAll), 10, "calls of becomeFollower")
	for _, sw := range bfAll {
		t := sw.U.ArgTerm(sw.S, 0)
		self := ""
		if se, ok := sw.S.Call.Fun.(*ast.SelectorExpr); ok {
			self = sw.U.C.Term(se.X) + ".Term"
		}
		ok := false
		switch {
		case t == self:
			ok = true // the replica's own current term
		case t == "p0.Term" || t == "p1.Term":
			ok = sw.U.Name == "raft.(*raft).Step" || sw.U.Name == "raft.stepCandidate"
		case t == "1":
			ok = sw.U.Name == "raft.StartNode" || sw.U.Name == "raft.NewRawNode" // bootstrap of a fresh log
		}
		r.Check("C01-V3", fmt.Sprintf("%s: becomeFollower(%s, ..) term provenance", sw.U.Name, t), sw.U.Pos(sw.S.Pos), ok,
			"accepted: r.Term; m.Term in Step (guarded m.Term > r.Term) and stepCandidate (equal terms); constant 1 at bootstrap")
	}
	if u := c.unit("C01-V3", "raft.(*raft).becomeFollower"); u != nil {
		r.ArgValues("C01-V3", u, an.Call("raft.(*raft).reset"), 0, []string{"p0"}, 1)
	}

	// V4
	if u := c.unit("C01-V4", "raft.(*raft).quorum"); u != nil {
		r.ReturnTerm("C01-V4", u, 0, "((len(recv.prs) / 2) + 1)")
	}
	blAll := c.W.AllSites(an.Call("raft.(*raft).becomeLeader"), "becomeLeader", nil)
	r.Min("C01-V4", len(blAll), 2, "calls of becomeLeader")
	for _, sw := range blAll {
		goal := ""
		switch sw.U.Name {
		case "raft.(*raft).campaign":
			goal = "recv.quorum() == recv.poll(_)"
		case "raft.stepCandidate":
			goal = "gr == p0.quorum()"
		default:
			r.Bad("C01-V4", sw.U.Name+": becomeLeader called outside campaign/stepCandidate", sw.U.Pos(sw.S.Pos), "")
			continue
		}
		r.GuardSite("C01-V4", sw.U, sw.S, c.W.Parse(goal), goal)
	}
	if u := c.unit("C01-V4", "raft.stepCandidate"); u != nil {
		r.StoreValues("C01-V4", u, an.LocalStore("gr"), []string{"p0.poll(p1.From, p1.Type, !p1.Reject)"}, 1)
		r.Guard("C01-V4", u, an.Call("raft.(*raft).poll"), "myVoteRespType == p1.Type", an.GuardOpts{Min: 1})
	}
	if u := c.unit("C01-V4", "raft.(*raft).poll"); u != nil {
		r.Guard("C01-V4", u, an.LocalStore("granted"), "vv", an.GuardOpts{Min: 1})
		rng := u.Match(an.M{}.Range())
		ok := len(rng) == 1 && u.C.Term(rng[0].Rng.X) == "recv.votes"
		r.Check("C01-V4", "raft.(*raft).poll: counts by ranging over r.votes", "", ok, "")
		r.ReturnTerm("C01-V4", u, 0, "r0", "granted")
		// a vote is recorded once per voter: first answer wins
		r.Guard("C01-V4", u, an.StoreElem("raft.raft.votes"), "!ok", an.GuardOpts{Min: 1})
	}
	if u := c.unit("C01-V4", "raft.(*raft).campaign"); u != nil {
		rng := u.Match(an.M{}.Range())
		ok := len(rng) == 1 && u.C.Term(rng[0].Rng.X) == "recv.prs"
		pos := ""
		if ok {
			pos = u.Pos(rng[0].Pos)
			// the vote requests are sent from inside that loop
			sends := u.Match(an.Call("raft.(*raft).send"))
			ok = len(sends) >= 1
			for _, s := range sends {
				if !(rng[0].Rng.Body.Pos() <= s.Pos && s.Pos < rng[0].Rng.Body.End()) {
					ok = false
				}
			}
		}
		r.Check("C01-V4", "raft.(*raft).campaign: vote requests go to the voters (range r.prs) only", pos, ok, "")
		r.ArgValues("C01-V4", u, an.Call("raft.(*raft).poll"), 0, []string{"recv.id"}, 1)
	}

	// V5
	if u := c.unit("C01-V5", "raft.(*raft).promotable"); u != nil {
		r.ReturnFormula("C01-V5", u, "ok && pr != nil && !pr.IsLearner", an.ActualImpliesWant)
		tup := u.Match(an.LocalStore("pr"))
		ok := len(tup) == 1 && tup[0].Tuple != nil && u.C.Term(tup[0].Tuple) == "recv.prs[recv.id]"
		r.Check("C01-V5", "raft.(*raft).promotable: looks itself up in the voter map r.prs", "", ok, "")
	}
	campAll := c.W.AllSites(an.Call("raft.(*raft).campaign"), "campaign", nil)
	r.Min("C01-V5", len(campAll), 3, "calls of campaign")
	for _, sw := range campAll {
		switch sw.U.Name {
		case "raft.(*raft).hup":
			r.GuardSite("C01-V5", sw.U, sw.S, c.W.Parse("recv.promotable()"), "recv.promotable()")
		case "raft.(*raft).campaign", "raft.stepCandidate":
			// continuation of an election that hup started (pre-vote won -> real election)
			r.GuardSite("C01-V5", sw.U, sw.S, c.W.Parse("p0 == raft.campaignPreElection || p0.state == raft.StatePreCandidate"), "pre-election continuation")
		default:
			r.Bad("C01-V5", sw.U.Name+": campaign called outside hup and the pre-election continuation", sw.U.Pos(sw.S.Pos), "")
		}
	}
	// V7: no election is started while a committed membership change is still unapplied (the voter
	// set used for counting would be stale)
	r.Clause("C01-V7", "no campaign while committed configuration changes are unapplied")
	if u := c.unit("C01-V1", "raft.(*raft).loadState"); u != nil {
		// the persisted vote is restored unconditionally: a restarted replica that forgets its vote can vote twice in one term
		r.Order("C01-V1", u, an.Return(), []an.M{an.Store("raft.raft.Vote")}, an.OrderOpts{Min: 1})
		r.Order("C01-V1", u, an.Return(), []an.M{an.Store("raft.raft.Term")}, an.OrderOpts{Min: 1})
	}
	if u := c.unit("C01-V7", "raft.(*raft).hup"); u != nil {
		sl := an.Call("raft.(*raftLog).slice")
		r.ArgValues("C01-V7", u, sl, 0, []string{"(1 + recv.raftLog.applied)"}, 1)
		r.ArgValues("C01-V7", u, sl, 1, []string{"(1 + recv.raftLog.committed)"}, 1)
		r.ArgValues("C01-V7", u, sl, 2, []string{"raft.noLimit"}, 1)
		r.Guard("C01-V7", u, an.Call("raft.(*raft).campaign"), "!(raft.numOfPendingConf(ents) != 0 && recv.raftLog.applied < recv.raftLog.committed)", an.GuardOpts{Min: 1})
		r.StoreValues("C01-V7", u, an.LocalStore("n"), []string{"raft.numOfPendingConf(ents)"}, 1)
		r.Order("C01-V7", u, an.Call("raft.(*raft).campaign"), []an.M{sl.Ok(an.NilErr)}, an.OrderOpts{Min: 1})
	}
	if u := c.unit("C01-V7", "raft.numOfPendingConf"); u != nil {
		inc := an.LocalStore("n").Where("increment", func(u *an.Unit, s *an.Site) bool { return s.RHS == nil })
		r.Guard("C01-V7", u, inc, "p0[i].Type == raftpb.EntryConfChange", an.GuardOpts{Min: 1})
		// every conf-change entry is counted: the increment is reached whenever the type matches
		lc := u.LoopCollections() // either loop form
		r.Check("C01-V7", "raft.numOfPendingConf: scans all given entries", "", len(lc) == 1 && lc[0] == "p0", "")
	}
	hupAll := c.W.AllSites(an.Call("raft.(*raft).hup"), "hup", nil)
	r.Min("C01-V5", len(hupAll), 2, "calls of hup")
	if u := c.unit("C01-V5", "raft.(*raft).tickElection"); u != nil {
		r.Guard("C01-V5", u, an.Call("raft.(*raft).Step"), "recv.promotable() && recv.pastElectionTimeout()", an.GuardOpts{Min: 1})
	}
	if u := c.unit("C01-V5", "raft.(*raft).addNodeOrLearnerNode"); u != nil {
		// moving a progress between the maps happens only in the learner -> voter direction
		r.Guard("C01-V5", u, an.StoreElem("raft.raft.prs"), "!p2", an.GuardOpts{AtBlockEntry: true, Min: 1})
		r.Order("C01-V5", u, an.StoreElem("raft.raft.prs"), []an.M{an.Edge("!(p2 && !pr.IsLearner)")}, an.OrderOpts{Min: 1})
		r.Order("C01-V5", u, an.StoreElem("raft.raft.prs"), []an.M{an.Call("builtin.delete")}, an.OrderOpts{Min: 1})
		r.ArgValues("C01-V5", u, an.Call("builtin.delete"), 0, []string{"recv.learnerPrs"}, 1)
	}
}


func isVoteResp(u *an.Unit, s *an.Site) bool {
	lit := msgLit(s.Call)
	if lit == nil {
		return false
	}
	for _, e := range lit.Elts {
		if kv, ok := e.(*ast.KeyValueExpr); ok {
			if id, ok := kv.Key.(*ast.Ident); ok && id.Name == "Type" {
				t := u.C.Term(kv.Value)
				return t == "raft.voteRespMsgType(p0.Type)" || t == "raftpb.MsgVoteResp" || t == "raftpb.MsgPreVoteResp"
			}
		}
	}
	return false
}

func msgLit(call *ast.CallExpr) *ast.CompositeLit {
	if call == nil || len(call.Args) != 1 {
		return nil
	}
	lit, _ := ast.Unparen(call.Args[0]).(*ast.CompositeLit)
	return lit
}

func litHasField(call *ast.CallExpr, name string) bool {
	lit := msgLit(call)
	if lit == nil {
		return false
	}
	for _, e := range lit.Elts {
		if kv, ok := e.(*ast.KeyValueExpr); ok {
			if id, ok := kv.Key.(*ast.Ident); ok && id.Name == name {
				return true
			}
		}
	}
	return false
}
