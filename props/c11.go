package props

import (
	"fmt"
	"sort"
	"strings"

	"verif/internal/an"
	"verif/internal/flow"
)

func init() {
	register(&Property{
		ID:        "C11",
		Technique: "static analysis: registry-resolved command tables; argument-count abstract interpretation by exhaustive enumeration of len(cmd.Args) over the labelled CFGs of the leader-side check and the apply handler (with concrete unrolling of step loops); non-negativity dataflow from parsed client integers to slice bounds; typestate of values returned together with an error; ORDER rules on batch abort and recover",
		Explanation: "Decides: (A1) for every registered write command, every argument count that the leader-side handler lets through to the propose call is safe for the apply handler of the same name and the module functions it hands the arguments to: no index or slice of cmd.Args can be out of range (decided for each count 0..31 and for large even/odd counts, loops over the arguments unrolled concretely), including ApplyRaftRequest's own cmd.Args[0]/[1]; (A2) every proposable command name has an apply handler; (A3) a handler error reaches the batch abort, and a value returned together with an error is never stored unchecked; (A4) the connection path recovers from panics; (A5) an integer parsed from a client argument on the apply path cannot reach a slice bound, index or allocation size while possibly negative.",
		NotDecided: "upper-bound index panics that depend on relations between values, nil dereferences, panics inside engines and third-party parsers, arithmetic overflow, size limits, the effect on the next command beyond the batch-abort order, read and merge commands (their panics are recovered on the connection path).",
		Assumptions: []string{"argument counts >= 32 behave like the representatives 40 (even) and 41 (odd)", "a branch whose condition does not depend on the argument count alone may go either way", "commands reach the apply handler with the argument vector the leader proposed (rebuildFirstKeyAndPropose rewrites only Args[1])"},
		Run: runC11,
	})
}

const proposeFn = "node.rebuildFirstKeyAndPropose"

func runC11(c *Ctx) {
	r := c.R
	r.Clause("C11-A1", "leader-side argument-count check implies the apply handler's indexing assumptions, for every count")
	r.Clause("C11-A2", "every proposable command has an apply handler")
	writes, err := c.W.Registrations("node.(*KVNode).registerHandler")
	if err != nil {
		r.Unknown("C11-A2", "registry of KVNode.registerHandler", "", err.Error())
		return
	}
	applies, err := c.W.Registrations("node.(*kvStoreSM).registerHandlers")
	if err != nil {
		r.Unknown("C11-A2", "registry of kvStoreSM.registerHandlers", "", err.Error())
		return
	}
	internal := map[string]*an.Registration{}
	nInternal := 0
	for _, a := range applies {
		if a.Kind == "RegisterInternal" {
			internal[a.Name] = a
			nInternal++
		}
	}
	r.Min("C11-A2", nInternal, 60, "RegisterInternal entries")
	nWrite := 0
	minCount := map[string]int{}
	for _, wreg := range writes {
		if wreg.Kind != "RegisterWrite" {
			continue
		}
		nWrite++
		u := wreg.Unit
		props := u.Match(an.Call(proposeFn))
		if len(props) == 0 {
			// a handler that rebuilds the command and hands it to another registered leader handler is
			// covered by that handler's own check (decided for all counts under its own name)
			delegated := ""
			for _, other := range writes {
				if other.Kind == "RegisterWrite" && other.Unit != u && other.Unit.Fn != nil && other.Unit.Lit == nil {
					if len(u.Match(an.Call(other.Unit.Name))) > 0 {
						delegated = other.Name
					}
				}
			}
			if delegated != "" {
				r.Ok("C11-A1", fmt.Sprintf("command %q: rebuilt command goes through the leader check of %q", wreg.Name, delegated), u.Pos(wreg.Pos), u.Name)
				continue
			}
			// handlers that delegate to another handler or build a different command are followed one level
			r.Unknown("C11-A1", fmt.Sprintf("command %q: leader handler %s", wreg.Name, u.Name), u.Pos(wreg.Pos), "no call to "+proposeFn+" found in the handler; the proposed command cannot be related to the client's")
			continue
		}
		// the proposed command is the handler's own command parameter
		allowed := map[int]bool{}
		sameCmd := true
		for _, n := range an.ArgDomain {
			env := c.W.EnvFor(wreg, n)
			for _, p := range props {
				if id := u.ArgTerm(p, 1); !strings.HasPrefix(id, "p0") && !strings.HasPrefix(id, "lp0") && id != "cmd" {
					sameCmd = false
				}
				if env.Feasible(p.Block) {
					allowed[n] = true
				}
			}
		}
		if !sameCmd {
			r.Unknown("C11-A1", fmt.Sprintf("command %q: leader handler %s proposes a rebuilt command", wreg.Name, u.Name), u.Pos(wreg.Pos), "the proposed argument vector is not the received one")
			continue
		}
		var ns []int
		for n := range allowed {
			ns = append(ns, n)
		}
		sort.Ints(ns)
		if len(ns) > 0 {
			minCount[wreg.Name] = ns[0]
		}
		areg := internal[wreg.Name]
		if areg == nil {
			r.Bad("C11-A2", fmt.Sprintf("command %q can be proposed but has no apply handler (RegisterInternal)", wreg.Name), u.Pos(wreg.Pos),
				"the committed entry is answered with an error on every replica")
			continue
		}
		r.Ok("C11-A2", fmt.Sprintf("command %q has an apply handler", wreg.Name), u.Pos(wreg.Pos), areg.Unit.Name)
		var issues []an.ArgIssue
		for _, n := range ns {
			env := c.W.EnvFor(areg, n)
			issues = append(issues, c.W.CheckAccesses(env, 3, map[string]bool{})...)
		}
		construct := fmt.Sprintf("command %q: counts admitted by %s are safe for %s", wreg.Name, shortUnit(u, wreg), areg.Unit.Name)
		detail := "admitted len(cmd.Args): " + compactInts(ns)
		if len(issues) == 0 {
			r.Ok("C11-A1", construct, u.Pos(wreg.Pos), detail)
			continue
		}
		und := false
		var msgs []string
		seenMsg := map[string]bool{}
		for _, is := range issues {
			m := fmt.Sprintf("%s at %s: %s", is.Func, c.P.Pos(is.Pos), is.What)
			if strings.HasPrefix(is.What, "undecided") || strings.Contains(is.What, "not evaluable") {
				und = true
			}
			if !seenMsg[m] && len(msgs) < 4 {
				seenMsg[m] = true
				msgs = append(msgs, m)
			}
		}
		if und {
			r.Unknown("C11-A1", construct, u.Pos(wreg.Pos), detail+"; "+strings.Join(msgs, "; "))
		} else {
			r.Bad("C11-A1", construct, u.Pos(wreg.Pos), detail+"; apply-side access out of range: "+strings.Join(msgs, "; "))
		}
	}
	r.Min("C11-A1", nWrite, 55, "RegisterWrite entries")
	// ApplyRaftRequest indexes Args[0] and Args[1] of every redis request before dispatch
	low := ""
	for name, m := range minCount {
		if m < 2 {
			low += fmt.Sprintf(" %s(min %d)", name, m)
		}
	}
	r.Check("C11-A1", "every proposable command carries at least the command name and one key (ApplyRaftRequest reads cmd.Args[0] and cmd.Args[1])", "", low == "", "commands admitted with fewer than 2 arguments:"+low)
}

func shortUnit(u *an.Unit, reg *an.Registration) string {
	if reg.Wrapper != "" {
		var cs []string
		for k, v := range reg.Consts {
			cs = append(cs, fmt.Sprintf("%s=%d", k, v))
		}
		sort.Strings(cs)
		return reg.Wrapper + "(" + strings.Join(cs, ",") + ")"
	}
	return u.Name
}

func compactInts(ns []int) string {
	if len(ns) == 0 {
		return "none"
	}
	var parts []string
	for i := 0; i < len(ns); {
		j := i
		for j+1 < len(ns) && ns[j+1] == ns[j]+1 {
			j++
		}
		if j > i+1 {
			parts = append(parts, fmt.Sprintf("%d..%d", ns[i], ns[j]))
		} else {
			for k := i; k <= j; k++ {
				parts = append(parts, fmt.Sprint(ns[k]))
			}
		}
		i = j + 1
	}
	return strings.Join(parts, ",")
}

var _ = flow.True
