package props

import (
	"os"
	"go/ast"
	"go/token"
	"go/types"

	"fmt"
	"golang.org/x/tools/go/types/typeutil"
	"sort"
	"strings"
	"verif/internal/load"

	"verif/internal/an"
	"verif/internal/flow"
)

func init() {
	register(&Property{
		ID:          "C11",
		Technique:   "static analysis: registry-resolved command tables; argument-count abstract interpretation by exhaustive enumeration of len(cmd.Args) over the labelled CFGs of the leader-side check and the apply handler (with concrete unrolling of step loops); non-negativity dataflow from parsed client integers to slice bounds; typestate of values returned together with an error; ORDER rules on batch abort and recover",
		Explanation: "Decides: (A1) for every registered write command, every argument count that the leader-side handler lets through to the propose call is safe for the apply handler of the same name and the module functions it hands the arguments to: no index or slice of cmd.Args can be out of range (decided for each count 0..31 and for large even/odd counts, loops over the arguments unrolled concretely), including ApplyRaftRequest's own cmd.Args[0]/[1]; (A2) every proposable command name has an apply handler; (A3) a handler error reaches the batch abort, and a value returned together with an error is never stored unchecked; (A4) the connection path recovers from panics; (A5) an integer parsed from a client argument on the apply path cannot reach a slice bound, index or allocation size while possibly negative. A5 also covers (i) size tests that add to the client integer before comparing (the sum wraps around for a huge value: found and fixed in SETRANGE) and (ii) stored values decoded with constant offsets: a small length analysis (requirement computed from the decoder, lower bound at each call from the dominating len() tests and re-slicings) for newHLLItemFromDBBytes. A2 also requires that every option look-ahead S[i+k] of an option parser in packages node and server (a function that dispatches on strings.ToLower(string(S[i]))) is guarded by i+k < len(S) on its path. (A6) every last-element index X[len(X)-k] in packages node and server is evaluated only where len(X) >= k follows from the path condition (the merge scans run partition handlers in goroutines without recover).",
		NotDecided:  "upper-bound index panics that depend on relations between values, nil dereferences, panics inside engines and third-party parsers, arithmetic overflow, size limits, the effect on the next command beyond the batch-abort order, other read and merge commands (the option parsers of the scan and merged commands are covered by the look-ahead rule of A2 because their goroutines are not under the connection recover()).",
		Assumptions: []string{"argument counts >= 32 behave like the representatives 40 (even) and 41 (odd)", "a branch whose condition does not depend on the argument count alone may go either way", "commands reach the apply handler with the argument vector the leader proposed (rebuildFirstKeyAndPropose rewrites only Args[1])"},
		Run:         runC11,
	})
}

const proposeFn = "node.rebuildFirstKeyAndPropose"

func runC11(c *Ctx) {
	r := c.R
	r.Clause("C11-A1", "leader-side argument-count check implies the apply handler's indexing assumptions, for every count")
	r.Clause("C11-A2", "every proposable command has an apply handler")
	writes, err := c.W.Registrations("node.(*KVNode).registerHandler")
	if err != nil {
		r.Unknown("C11-A2", "registry of KVNode.registerHandler", "", err.Error())
		return
	}
	applies, err := c.W.Registrations("node.(*kvStoreSM).registerHandlers")
	if err != nil {
		r.Unknown("C11-A2", "registry of kvStoreSM.registerHandlers", "", err.Error())
		return
	}
	internal := map[string]*an.Registration{}
	nInternal := 0
	for _, a := range applies {
		if a.Kind == "RegisterInternal" {
			internal[a.Name] = a
			nInternal++
		}
	}
	r.Min("C11-A2", nInternal, 60, "RegisterInternal entries")
	nWrite := 0
	minCount := map[string]int{}
	for _, wreg := range writes {
		if wreg.Kind != "RegisterWrite" {
			continue
		}
		nWrite++
		u := wreg.Unit
		props := u.Match(an.Call(proposeFn))
		if len(props) == 0 {
			// a handler that rebuilds the command and hands it to another registered leader handler is
			// covered by that handler's own check (decided for all counts under its own name)
			delegated := ""
			for _, other := range writes {
				if other.Kind == "RegisterWrite" && other.Unit != u && other.Unit.Fn != nil && other.Unit.Lit == nil {
					if len(u.Match(an.Call(other.Unit.Name))) > 0 {
						delegated = other.Name
					}
				}
			}
			if delegated != "" {
				r.Ok("C11-A1", fmt.Sprintf("command %q: rebuilt command goes through the leader check of %q", wreg.Name, delegated), u.Pos(wreg.Pos), u.Name)
				continue
			}
			// handlers that delegate to another handler or build a different command are followed one level
			r.Unknown("C11-A1", fmt.Sprintf("command %q: leader handler %s", wreg.Name, u.Name), u.Pos(wreg.Pos), "no call to "+proposeFn+" found in the handler; the proposed command cannot be related to the client's")
			continue
		}
		// the proposed command is the handler's own command parameter
		allowed := map[int]bool{}
		sameCmd := true
		for _, n := range an.ArgDomain {
			env := c.W.EnvFor(wreg, n)
			for _, p := range props {
				if id := u.ArgTerm(p, 1); !strings.HasPrefix(id, "p0") && !strings.HasPrefix(id, "lp0") && id != "cmd" {
					sameCmd = false
				}
				if env.Feasible(p.Block) {
					allowed[n] = true
				}
			}
		}
		if !sameCmd {
			r.Unknown("C11-A1", fmt.Sprintf("command %q: leader handler %s proposes a rebuilt command", wreg.Name, u.Name), u.Pos(wreg.Pos), "the proposed argument vector is not the received one")
			continue
		}
		var ns []int
		for n := range allowed {
			ns = append(ns, n)
		}
		sort.Ints(ns)
		if len(ns) > 0 {
			minCount[wreg.Name] = ns[0]
		}
		areg := internal[wreg.Name]
		if areg == nil {
			r.Bad("C11-A2", fmt.Sprintf("command %q can be proposed but has no apply handler (RegisterInternal)", wreg.Name), u.Pos(wreg.Pos),
				"the committed entry is answered with an error on every replica")
			continue
		}
		r.Ok("C11-A2", fmt.Sprintf("command %q has an apply handler", wreg.Name), u.Pos(wreg.Pos), areg.Unit.Name)
		var issues []an.ArgIssue
		for _, n := range ns {
			env := c.W.EnvFor(areg, n)
			issues = append(issues, c.W.CheckAccesses(env, 3, map[string]bool{})...)
		}
		construct := fmt.Sprintf("command %q: counts admitted by %s are safe for %s", wreg.Name, shortUnit(u, wreg), areg.Unit.Name)
		detail := "admitted len(cmd.Args): " + compactInts(ns)
		if len(issues) == 0 {
			r.Ok("C11-A1", construct, u.Pos(wreg.Pos), detail)
			continue
		}
		und := false
		var msgs []string
		seenMsg := map[string]bool{}
		for _, is := range issues {
			m := fmt.Sprintf("%s at %s: %s", is.Func, c.P.Pos(is.Pos), is.What)
			if strings.HasPrefix(is.What, "undecided") || strings.Contains(is.What, "not evaluable") {
				und = true
			}
			if !seenMsg[m] && len(msgs) < 4 {
				seenMsg[m] = true
				msgs = append(msgs, m)
			}
		}
		if und {
			r.Unknown("C11-A1", construct, u.Pos(wreg.Pos), detail+"; "+strings.Join(msgs, "; "))
		} else {
			r.Bad("C11-A1", construct, u.Pos(wreg.Pos), detail+"; apply-side access out of range: "+strings.Join(msgs, "; "))
		}
	}
	r.Min("C11-A1", nWrite, 55, "RegisterWrite entries")
	// ApplyRaftRequest indexes Args[0] and Args[1] of every redis request before dispatch
	low := ""
	for name, m := range minCount {
		if m < 2 {
			low += fmt.Sprintf(" %s(min %d)", name, m)
		}
	}
	r.Check("C11-A1", "every proposable command carries at least the command name and one key (ApplyRaftRequest reads cmd.Args[0] and cmd.Args[1])", "", low == "", "commands admitted with fewer than 2 arguments:"+low)
}

func shortUnit(u *an.Unit, reg *an.Registration) string {
	if reg.Wrapper != "" {
		var cs []string
		for k, v := range reg.Consts {
			cs = append(cs, fmt.Sprintf("%s=%d", k, v))
		}
		sort.Strings(cs)
		return reg.Wrapper + "(" + strings.Join(cs, ",") + ")"
	}
	return u.Name
}

func compactInts(ns []int) string {
	if len(ns) == 0 {
		return "none"
	}
	var parts []string
	for i := 0; i < len(ns); {
		j := i
		for j+1 < len(ns) && ns[j+1] == ns[j]+1 {
			j++
		}
		if j > i+1 {
			parts = append(parts, fmt.Sprintf("%d..%d", ns[i], ns[j]))
		} else {
			for k := i; k <= j; k++ {
				parts = append(parts, fmt.Sprint(ns[k]))
			}
		}
		i = j + 1
	}
	return strings.Join(parts, ",")
}

var _ = flow.True

func init() {
	old := registry["C11"].Run
	registry["C11"].Run = func(c *Ctx) { old(c); c11A5(c) }
}

// A5: client integers never reach a slice bound / index / allocation size while possibly negative.
func c11A5(c *Ctx) {
	r := c.R
	r.Clause("C11-A5", "an integer parsed from a client argument on the apply path is non-negative wherever it is used as slice bound, index or allocation size")
	applies, err := c.W.Registrations("node.(*kvStoreSM).registerHandlers")
	if err != nil {
		r.Unknown("C11-A5", "registry of kvStoreSM.registerHandlers", "", err.Error())
		return
	}
	var seeds []*an.Unit
	for _, a := range applies {
		if a.Kind == "RegisterInternal" {
			seeds = append(seeds, a.Unit)
		}
	}
	t := &an.SignedTaint{W: c.W}
	t.Run(seeds)
	sinks := t.Sinks()
	r.Note("C11-A5: %d variables carry a parsed client integer in %d functions; %d sinks", len(t.Tainted), len(t.Funcs), len(sinks))
	r.Min("C11-A5", len(t.Tainted), 20, "variables holding parsed client integers on the apply path")
	// size guards must not add to the client integer before comparing: the sum wraps around for a huge value
	for _, s := range t.OverflowGuards() {
		u := s.U
		v := u.C.TermOfObj(s.Var)
		construct := fmt.Sprintf("%s: bound test on %s does not overflow for a huge client integer %s", u.Name, clipS(u.C.Term(s.Expr), 60), clipS(v, 40))
		if t.UpperBounded(u, s.Var, s.Site) {
			r.Ok("C11-A5", construct, u.Pos(s.Site.Pos), "the client integer is bounded from above on this path before it is added to")
		} else {
			r.Bad("C11-A5", construct, u.Pos(s.Site.Pos), fmt.Sprintf("the comparison adds to the client value first (%s): for a value near the top of the integer range the sum wraps to a negative number and passes the test; compare the value alone (v > limit - other) or bound it first", t.Tainted[s.Var]))
		}
	}
	// stored values decoded with constant offsets: every caller established the length (a client can store any bytes
	// under the key with SET and then run PFADD / PFCOUNT on it)
	lenRequirement(c, "C11-A5", "rockredis.newHLLItemFromDBBytes", 1)
	for _, s := range sinks {
		u := s.U
		v := u.C.TermOfObj(s.Var)
		construct := fmt.Sprintf("%s: %s %s uses client integer %s", u.Name, s.Kind, clipS(u.C.Term(s.Expr), 50), clipS(v, 40))
		if t.NonNeg(u, s.Expr, s.Site, 0) {
			r.Ok("C11-A5", construct, u.Pos(s.Site.Pos), "non-negative here: sign test on the path, or every reaching definition is non-negative")
		} else {
			r.Bad("C11-A5", construct, u.Pos(s.Site.Pos), fmt.Sprintf("no sign test on the way: a negative client value panics here (%s); pc = %s", t.Tainted[s.Var], clipS(u.SitePC(s.Site).String(), 300)))
		}
	}
}

func init() {
	old := registry["C11"].Run
	registry["C11"].Run = func(c *Ctx) { old(c); c11A3(c); c11A4(c) }
}

func c11A3(c *Ctx) {
	r := c.R
	r.Clause("C11-A3", "an erroring handler leaves nothing behind: batch abort on error; non-aborting errors only with a clean batch; no value stored that came with an unchecked error")
	c07AbortClears(c, "C11-A3")
	// (i) the apply loop aborts the shared batch when the handler fails
	if u := c.unit("C11-A3", "node.(*kvStoreSM).ApplyRaftRequest"); u != nil {
		h := u.Match(an.DynCall("h"))
		if len(h) != 1 {
			r.Unknown("C11-A3", "ApplyRaftRequest: dispatch h(cmd, reqTs)", "", fmt.Sprintf("found %d dynamic handler calls", len(h)))
		} else {
			// the error variable assigned from the handler call
			errName := ""
			for _, s := range u.Sites {
				if s.Kind == flow.SStore && s.Tuple != nil && s.TupleIdx == 1 && s.Block == h[0].Block && s.NodeIdx == h[0].NodeIdx {
					errName = u.C.Term(s.LHS)
				}
			}
			if errName == "" {
				r.Unknown("C11-A3", "ApplyRaftRequest: error result of the handler call", u.Pos(h[0].Pos), "not bound to a variable")
			} else {
				need := an.Call("rockredis.IsNeedAbortError")
				r.Follow("C11-A3", u, an.DynCall("h"), []an.M{need}, an.FollowOpts{Assume: errName + " != nil", Min: 1})
				r.ArgValues("C11-A3", u, need, 0, []string{errName}, 1)
				r.Follow("C11-A3", u, need, []an.M{an.Call("node.IBatchOperator.AbortBatchForError")}, an.FollowOpts{FromSuccess: an.IsTrue, Min: 1})
				r.ArgValues("C11-A3", u, an.DynCall("h"), 0, []string{"cmd"}, 1)
			}
		}
	}
	if u := c.unit("C11-A3", "node.(*kvbatchOperator).AbortBatchForError"); u != nil {
		// the store's batch is wiped on every path, batched or not
		r.Order("C11-A3", u, an.Return(), []an.M{an.Call("node.KVStore.AbortBatch", "node.(*KVStore).AbortBatch", "rockredis.(*RockDB).AbortBatch")}, an.OrderOpts{Min: 2})
	}
	// (ii) errors that do not abort the batch are returned only where the batch is still clean
	writes := c.W.Effects("rockredis", isBatchWrite)
	var exempt []string
	if u := c.unit("C11-A3", "rockredis.IsNeedAbortError"); u != nil {
		for _, s := range u.Sites {
			if s.Kind != flow.SReturn || !s.Block.Reachable() || u.C.Term(s.Ret.Results[0]) != "false" {
				continue
			}
			atoms := map[string]*flow.F{}
			pc := u.SitePC(s)
			pc.Atoms(atoms)
			// the path condition must imply "err is one of X1, X2, ..": collect the identity tests on p0
			var alts []*flow.F
			var names []string
			for _, a := range atoms {
				if a.Cmp == nil || a.Cmp.Op != "==" {
					continue
				}
				other := ""
				if a.Cmp.L == "p0" {
					other = a.Cmp.R
				} else if a.Cmp.R == "p0" {
					other = a.Cmp.L
				}
				if other != "" {
					alts = append(alts, a)
					names = append(names, other)
				}
			}
			if res := flow.Implies(pc, flow.Or(alts...)); len(alts) > 0 && res.Holds && res.Undecided == "" {
				exempt = append(exempt, names...)
			} else {
				r.Unknown("C11-A3", "rockredis.IsNeedAbortError: a 'no abort needed' return that is not an identity test against error values", u.Pos(s.Pos), "pc = "+pc.String())
			}
		}
	}
	sort.Strings(exempt)
	r.Note("C11-A3: errors that do not abort the batch: %v", exempt)
	nRet := 0
	isExempt := func(t string) bool {
		for _, e := range exempt {
			if e == t {
				return true
			}
		}
		return false
	}
	// functions that may hand back a non-aborting error: literally, or by passing on the error of such a function
	returners := map[string]string{}
	var rockUnits []*an.Unit
	for _, fn := range c.P.Funcs() {
		if len(exempt) == 0 || !strings.HasPrefix(fn.Name, "rockredis.") || fn.Decl.Body == nil {
			continue
		}
		if u, err := c.W.Unit(fn.Name); err == nil {
			rockUnits = append(rockUnits, u)
		}
	}
	// exemptAt: the error returned at this site may be a non-aborting one; returns which
	siteOf := func(u *an.Unit, call *ast.CallExpr) *an.Site {
		for _, cs := range u.Sites {
			if cs.Kind == flow.SCall && cs.Call == call {
				return cs
			}
		}
		return nil
	}
	// exemptAt: which non-aborting error may be returned here, and through which callee call it came
	exemptAt := func(u *an.Unit, s *an.Site) (string, *an.Site) {
		last := ast.Unparen(s.Ret.Results[len(s.Ret.Results)-1])
		if t := u.C.Term(last); isExempt(t) {
			return t, nil
		}
		if call, ok := last.(*ast.CallExpr); ok {
			if f, ok := typeutil.Callee(u.Info(), call).(*types.Func); ok {
				if e, ok := returners[load.QualName(f)]; ok {
					return e, siteOf(u, call)
				}
			}
		}
		id, ok := last.(*ast.Ident)
		if !ok {
			return "", nil
		}
		obj := u.Info().ObjectOf(id)
		for _, d := range u.Sites {
			if d.Kind != flow.SStore || d.Local != obj || d.Index {
				continue
			}
			var rhs ast.Expr = d.RHS
			if rhs == nil {
				rhs = d.Tuple
			}
			if rhs == nil {
				continue
			}
			if call, ok := ast.Unparen(rhs).(*ast.CallExpr); ok {
				if f, ok := typeutil.Callee(u.Info(), call).(*types.Func); ok {
					if e, ok := returners[load.QualName(f)]; ok && reaches(u, d, s) {
						return e, siteOf(u, call)
					}
				}
			}
			if t := u.C.Term(rhs); isExempt(t) && reaches(u, d, s) {
				return t, nil
			}
		}
		return "", nil
	}
	for changed := true; changed; {
		changed = false
		for _, u := range rockUnits {
			if _, done := returners[u.Name]; done {
				continue
			}
			for _, s := range u.Sites {
				if s.Kind == flow.SReturn && s.Block.Reachable() && len(s.Ret.Results) > 0 {
					if e, _ := exemptAt(u, s); e != "" {
						returners[u.Name] = e
						changed = true
						break
					}
				}
			}
		}
	}
	for _, u := range rockUnits {
		var wsites []*flow.Site
		for _, s := range u.Sites {
			if s.Kind == flow.SCall && !s.Deferred {
				q := an.CalleeName(s)
				if isBatchWrite(q) || writes[q] {
					wsites = append(wsites, s)
				}
			}
		}
		for _, s := range u.Sites {
			if s.Kind != flow.SReturn || !s.Block.Reachable() || len(s.Ret.Results) == 0 {
				continue
			}
			last, via := exemptAt(u, s)
			if last == "" {
				continue
			}
			nRet++
			dirty := ""
			for _, w := range wsites {
				// an error passed on from a callee: the callee's own exempt returns are checked in the
				// callee; here only writes made before that call count
				target := s
				if via != nil {
					if w == via {
						continue
					}
					target = via
				}
				if reaches(u, w, target) {
					dirty = an.CalleeName(w) + " at " + u.Pos(w.Pos)
					break
				}
			}
			r.Check("C11-A3", fmt.Sprintf("%s: may return %s (no batch abort) only while the write batch is untouched", u.Name, last), u.Pos(s.Pos), dirty == "",
				"a batch write can precede this return: "+dirty+"; the buffered write leaks into the next command")
		}
	}
	r.Min("C11-A3", nRet, 10, "returns of non-aborting errors in package rockredis")
	// (iii) a value obtained together with an error is stored only after the error was tested
	nPut := 0
	for _, fn := range c.P.Funcs() {
		if !strings.HasPrefix(fn.Name, "rockredis.") || fn.Decl.Body == nil {
			continue
		}
		u, err := c.W.Unit(fn.Name)
		if err != nil {
			continue
		}
		for _, put := range u.Match(an.Call("engine.WriteBatch.Put", "engine.WriteBatch.Merge")) {
			for ai, a := range put.Call.Args {
				id, ok := ast.Unparen(a).(*ast.Ident)
				if !ok {
					continue
				}
				obj := u.Info().ObjectOf(id)
				for _, d := range u.Sites {
					if d.Kind != flow.SStore || d.Local != obj || d.Tuple == nil || d.Index {
						continue
					}
					call, ok := ast.Unparen(d.Tuple).(*ast.CallExpr)
					if !ok {
						continue
					}
					// the tuple's last result is an error?
					tt, ok := u.Info().TypeOf(call).(*types.Tuple)
					if !ok || tt.Len() < 2 || tt.At(tt.Len()-1).Type().String() != "error" {
						continue
					}
					if f, ok := typeutil.Callee(u.Info(), call).(*types.Func); ok && isCommittedRead(load.QualName(f)) {
						continue // engine read errors are I/O faults, outside the property's quantifier (client input)
					}
					// only definitions that dominate the put (the value used is this one on every path)
					if !(d.Block == put.Block && d.NodeIdx < put.NodeIdx) && !(d.Block != put.Block && u.G.Dominates(d.Block, put.Block)) {
						continue
					}
					// a later re-definition between would make this irrelevant; keep it simple: require the test
					nPut++
					var csite *flow.Site
					for _, cs := range u.Sites {
						if cs.Kind == flow.SCall && cs.Call == call {
							csite = cs
						}
					}
					if csite == nil {
						continue
					}
					me := an.AnyCall().Where("this put", func(_ *an.Unit, x *an.Site) bool { return x == put })
					pre := an.AnyCall().Where(an.CalleeName(csite), func(_ *an.Unit, x *an.Site) bool { return x == csite }).Ok(an.NilErr)
					_ = ai
					r.OrderSites("C11-A3", u, u.Match(me), func(*flow.Site) string {
						return "batch write of " + id.Name + " (returned by " + an.CalleeName(csite) + " together with an error)"
					}, []an.M{pre}, an.OrderOpts{})
				}
			}
		}
	}
	r.Min("C11-A3", nPut, 5, "batch writes of values that were returned together with an error")
}

func c11A4(c *Ctx) {
	r := c.R
	r.Clause("C11-A4", "panics are contained on the connection path; the deliberate apply-path panic cannot be triggered by client text")
	if u := c.unit("C11-A4", "server.(*Server).serverRedis"); u != nil {
		// a deferred closure calling recover() is registered before anything else happens
		ok := false
		var dpos string
		for _, s := range u.Sites {
			if s.Kind == flow.SCall && s.Deferred && s.Block == u.G.Entry {
				if fl, isLit := ast.Unparen(s.Call.Fun).(*ast.FuncLit); isLit {
					ast.Inspect(fl.Body, func(n ast.Node) bool {
						if call, isCall := n.(*ast.CallExpr); isCall {
							if id, isID := call.Fun.(*ast.Ident); isID && id.Name == "recover" {
								ok = true
								dpos = u.Pos(s.Pos)
							}
						}
						return true
					})
				}
				// no call may precede it
				for _, o := range u.Sites {
					if o.Kind == flow.SCall && !o.Deferred && o.Block == s.Block && o.SameBlockBefore(s) {
						ok = false
					}
				}
			}
		}
		r.Check("C11-A4", "server.(*Server).serverRedis: deferred recover() covers the whole dispatch", dpos, ok, "")
	}
	if u := c.unit("C11-A4", "node.isUnrecoveryError"); u != nil {
		r.Returns("C11-A4", u, []an.ReturnClass{
			{Name: "panic the replica", Match: func(u *an.Unit, s *an.Site) bool { return u.C.Term(s.Ret.Results[0]) == "true" },
				Guard: "strings.HasPrefix(p0.Error(), _)"},
			{Name: "ordinary error", Match: func(u *an.Unit, s *an.Site) bool { return u.C.Term(s.Ret.Results[0]) == "false" }},
		}, 2)
	}
	if u := c.unit("C11-A4", "node.(*kvStoreSM).ApplyRaftRequest"); u != nil {
		r.Guard("C11-A4", u, an.Call("builtin.panic"), "node.isUnrecoveryError(_)", an.GuardOpts{Min: 1})
	}
}

func init() {
	old := registry["C11"].Run
	registry["C11"].Run = func(c *Ctx) { old(c); c11Lookahead(c) }
}

// c11Lookahead: option parsers walk an argument list and, on an option name (strings.ToLower(string(S[i])) compared or
// switched on), read the option's value at S[i+1]. The value may be missing: every such look-ahead is guarded by
// i+1 < len(S) on its path. Scan and merged commands are parsed in goroutines that no recover() protects, so an
// out-of-range index there takes the process down.
func c11Lookahead(c *Ctx) {
	r := c.R
	n := 0
	for _, fn := range c.P.Funcs() {
		pk := load.ShortPkg(fn.Pkg.PkgPath)
		if (pk != "node" && pk != "server") || fn.Decl.Body == nil || strings.HasSuffix(c.P.Fset.Position(fn.Decl.Pos()).Filename, "_test.go") {
			continue
		}
		info := fn.Pkg.TypesInfo
		// slices whose element at a loop index is used as an option name
		optSlices := map[string]bool{}
		ast.Inspect(fn.Decl.Body, func(nd ast.Node) bool {
			call, ok := nd.(*ast.CallExpr)
			if !ok || len(call.Args) != 1 {
				return true
			}
			if f, ok := typeutil.Callee(info, call).(*types.Func); !ok || f.FullName() != "strings.ToLower" {
				return true
			}
			conv, ok := ast.Unparen(call.Args[0]).(*ast.CallExpr)
			if !ok || len(conv.Args) != 1 {
				return true
			}
			if ix, ok := ast.Unparen(conv.Args[0]).(*ast.IndexExpr); ok {
				if _, isId := ast.Unparen(ix.Index).(*ast.Ident); isId {
					optSlices[types.ExprString(ix.X)+"#"+types.ExprString(ix.Index)] = true
				}
			}
			return true
		})
		if len(optSlices) == 0 {
			continue
		}
		u, err := c.W.Unit(fn.Name)
		if err != nil {
			continue
		}
		for _, uu := range append([]*an.Unit{u}, u.Lits()...) {
			for _, b := range uu.G.Blocks {
				if !b.Reachable() {
					continue
				}
				for i, node := range b.Nodes {
					root := ast.Node(node)
					if rh, ok := node.(*flow.RangeHead); ok {
						root = rh.Stmt.X
					}
					ast.Inspect(root, func(m ast.Node) bool {
						if _, isLit := m.(*ast.FuncLit); isLit {
							return false
						}
						ix, ok := m.(*ast.IndexExpr)
						if !ok {
							return true
						}
						be, ok := ast.Unparen(ix.Index).(*ast.BinaryExpr)
						if !ok || be.Op != token.ADD {
							return true
						}
						iv, isId := ast.Unparen(be.X).(*ast.Ident)
						k, isC := info.Types[be.Y]
						if !isId || !isC || k.Value == nil {
							return true
						}
						if !optSlices[types.ExprString(ix.X)+"#"+iv.Name] {
							return true
						}
						n++
						site := &flow.Site{Kind: flow.SUse, Block: b, NodeIdx: i, Pos: ix.Pos(), Ctx: flow.True()}
						sl, idx := uu.C.Term(ix.X), uu.C.Term(ix.Index)
						goal := c.W.Parse(idx + " < len(" + sl + ")")
						pc := uu.SitePC(site)
						res := flow.Implies(pc, goal)
						r.Check("C11-A2", fmt.Sprintf("%s: the option value %s[%s] is read only when it exists", fn.Name, sl, idx), uu.Pos(ix.Pos()), res.Holds,
							"no guard "+idx+" < len("+sl+") on the path: an option name without its value indexes out of range; pc = "+clipS(pc.String(), 300))
						return true
					})
				}
			}
		}
	}
	r.Min("C11-A2", n, 4, "option look-ahead reads in packages node and server")
}

func init() {
	old := registry["C11"].Run
	registry["C11"].Run = func(c *Ctx) {
		old(c)
		c.R.Clause("C11-A6", "a last-element index is guarded by non-emptiness on the command paths")
		n := lastElemGuarded(c, "C11-A6", []string{"node", "server"}, nil)
		c.R.Min("C11-A6", n, 5, "X[len(X)-k] expressions in the command path")
	}
}

func init() {
	old := registry["C11"].Run
	registry["C11"].Run = func(c *Ctx) {
		old(c)
		if os.Getenv("ZR_SURVEY_DIV") != "" {
			divisorNonZero(c, "C11-SURVEY", []string{"node", "server", "cluster/pdnode_coord", "cluster", "rockredis", "common", "cluster/datanode_coord", "engine", "raft", "transport/rafthttp", "wal", "snap"})
		}
	}
}
