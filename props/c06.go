package props

import (
	"go/ast"

	"verif/internal/an"
	"verif/internal/flow"
)

func init() {
	register(&Property{
		ID:          "C06",
		Technique:   "static analysis: dominance/path search on a labelled CFG (ordering of durable effects on the persist/apply/snapshot/restart path), guard implication by truth table, argument provenance on canonical terms",
		Explanation: "Decides the ordering obligations named in the property's anchors on every path: (S1) the snapshot file is written and fsynced before its WAL marker; (S2) in the snapshot goroutine SaveSnap < Sync < Release < UpdateSnapshotState < Compact, each predecessor successful, and for an incoming snapshot persist < Sync < raftDone < ApplySnapshot < Release; (S3) at start the engine data is cleaned or restored from the snapshot's checkpoint before the node is (re)started, and only snapshots at or below the WAL's commit index are considered; (S4) apply completion (snapshot trigger, applyWaitDone, snapshot restore) is reported only after raft persistence was signalled; (S5) the replay boundary is the last WAL entry; (S6) the checkpoint data is complete before the raft snapshot that names it is created and saved. (S6, write-back) the same HLL registration rule as C14-B1: an acknowledged PFADD is in the dirty cache that is flushed before the checkpoint named by the snapshot. (S9) SaveSnapshot stores the WAL's last-entry index only under enti < snapshot index: a marker behind the log's end never lowers it.",
		NotDecided:  "end-to-end equality of served data with the acknowledged history, every crash instant (only the order of durable effects is decided, not their atomicity), purge timing, rsync transfer, engine behaviour.",
		Assumptions: []string{
			"calls to Panic*/Fatal* logger methods do not return",
			"an edge taken only when an error variable is non-nil is an error path, provided the variable is never assigned the literal nil",
			"path conditions are conjunctions of dominating branch conditions",
		},
		Run: runC06,
	})
}

func runC06(c *Ctx) {
	r := c.R
	r.Clause("C06-S1", "snapshot file written and fsynced before its WAL marker")
	r.Clause("C06-S2", "WAL synced before old segments are released; snapshot goroutine and incoming-snapshot orders")
	r.Clause("C06-S3", "engine data cleaned or restored before (re)start; snapshot candidates bounded by the WAL commit index")
	r.Clause("C06-S4", "apply completion reported after raft persistence")
	r.Clause("C06-S5", "replay boundary = last WAL entry")
	r.Clause("C06-S6", "checkpoint data complete before the snapshot naming it is created and saved")
	nilRet := an.Return().Where("nil result", an.LastResultNil)

	if u := c.unit("C06-S1", "node.(*raftPersistStorage).SaveSnap"); u != nil {
		r.Order("C06-S1", u, an.Call("wal.(*WAL).SaveSnapshot"), []an.M{an.Call("snap.(*Snapshotter).SaveSnap")}, an.OrderOpts{Success: an.NilErr, Min: 1})
		r.ArgValues("C06-S1", u, an.Call("snap.(*Snapshotter).SaveSnap"), 0, []string{"p0"}, 1)
		r.ArgValues("C06-S1", u, an.Call("wal.(*WAL).SaveSnapshot"), 0, []string{"walsnap"}, 1)
		r.StoreValues("C06-S1", u, an.LocalStore("walsnap"), []string{"walpb.Snapshot{Index: p0.Metadata.Index, Term: p0.Metadata.Term}"}, 1)
	}
	if u := c.unit("C06-S1", "snap.(*Snapshotter).SaveSnap"); u != nil {
		r.Returns("C06-S1", u, []an.ReturnClass{
			{Name: "through save", Match: an.LastResultCall("snap.(*Snapshotter).save")},
			{Name: "nil for an empty snapshot", Match: an.LastResultNil, Guard: "raft.IsEmptySnap(p0)"},
		}, 2)
	}
	if u := c.unit("C06-S1", "snap.(*Snapshotter).save"); u != nil {
		r.Order("C06-S1", u, nilRet, []an.M{an.Call("pkg/ioutil.WriteAndSyncFile")}, an.OrderOpts{Success: an.NilErr, Min: 1})
		r.Returns("C06-S1", u, []an.ReturnClass{{Name: "error", Match: an.ErrorReturn}, {Name: "nil", Match: an.LastResultNil}}, 3)
	}
	if u := c.unit("C06-S1", "pkg/ioutil.WriteAndSyncFile"); u != nil {
		r.Order("C06-S1", u, an.Return(), []an.M{an.Call("pkg/fileutil.Fsync")}, an.OrderOpts{SkipErrEdges: true, Min: 1})
		r.Order("C06-S1", u, an.Call("pkg/fileutil.Fsync"), []an.M{an.Call("os.(*File).Write")}, an.OrderOpts{Min: 1})
		r.ArgValues("C06-S1", u, an.Call("os.(*File).Write"), 0, []string{"p1"}, 1)
	}

	// S2 / S6: the snapshot goroutine
	if u := c.lit("C06-S2", "node.(*raftNode).beginSnapshot", an.Call("node.IRaftPersistStorage.SaveSnap")); u != nil {
		chain := []struct {
			rule string
			b, a an.M
			s    an.Success
		}{
			{"C06-S6", an.Call("raft.IExtRaftStorage.CreateSnapshot"), an.Call("node.Snapshot.GetData"), an.NilErr},
			{"C06-S6", an.Call("node.IRaftPersistStorage.SaveSnap"), an.Call("raft.IExtRaftStorage.CreateSnapshot"), an.NilErr},
			{"C06-S2", an.Call("node.IRaftPersistStorage.Sync"), an.Call("node.IRaftPersistStorage.SaveSnap"), an.NilErr},
			{"C06-S2", an.Call("node.IRaftPersistStorage.Release"), an.Call("node.IRaftPersistStorage.Sync"), an.NilErr},
			{"C06-S2", an.Call("node.DataStorage.UpdateSnapshotState"), an.Call("node.IRaftPersistStorage.Release"), an.NilErr},
			{"C06-S2", an.Call("raft.IExtRaftStorage.Compact"), an.Call("node.DataStorage.UpdateSnapshotState"), an.Reached},
		}
		for _, ch := range chain {
			r.Order(ch.rule, u, ch.b, []an.M{ch.a}, an.OrderOpts{Success: ch.s, Min: 1})
		}
		r.ArgValues("C06-S2", u, an.Call("node.IRaftPersistStorage.SaveSnap"), 0, []string{"snap"}, 1)
		r.ArgValues("C06-S2", u, an.Call("node.IRaftPersistStorage.Release"), 0, []string{"snap"}, 1)
		r.ArgValues("C06-S6", u, an.Call("raft.IExtRaftStorage.CreateSnapshot"), 0, []string{"p1"}, 1)
		r.ArgValues("C06-S6", u, an.Call("raft.IExtRaftStorage.CreateSnapshot"), 2, []string{"data"}, 1)
	}
	hllWriteBack(c, "C06-S6")
	// the flush of the dirty HLL cache precedes the checkpoint request, and it is the *current* cache that is flushed
	// (reOpenEng replaces the cache object on every restore)
	if u := c.unit("C06-S6", "rockredis.(*RockDB).Backup"); u != nil {
		fl := an.Call("rockredis.(*hllCache).Flush")
		r.Order("C06-S6", u, an.Send("recv.backupC"), []an.M{fl}, an.OrderOpts{Min: 1})
		for _, s := range u.Match(fl) {
			sel, ok := s.Call.Fun.(*ast.SelectorExpr)
			r.Check("C06-S6", u.Name+": the cache flushed is the store's current one (recv.hllCache)", u.Pos(s.Pos), ok && u.C.Term(sel.X) == "recv.hllCache", "")
		}
	}
	// the snapshot goroutine reads the checkpoint result only after the checkpoint is complete (same rule as C14-B2)
	if u := c.unit("C06-S6", "rockredis.(*BackupInfo).GetResult"); u != nil {
		r.Order("C06-S6", u, an.Return(), []an.M{an.Recv("recv.done")}, an.OrderOpts{Min: 1})
	}
	if u := c.unit("C06-S6", "node.(*raftNode).beginSnapshot"); u != nil {
		// the engine checkpoint is requested synchronously (outside the goroutine), see also C14-B2
		r.Order("C06-S6", u, an.AnyCall().Where("go statement", func(u *an.Unit, s *an.Site) bool { return s.Go }),
			[]an.M{an.Call("node.DataStorage.GetSnapshot")}, an.OrderOpts{Success: an.NilErr, Min: 1})
	}
	if u := c.unit("C06-S2", "node.(*raftNode).processReady"); u != nil {
		r.Order("C06-S2", u, an.Call("raft.IExtRaftStorage.ApplySnapshot"), []an.M{an.Send("raftDone")}, an.OrderOpts{Min: 1})
		r.Order("C06-S2", u, an.Call("raft.IExtRaftStorage.ApplySnapshot"), []an.M{an.Call("node.IRaftPersistStorage.Sync")}, an.OrderOpts{Success: an.NilErr, Min: 1})
		r.Order("C06-S2", u, an.Call("node.IRaftPersistStorage.Release"), []an.M{an.Call("raft.IExtRaftStorage.ApplySnapshot")}, an.OrderOpts{Min: 1})
		r.Order("C06-S2", u, an.Call("node.IRaftPersistStorage.Sync"), []an.M{an.Call("node.(*raftNode).persistRaftState")}, an.OrderOpts{Success: an.NilErr, Min: 1})
		r.Guard("C06-S2", u, an.Call("raft.IExtRaftStorage.ApplySnapshot"), "!raft.IsEmptySnap(p0.Snapshot)", an.GuardOpts{Min: 1})
	}
	if u := c.unit("C06-S2", "node.(*raftNode).persistRaftState"); u != nil {
		r.Order("C06-S2", u, an.Call("node.IRaftPersistStorage.Save"), []an.M{an.Call("node.IRaftPersistStorage.SaveSnap")},
			an.OrderOpts{Success: an.NilErr, Assume: "!raft.IsEmptySnap(p0.Snapshot)", Min: 1})
	}

	// S3
	if u := c.unit("C06-S3", "node.(*raftNode).startRaft"); u != nil {
		restart := an.Call("node.(*raftNode).restartNode", "node.(*raftNode).restartAsStandaloneNode")
		r.Order("C06-S3", u, restart,
			[]an.M{an.Call("node.DataStorage.CleanData"), an.Call("node.DataStorage.RestoreFromSnapshot").Ok(an.NilErr)},
			an.OrderOpts{Assume: "!common.IsConfSetted(common.ConfIgnoreStartupNoBackup)", Min: 2})
		r.Order("C06-S3", u, an.Call("node.DataStorage.RestoreFromSnapshot"), []an.M{an.Call("node.DataStorage.PrepareSnapshot")}, an.OrderOpts{Success: an.NilErr, Min: 1})
		r.Order("C06-S3", u, an.Call("raft.StartNode"), []an.M{an.Call("node.DataStorage.CleanData")}, an.OrderOpts{Min: 1})
		r.Guard("C06-S3", u, restart, "oldwal", an.GuardOpts{Min: 2})
		r.Guard("C06-S3", u, an.Call("raft.StartNode"), "!oldwal", an.GuardOpts{Min: 1})
		r.StoreValues("C06-S3", u, an.LocalStore("oldwal"), []string{"wal.Exist(recv.config.WALDir)"}, 1)
		r.ArgValues("C06-S3", u, restart, 1, []string{"snapshot"}, 2)
		r.ArgValues("C06-S3", u, an.Call("node.DataStorage.RestoreFromSnapshot"), 0, []string{"*snapshot"}, 1)
		r.ArgValues("C06-S3", u, an.Call("node.IRaftPersistStorage.LoadNewestAvailable"), 0, []string{"walSnaps"}, 1)
		r.ArgValues("C06-S3", u, an.Call("wal.ValidSnapshotEntries"), 0, []string{"recv.config.WALDir"}, 1)
		r.Order("C06-S3", u, restart, []an.M{an.Call("node.IRaftPersistStorage.LoadNewestAvailable")}, an.OrderOpts{Min: 2})
	}
	if u := c.unit("C06-S3", "wal.ValidSnapshotEntries"); u != nil {
		// a snapshot marker is kept only when it is at or below the committed index recorded in the WAL
		r.Guard("C06-S3", u, an.StoreTerm("snaps[n]"), "!(state.Commit < s.Index)", an.GuardOpts{Min: 1})
		// a torn tail (EOF / unexpected EOF / oversized garbage length) is tolerated here: the repair happens when the WAL is opened
		r.Guard("C06-S3", u, an.Return().Where("decode error passed on", func(u *an.Unit, s *an.Site) bool {
			return len(s.Ret.Results) == 2 && u.C.Term(s.Ret.Results[1]) == "err" && u.C.Term(s.Ret.Results[0]) == "nil" && s.Pos > u.Match(an.Call("wal.newDecoder"))[0].Pos
		}), "!(err == io.EOF) && !(err == io.ErrUnexpectedEOF)", an.GuardOpts{Min: 1})
		r.Returns("C06-S3", u, []an.ReturnClass{
			{Name: "error", Match: an.ErrorReturn},
			{Name: "filtered list", Match: func(u *an.Unit, s *an.Site) bool {
				return len(s.Ret.Results) == 2 && u.C.Term(s.Ret.Results[0]) == "snaps"
			}},
		}, 5)
		r.Order("C06-S3", u, an.Return().Where("returns the list", func(u *an.Unit, s *an.Site) bool {
			return len(s.Ret.Results) == 2 && u.C.Term(s.Ret.Results[0]) == "snaps"
		}), []an.M{an.StoreTerm("snaps").Where("truncation to the kept prefix", func(u *an.Unit, s *an.Site) bool {
			return s.RHS != nil && u.C.Term(s.RHS) == "snaps[:n:n]"
		})}, an.OrderOpts{Min: 1})
	}
	for _, fn := range []string{"node.(*raftNode).restartNode", "node.(*raftNode).restartAsStandaloneNode"} {
		if u := c.unit("C06-S3", fn); u != nil {
			r.Order("C06-S3", u, an.Call("raft.RestartNode"), []an.M{an.Call("node.(*raftNode).replayWAL")}, an.OrderOpts{Success: an.NilErr, Min: 1})
			r.ArgValues("C06-S3", u, an.Call("node.(*raftNode).replayWAL"), 0, []string{"p1"}, 1)
		}
	}

	// S4
	if u := c.unit("C06-S4", "node.(*KVNode).applyCommits"); u != nil {
		r.Order("C06-S4", u, an.Call("node.(*KVNode).maybeTriggerSnapshot"), []an.M{an.Recv("ent.raftDone")}, an.OrderOpts{Min: 1})
		r.Order("C06-S4", u, an.Call("builtin.close"), []an.M{an.Recv("ent.raftDone")}, an.OrderOpts{Min: 1})
		r.ArgValues("C06-S4", u, an.Call("builtin.close"), 0, []string{"ent.applyWaitDone"}, 1)
	}
	if u := c.unit("C06-S4", "node.(*KVNode).applySnapshot"); u != nil {
		r.Order("C06-S4", u, an.Call("node.(*KVNode).RestoreFromSnapshot"), []an.M{an.Recv("p1.raftDone")}, an.OrderOpts{Min: 1})
		r.Order("C06-S4", u, an.Call("node.(*KVNode).RestoreFromSnapshot"), []an.M{an.Call("node.(*KVNode).PrepareSnapshot")}, an.OrderOpts{Success: an.NilErr, Min: 1})
		r.Order("C06-S4", u, an.Store("node.nodeProgress.appliedi"), []an.M{an.Call("node.(*KVNode).RestoreFromSnapshot")},
			an.OrderOpts{Success: an.NilErr, Assume: "!node.enableSnapApplyTest", Min: 1})
		r.StoreValues("C06-S4", u, an.Store("node.nodeProgress.appliedi"), []string{"p1.snapshot.Metadata.Index"}, 1)
	}

	// S5
	if u := c.unit("C06-S5", "node.(*raftNode).replayWAL"); u != nil {
		r.StoreValues("C06-S5", u, an.Store("node.raftNode.lastIndex"), []string{"ents[(len(ents) - 1)].Index"}, 1)
		r.Order("C06-S5", u, an.Store("node.raftNode.lastIndex"), []an.M{an.Call("raft.IExtRaftStorage.Append")}, an.OrderOpts{Min: 1})
	}
	if u := c.unit("C06-S5", "node.(*KVNode).applyEntries"); u != nil {
		r.StoreValues("C06-S5", u, an.LocalStore("isReplaying"), []string{"(ents[i].Index <= recv.rn.lastIndex)"}, 1)
	}
}

// S7: a data node with a one-member group answers a write only after the entry is in its WAL. The leader of such a
// group commits an entry in the very Ready that asks to persist it, and the apply loop — which answers the client — gets
// the committed entries from publishEntries. So in processReady, whenever the committed entries of the Ready overlap the
// entries it still has to persist (shouldWaitWALSync) and no snapshot is being installed, publishEntries is preceded by a
// successful persistRaftState.
func c06S7(c *Ctx) {
	r := c.R
	r.Clause("C06-S7", "committed entries that are still to be persisted are saved before they are published to the apply loop")
	u := c.unit("C06-S7", "node.(*raftNode).processReady")
	if u == nil {
		return
	}
	// the decision is taken once, before anything is published (the same value decides that the later save is skipped);
	// it is held in a local when the code keeps it, which is then the thing to assume
	assume := "raft.IsEmptySnap(p0.Snapshot) && node.shouldWaitWALSync(p0)"
	for _, s := range u.Sites {
		if s.Kind == flow.SStore && s.Local != nil && s.RHS != nil {
			if t := u.C.Formula(flow.FromExpr(s.RHS)); flow.Implies(t, c.W.Parse(assume)).Holds && flow.Implies(c.W.Parse(assume), t).Holds {
				assume = u.C.Term(s.LHS)
			}
		}
	}
	r.Order("C06-S7", u, an.Call("node.(*raftNode).publishEntries"), []an.M{an.Call("node.(*raftNode).persistRaftState").Ok(an.NilErr)},
		an.OrderOpts{Assume: assume, Min: 1})
	// the overlap test itself: the last committed entry is not older than the first entry still to persist
	if su := c.unit("C06-S7", "node.shouldWaitWALSync"); su != nil {
		r.Truth("C06-S7", su, "!(len(p0.CommittedEntries) == 0 || len(p0.Entries) == 0) && "+
			"(p0.Entries[0].Term < p0.CommittedEntries[len(p0.CommittedEntries)-1].Term || "+
			"(p0.CommittedEntries[len(p0.CommittedEntries)-1].Term == p0.Entries[0].Term && !(p0.CommittedEntries[len(p0.CommittedEntries)-1].Index < p0.Entries[0].Index)))", an.Equiv)
	}
}

func init() {
	old := registry["C06"].Run
	registry["C06"].Run = func(c *Ctx) { old(c); c06S7(c) }
}

// S8 (mirrors of C14-B2 and C05-R4, the two neighbouring mechanisms a restart depends on): the snapshot recorded as
// <term>-<index> must not contain entries after index, or the WAL replay after a restart applies them twice —
// GetSnapshot returns to the apply loop only after the checkpoint has pinned its view (WaitReady); and a reader that moves
// on to the next WAL segment restarts its valid-offset count, or the tail segment is appended at the wrong offset and the
// next restart fails on a CRC mismatch.
func c06S8(c *Ctx) {
	r := c.R
	r.Clause("C06-S8", "the apply loop resumes only after the checkpoint pinned its view; segment switch resets the valid offset (mirrors)")
	if u := c.unit("C06-S8", "node.(*kvStoreSM).GetSnapshot"); u != nil {
		ok := an.Return().Where("success", func(u *an.Unit, s *an.Site) bool { return !an.ErrorReturn(u, s) })
		r.OrderSites("C06-S8", u, u.Match(ok), nil, []an.M{an.Call("rockredis.(*BackupInfo).WaitReady")}, an.OrderOpts{})
	}
	if u := c.unit("C06-S8", "wal.(*decoder).decodeRecord"); u != nil {
		zero := an.Store("wal.decoder.lastValidOff").Where("= 0", func(u *an.Unit, s *an.Site) bool { return s.RHS != nil && u.C.Term(s.RHS) == "0" })
		r.Follow("C06-S8", u, an.Store("wal.decoder.brs"), []an.M{zero}, an.FollowOpts{ErrorExitsExempt: true, Min: 1})
	}
}

func init() {
	old := registry["C06"].Run
	registry["C06"].Run = func(c *Ctx) { old(c); c06S8(c) }
}

// S9: the WAL's last-entry index never moves backwards. cut() names the next segment file after it and the restart
// picks the segment to start reading from by those names: a snapshot marker written for an index below the last entry
// (the snapshot goroutine runs behind the log) must not lower it.
func c06S9(c *Ctx) {
	r := c.R
	r.Clause("C06-S9", "a snapshot marker behind the log's end does not lower the WAL's last index")
	u := c.unit("C06-S9", "wal.(*WAL).SaveSnapshot")
	if u == nil {
		return
	}
	st := u.Match(an.Store("wal.WAL.enti"))
	for _, s := range st {
		r.GuardSite("C06-S9", u, s, c.W.Parse("recv.enti < p0.Index"), "only a snapshot ahead of the last entry advances the last index")
		r.Check("C06-S9", u.Name+": the last index becomes the snapshot's index", u.Pos(s.Pos), s.RHS != nil && u.C.Term(s.RHS) == "p0.Index", "")
	}
	r.Min("C06-S9", len(st), 1, "stores to the last index in SaveSnapshot")
}

func init() {
	old := registry["C06"].Run
	registry["C06"].Run = func(c *Ctx) { old(c); c06S9(c) }
}
