package props

import (
	"go/ast"
	"go/types"
	"strings"

	"verif/internal/an"
	"verif/internal/flow"
)

func init() {
	register(&Property{
		ID:        "C03",
		Technique: "static analysis: dominance/path search on a labelled CFG (persist-before-send ORDER rules), guard implication by truth table, return-shape classification, value checks on canonical terms",
		Explanation: "Decides the structural necessary conditions of durability of committed entries: (P1) in the production Ready loop every message send is dominated by a successful persistRaftState unless the node is the new leader; (P2) Advance and every raftDone acknowledgement are dominated by a successful persist (and by a successful WAL Sync when the Ready carries a snapshot), and the in-memory raft storage is appended before Advance; (P3) the persist call chain ends in a sync: every non-error return of WAL.Save under mustSync goes through sync or cut, cut syncs before rename and fsyncs the directory after, SaveSnapshot returns through sync, sync skips fdatasync only when told, and the fsync flag is forced when the vote/term changed or the optimisation is off; (P4) hard state {Term,Vote,Commit} is saved, compared, sync-triggering and restored field by field, and restart feeds the WAL contents to the raft storage before the node is restarted.",
		NotDecided: "the behaviour itself: that fsync works, crash atomicity inside the kernel, correctness of RocksStorage/MemoryStorage contents, I/O error handling (outside the property's quantifier), the interplay across replicas.",
		Assumptions: []string{
			"calls to Panic*/Fatal* logger methods do not return",
			"path conditions are conjunctions of dominating branch conditions (weaker than the real condition, so implications are sound)",
			"a conjunct is dropped when a local or access path it reads is assigned in the function between branch and site; writes through callees are not tracked",
		},
		Run: runC03,
	})
}

func runC03(c *Ctx) {
	r := c.R
	persist := an.Call("node.(*raftNode).persistRaftState")
	r.Clause("C03-P1", "processReady: Transport.Send is preceded by a successful persistRaftState unless isMeNewLeader")
	r.Clause("C03-P2", "processReady: Advance / raftDone sends preceded by successful persist (+ Sync when a snapshot is present); storage Append before Advance")
	r.Clause("C03-P3", "WAL.Save/cut/SaveSnapshot/sync: persist chain ends in a sync")
	r.Clause("C03-P4", "hard-state field agreement (hardState/loadState/isHardStateEqual/MustSync/newReady) and restart order")
	if u := c.unit("C03-P1", "node.(*raftNode).processReady"); u != nil {
		r.Order("C03-P1", u, an.Call("transport/rafthttp.Transporter.Send"), []an.M{persist},
			an.OrderOpts{Success: an.NilErr, Unless: "isMeNewLeader", Min: 2})
		r.StoreValues("C03-P1", u, an.LocalStore("isMeNewLeader"), []string{"false", "(p0.RaftState == raft.StateLeader)"}, 2)
		r.Order("C03-P2", u, an.Call("raft.Node.Advance"), []an.M{persist}, an.OrderOpts{Success: an.NilErr, Min: 1})
		r.Order("C03-P2", u, an.Send("raftDone"), []an.M{persist}, an.OrderOpts{Success: an.NilErr, Min: 3})
		r.Order("C03-P2", u, an.Send("raftDone"), []an.M{an.Call("node.IRaftPersistStorage.Sync")},
			an.OrderOpts{Success: an.NilErr, Assume: "!raft.IsEmptySnap(p0.Snapshot)", Min: 3})
		r.Order("C03-P2", u, an.Call("raft.Node.Advance"), []an.M{an.Call("raft.IExtRaftStorage.Append")}, an.OrderOpts{Min: 1})
		r.ArgValues("C03-P2", u, an.Call("raft.IExtRaftStorage.Append"), 0, []string{"p0.Entries"}, 1)
		r.ArgValues("C03-P2", u, persist, 0, []string{"&p0"}, 1)
	}
	if u := c.unit("C03-P2", "node.(*raftNode).persistRaftState"); u != nil {
		save := an.Call("node.IRaftPersistStorage.Save")
		r.ArgValues("C03-P2", u, save, 0, []string{"p0.HardState"}, 1)
		r.ArgValues("C03-P2", u, save, 1, []string{"p0.Entries"}, 1)
		r.Returns("C03-P2", u, []an.ReturnClass{
			{Name: "error", Match: an.ErrorReturn},
			{Name: "nil after Save succeeded", Match: an.LastResultNil},
		}, 3)
		r.Order("C03-P2", u, an.Return().Where("nil result", an.LastResultNil), []an.M{save}, an.OrderOpts{Success: an.NilErr, Min: 1})
		r.Order("C03-P2", u, an.Return().Where("nil result", an.LastResultNil), []an.M{an.Call("node.IRaftPersistStorage.SaveSnap")},
			an.OrderOpts{Success: an.NilErr, Assume: "!raft.IsEmptySnap(p0.Snapshot)", Min: 1})
	}
	// the interface is implemented by *wal.WAL through embedding in raftPersistStorage
	if c.P.Func("node.(*raftPersistStorage).Save") != nil {
		r.Unknown("C03-P3", "raftPersistStorage.Save", "", "raftPersistStorage now defines Save itself; the rule table assumes it is promoted from the embedded *wal.WAL")
	}
	if u := c.unit("C03-P3", "wal.(*WAL).Save"); u != nil {
		r.Returns("C03-P3", u, []an.ReturnClass{
			{Name: "through sync/cut", Match: an.LastResultCall("wal.(*WAL).sync", "wal.(*WAL).cut")},
			{Name: "error", Match: an.ErrorReturn},
			{Name: "nil without sync", Match: an.LastResultNil, Guard: "!mustSync || (raft.IsEmptyHardState(p0) && len(p1) == 0)"},
		}, 6)
		r.StoreValues("C03-P3", u, an.LocalStore("mustSync"), []string{"raft.MustSync(p0, recv.state, len(p1))"}, 1)
		// the fsync decision handed to sync, whatever its arrangement (a flag overridden in an if, one expression): a real
		// fsync unless the optimized mode is on, and even then whenever the vote or the term changes
		wantSync := c.W.Parse("!recv.optimizedFsync || (!raft.IsEmptyHardState(p0) && (p0.Vote != recv.state.Vote || p0.Term != recv.state.Term))")
		for _, s := range u.Match(an.Call("wal.(*WAL).sync")) {
			got, ok := boolValueAt(u, s.Call.Args[0], s)
			if !ok {
				r.Unknown("C03-P3", u.Name+": the fsync decision handed to sync", u.Pos(s.Pos), "the argument is neither an expression nor a flag with simple conditional overrides")
				continue
			}
			fw, bw := flow.Implies(got, wantSync), flow.Implies(wantSync, got)
			r.Check("C03-P3", u.Name+": sync is told to fsync iff the optimized mode is off or the vote/term changed", u.Pos(s.Pos),
				fw.Holds && bw.Holds && fw.Undecided == "" && bw.Undecided == "", "decision: "+got.String())
		}
		saved := []an.M{an.Call("wal.(*WAL).saveState")}
		r.Order("C03-P3", u, an.Call("wal.(*WAL).sync", "wal.(*WAL).cut"), saved, an.OrderOpts{Success: an.NilErr, Min: 2})
		r.ArgValues("C03-P3", u, an.Call("wal.(*WAL).saveEntry"), 0, []string{"&p1[i]"}, 1)
		r.ArgValues("C03-P3", u, an.Call("wal.(*WAL).saveState"), 0, []string{"&p0"}, 1)
		// record order inside one Save: the hard-state record (which carries the commit index) is written after the
		// entries, so a torn tail never leaves a commit index beyond the entries that survived
		for _, st := range u.Match(an.Call("wal.(*WAL).saveState")) {
			bad := ""
			for _, e := range u.Match(an.Call("wal.(*WAL).saveEntry")) {
				if reaches(u, st, e) {
					bad = u.Pos(e.Pos)
				}
			}
			r.Check("C03-P3", u.Name+": no entry record is written after the hard-state record of the same Save", u.Pos(st.Pos), bad == "", "saveEntry at "+bad+" is reachable after saveState")
			// the sync decision compares with the previous state: it is taken before saveState replaces recv.state
			late := ""
			for _, s := range u.Sites {
				if s == st || !reaches(u, st, s) {
					continue
				}
				var e ast.Expr
				switch {
				case s.Kind == flow.SCall && s.Call != nil:
					e = s.Call
				case s.Kind == flow.SStore && s.RHS != nil:
					e = s.RHS
				}
				if e == nil {
					continue
				}
				found := false
				ast.Inspect(e, func(n ast.Node) bool {
					if sel, ok := n.(*ast.SelectorExpr); ok && sel.Sel.Name == "state" {
						if f, ok := u.Info().ObjectOf(sel.Sel).(*types.Var); ok && f.IsField() && c.W.FieldNames[f] == "wal.WAL.state" {
							found = true
						}
					}
					return !found
				})
				if found {
					late = u.Pos(s.Pos)
				}
			}
			r.Check("C03-P3", u.Name+": the previous hard state is not consulted after saveState replaced it", u.Pos(st.Pos), late == "", "recv.state is read at "+late+", after saveState stored the new state: a vote or term change can no longer be seen")
		}
	}
	if u := c.unit("C03-P3", "wal.(*WAL).saveState"); u != nil {
		r.Require("C03-P3", u, an.Store("wal.WAL.state"), "Save compares the next hard state with the one recorded here")
	}
	if u := c.unit("C03-P3", "wal.(*WAL).cut"); u != nil {
		r.Order("C03-P3", u, an.Call("os.Rename"), []an.M{an.Call("wal.(*WAL).sync")}, an.OrderOpts{Success: an.NilErr, Min: 1})
		r.Follow("C03-P3", u, an.Call("os.Rename"), []an.M{an.Call("pkg/fileutil.Fsync")}, an.FollowOpts{FromSuccess: an.NilErr, ErrorExitsExempt: true, Min: 1})
		r.Order("C03-P3", u, an.Return().Where("nil result", an.LastResultNil), []an.M{an.Call("pkg/fileutil.Fsync")}, an.OrderOpts{Success: an.NilErr, Min: 1})
	}
	if u := c.unit("C03-P3", "wal.(*WAL).SaveSnapshot"); u != nil {
		r.Returns("C03-P3", u, []an.ReturnClass{
			{Name: "through sync", Match: an.LastResultCall("wal.(*WAL).sync")},
			{Name: "error", Match: an.ErrorReturn},
		}, 2)
		r.Order("C03-P3", u, an.Call("wal.(*WAL).sync"), []an.M{an.Call("wal.(*encoder).encode")}, an.OrderOpts{Success: an.NilErr, Min: 1})
	}
	if u := c.unit("C03-P3", "wal.(*WAL).sync"); u != nil {
		r.Order("C03-P3", u, an.Return().Where("not an error return", func(u *an.Unit, s *an.Site) bool { return !an.ErrorReturn(u, s) }),
			[]an.M{an.Call("pkg/fileutil.Fdatasync")}, an.OrderOpts{Assume: "p0", Min: 2})
		r.Order("C03-P3", u, an.Call("pkg/fileutil.Fdatasync"), []an.M{an.Call("wal.(*encoder).flush")}, an.OrderOpts{Success: an.NilErr, Assume: "recv.encoder != nil", Min: 1})
		// also without fsync the buffered records are handed to the file (they survive a killed process)
		r.Order("C03-P3", u, an.Return().Where("not an error return", func(u *an.Unit, s *an.Site) bool { return !an.ErrorReturn(u, s) }),
			[]an.M{an.Call("wal.(*encoder).flush")}, an.OrderOpts{Assume: "recv.encoder != nil", Min: 2})
	}
	// P4
	if u := c.unit("C03-P4", "raft.(*raft).hardState"); u != nil {
		r.ReturnTerm("C03-P4", u, 0, "raftpb.HardState{Commit: recv.raftLog.committed, Term: recv.Term, Vote: recv.Vote}")
	}
	if u := c.unit("C03-P4", "raft.(*raft).loadState"); u != nil {
		r.StoreValues("C03-P4", u, an.Store("raft.raft.Vote"), []string{"p0.Vote"}, 1)
		r.StoreValues("C03-P4", u, an.Store("raft.raft.Term"), []string{"p0.Term"}, 1)
		r.StoreValues("C03-P4", u, an.Store("raft.raftLog.committed"), []string{"p0.Commit"}, 1)
		// all three are restored on every path that returns (the range check panics, which is no return)
		for _, f := range []string{"raft.raft.Vote", "raft.raft.Term", "raft.raftLog.committed"} {
			r.Order("C03-P4", u, an.Return(), []an.M{an.Store(f)}, an.OrderOpts{Min: 1})
		}
	}
	if u := c.unit("C03-P4", "raft.isHardStateEqual"); u != nil {
		r.ReturnFormula("C03-P4", u, "p0.Term == p1.Term && p0.Vote == p1.Vote && p0.Commit == p1.Commit", an.ActualImpliesWant)
	}
	if u := c.unit("C03-P4", "raft.MustSync"); u != nil {
		r.ReturnFormula("C03-P4", u, "p2 != 0 || p0.Vote != p1.Vote || p0.Term != p1.Term", an.WantImpliesActual)
	}
	if u := c.unit("C03-P4", "raft.newReady"); u != nil {
		r.StoreValues("C03-P4", u, an.Store("raft.Ready.MustSync"), []string{"raft.MustSync(p0.hardState(), p2, len(rd.Entries))"}, 1)
		r.StoreValues("C03-P4", u, an.Store("raft.Ready.HardState"), []string{"p0.hardState()"}, 1)
		r.StoreValues("C03-P4", u, an.LocalStore("hardSt"), []string{"p0.hardState()"}, 1)
		// the hard state is handed out whenever it differs from the previous one
		r.Order("C03-P4", u, an.Return(), []an.M{an.Store("raft.Ready.HardState")}, an.OrderOpts{Assume: "!raft.isHardStateEqual(p0.hardState(), p2)", Min: 1})
		r.StoreValues("C03-P4", u, an.LocalStore("rd"), []string{"raft.Ready{Entries: p0.raftLog.unstableEntries(), Messages: p0.msgs}"}, 1)
	}
	if u := c.unit("C03-P4", "node.(*raftNode).replayWAL"); u != nil {
		ret := an.Return().Where("nil result", an.LastResultNil)
		r.Order("C03-P4", u, ret, []an.M{an.Call("raft.IExtRaftStorage.SetHardState")}, an.OrderOpts{Min: 1})
		r.Order("C03-P4", u, ret, []an.M{an.Call("raft.IExtRaftStorage.Append")}, an.OrderOpts{Min: 1})
		r.ArgValues("C03-P4", u, an.Call("raft.IExtRaftStorage.SetHardState"), 0, []string{"st"}, 1)
		r.ArgValues("C03-P4", u, an.Call("raft.IExtRaftStorage.Append"), 0, []string{"ents"}, 1)
		r.Order("C03-P4", u, ret, []an.M{an.Call("raft.IExtRaftStorage.ApplySnapshot")}, an.OrderOpts{Assume: "p0 != nil", Min: 1})
		// entries read from the WAL are dropped only for the forced stand-alone restart
		cut := an.LocalStore("ents").Where("truncation", func(u *an.Unit, s *an.Site) bool { return s.RHS != nil && strings.HasPrefix(u.C.Term(s.RHS), "ents[:") })
		r.Guard("C03-P4", u, cut, "p1", an.GuardOpts{Min: 1})
	}
	// P5: the durable log replaces a conflicting suffix
	r.Clause("C03-P5", "RocksStorage.addEntries deletes the stale tail after a shorter overwrite")
	if u := c.unit("C03-P5", "raft.(*RocksStorage).addEntries"); u != nil {
		setc := an.Call("raft.(*RocksStorage).setCachedLastIndex")
		del := an.Call("raft.(*RocksStorage).deleteFrom")
		r.Order("C03-P5", u, setc, []an.M{an.Call("raft.(*RocksStorage).LastIndex").Ok(an.NilErr)}, an.OrderOpts{Min: 1})
		r.Guard("C03-P5", u, del, "p1[len(p1)-1].Index < last", an.GuardOpts{Min: 1})
		r.ArgValues("C03-P5", u, del, 1, []string{"(1 + p1[(len(p1) - 1)].Index)"}, 1)
		r.Follow("C03-P5", u, an.Call("raft.(*RocksStorage).writeEnts"), []an.M{del}, an.FollowOpts{Assume: "p1[len(p1)-1].Index < last", Min: 1})
		lastDef := u.Match(an.LocalStore("last"))
		r.Check("C03-P5", u.Name+": `last` is the storage's last index before this append", "", len(lastDef) == 1 && lastDef[0].Tuple != nil && u.C.Term(lastDef[0].Tuple) == "recv.LastIndex()", "")
	}
}
