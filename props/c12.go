package props

import (
	"fmt"
	"go/ast"
	"go/constant"
	"go/types"
	"strings"

	"verif/internal/an"
	"verif/internal/flow"
	"verif/internal/load"
)

func init() {
	register(&Property{
		ID:          "C12",
		Technique:   "static analysis: ORDER rules over the byte-buffer key encoders (a variable-length segment is copied only after its own length prefix), shape and constant checks on the stop-key constructors, argument agreement of range-bound pairs, exhaustiveness of complementary deletion guards by truth table, expression shape of the integer codec, case-set agreement between the tuple codec's encoder and decoder",
		Explanation: "Decides structural conditions of key isolation: (K1) in every raw key encoder of package rockredis that fills a buffer through a cursor, each variable-length segment that is not the trailing one is preceded by a 2-byte length field of that same segment (the table of non-KV types, the key of collection sub-keys, zset/list/bitmap keys); (K2) every stop key is 'start key with the last byte + 1' applied to a key whose last byte is the constant separator (the start encoder is called with an empty trailing segment), the separators are constants below 0xff and stop separator = start separator + 1; range deletions use both ends of one collection (shared with C09-N5); (K4) whole-table ranges are built from the same (type, table) on both ends; (K5) the order-preserving integer transform is x XOR signbit on both directions and the tuple codec decodes the flags it encodes; (K6) a collection clear deletes its elements on every size: the per-element and the range deletion guards are complementary. (K7) table isolation in key scans: the node-level SCAN/ADVSCAN commands cut a page at the first key whose extracted table differs (bytes.Equal) from the cursor's table and no table test in node/scan.go is a prefix comparison (same rule as C13-Q2). K5 also covers the float codec (sign bit SET for f >= 0, which includes -0.0; inverted for f < 0; the decoder clears/inverts under the matching test). K7 also requires that a name-derived prefix used in a bytes.HasPrefix test in package rockredis has the table separator appended (index build). (K9) in getTableMetaRange every store to the bound under construction is table name + separator, an extension of the bound or a reset, and such a store precedes each encoding on all paths; (K2, range pairs) a DeleteRange whose ends come from two different encoders that are not a start/stop pair is reported.",
		NotDecided:  "EncodeMemCmpKey/Decode round-trip and order preservation for bytes and floats (bytewise numeric reasoning), decoder bounds checks against corrupted stored keys, 2-byte length overflow (CheckKey limits), that table names contain no ':' for the KV type (relied upon; noted).",
		Assumptions: []string{"the encoders are recognised by their idiom: buf[pos] = c, pos += n, binary.BigEndian.PutUint16(buf[pos:], uint16(len(x))), copy(buf[pos:], x)"},
		Run:         runC12,
	})
}

func runC12(c *Ctx) {
	r := c.R
	r.Clause("C12-K1", "variable-length key segments are length-prefixed")
	r.Clause("C12-K2", "stop key = start key with its constant separator + 1; range bounds address one collection")
	r.Clause("C12-K4", "table ranges use the same (type, table) on both ends")
	r.Clause("C12-K5", "integer codec is XOR sign bit both ways; tuple codec flags agree")
	r.Clause("C12-K6", "clear deletes the elements for every size")
	r.Clause("C12-K7", "a table scan never returns keys of another table: pages are cut by exact table equality")
	c13TableCut(c, "C12-K7")
	c12PrefixWithSeparator(c)
	c12LimitsFitPrefix(c)
	c12StartKeyIncluded(c, "C12-K2")
	nEnc := 0
	for _, fn := range c.P.Funcs() {
		if load.ShortPkg(fn.Pkg.PkgPath) != "rockredis" || fn.Decl.Body == nil {
			continue
		}
		u, err := c.W.Unit(fn.Name)
		if err != nil {
			continue
		}
		copies := u.Match(an.Call("builtin.copy").Where("into buf at the cursor", func(u *an.Unit, s *an.Site) bool {
			t := u.ArgTerm(s, 0)
			return (strings.HasPrefix(t, "buf[pos") || strings.HasPrefix(t, "p0[pos")) && strings.HasSuffix(t, ":]")
		}))
		if len(copies) == 0 || !strings.Contains(strings.ToLower(fn.Name), "encode") {
			continue
		}
		nEnc++
		for i, cp := range copies {
			x := u.ArgTerm(cp, 1)
			last := i == len(copies)-1
			if sig := fn.Obj.Type().(*types.Signature); sig.Results().Len() == 1 && sig.Results().At(0).Type().String() == "int" {
				last = false // a prefix writer returning the cursor: more segments follow in the caller
			}
			if strings.HasPrefix(x, "rockredis.") {
				r.Ok("C12-K1", fmt.Sprintf("%s: constant segment %s has a fixed length", u.Name, x), u.Pos(cp.Pos), "")
				continue
			}
			if last {
				r.Ok("C12-K1", fmt.Sprintf("%s: trailing segment %s needs no length prefix", u.Name, x), u.Pos(cp.Pos), "")
				continue
			}
			me := an.Call("builtin.copy").Where("this copy", func(_ *an.Unit, s *an.Site) bool { return s == cp })
			pre := an.Call("encoding/binary.bigEndian.PutUint16").Where("length of "+x, func(u *an.Unit, s *an.Site) bool {
				return u.ArgTerm(s, 1) == "uint16(len("+x+"))"
			})
			opts := an.OrderOpts{}
			if u.Name == "rockredis.encodeDataTablePrefixToBuf" {
				opts.Assume = "p1 != rockredis.KVType" // frozen difference: KV keys have no table length prefix (compatibility), they rely on the first ':'
			}
			r.Order("C12-K1", u, me, []an.M{pre}, opts)
		}
	}
	r.Min("C12-K1", nEnc, 6, "cursor-style key encoders in package rockredis")

	// K2: stop-key constructors
	nStop := 0
	for _, fn := range c.P.Funcs() {
		if load.ShortPkg(fn.Pkg.PkgPath) != "rockredis" || fn.Decl.Body == nil {
			continue
		}
		u, err := c.W.Unit(fn.Name)
		if err != nil {
			continue
		}
		for _, s := range u.Sites {
			if s.Kind != flow.SStore {
				continue
			}
			l := u.C.Term(s.LHS)
			if !strings.HasSuffix(l, "[(len("+strings.SplitN(l, "[", 2)[0]+") - 1)]") {
				continue
			}
			base := strings.SplitN(l, "[", 2)[0]
			// an increment of the last byte, however it is spelled (k[n-1]++, += 1, = k[n-1] + 1)
			if !(s.Tok.String() == "++" || s.RHS != nil && u.C.Term(s.RHS) == "(1 + "+l+")") {
				continue
			}
			nStop++
			// where does the key come from?
			var def *an.Site
			for _, st := range u.Sites {
				if st.Kind == flow.SStore && (st.RHS != nil || st.Tuple != nil && st.TupleIdx == 0) {
					if id, ok := ast.Unparen(st.LHS).(*ast.Ident); ok && id.Name == base {
						def = st
					}
				}
			}
			ok, detail := false, "the key is not produced by an encoder call"
			if def != nil {
				rhs := def.RHS
				if rhs == nil {
					rhs = def.Tuple
				}
				if call, isCall := ast.Unparen(rhs).(*ast.CallExpr); isCall {
					t := u.C.Term(call)
					switch {
					case strings.HasSuffix(t, ", nil)") || strings.HasSuffix(t, "(nil)") || strings.Contains(t, "(nil, "):
						ok, detail = true, "start encoder called with an empty trailing segment: "+t
					case strings.HasPrefix(t, "rockredis.encodeDataTableStart(") || strings.HasPrefix(t, "rockredis.encodeTableMetaStartKey(") || strings.Contains(t, "StartKey(") || strings.Contains(t, "Start("):
						ok, detail = true, "prefix-only start encoder: "+t
					default:
						detail = "key from " + t + ": its last byte is not known to be the separator"
					}
				}
			}
			r.Check("C12-K2", u.Name+": stop key increments the last byte of a key that ends in its separator", u.Pos(s.Pos), ok, detail)
		}
	}
	r.Min("C12-K2", nStop, 5, "stop-key constructors (last byte + 1)")
	for _, p := range [][2]string{{"rockredis.collStartSep", "rockredis.collStopSep"}} {
		a, b := c.W.Const(p[0]), c.W.Const(p[1])
		r.Check("C12-K2", fmt.Sprintf("%s + 1 == %s", p[0], p[1]), "", a != "" && b != "" && fmt.Sprint(atoi(a)+1) == b && atoi(b) < 255, fmt.Sprintf("%s=%s %s=%s", p[0], a, p[1], b))
	}
	for _, k := range []string{"rockredis.tableStartSep", "rockredis.collStartSep"} {
		v := c.W.Const(k)
		r.Check("C12-K2", k+" is a constant below 0xff (so +1 does not wrap)", "", v != "" && atoi(v) < 255, k+"="+v)
	}
	n := RangePairs(c, "C12-K2")
	r.Min("C12-K2", n, 6, "DeleteRange calls with start/stop encoded bounds")

	// K4
	if u := c.unit("C12-K4", "rockredis.getTableDataRange"); u != nil {
		r.StoreValues("C12-K4", u, an.LocalStore("maxKey").Where("table end", func(u *an.Unit, s *an.Site) bool { return s.RHS != nil }), []string{"rockredis.encodeDataTableEnd(p0, p1)"}, 1)
		mk := u.Match(an.LocalStore("minKey"))
		r.Check("C12-K4", u.Name+": the range starts inside the same (type, table)", "", len(mk) == 1 && mk[0].Tuple != nil && strings.HasPrefix(u.C.Term(mk[0].Tuple), "rockredis.encodeFullScanMinKey(p0, p1, "), "")
	}
	if u := c.unit("C12-K4", "rockredis.encodeDataTableEnd"); u != nil {
		r.StoreValues("C12-K4", u, an.LocalStore("k"), []string{"rockredis.encodeDataTableStart(p0, p1)"}, 1)
	}
	if u := c.unit("C12-K4", "rockredis.encodeDataTableStart"); u != nil {
		r.ArgValues("C12-K4", u, an.Call("rockredis.encodeDataTablePrefixToBuf"), 1, []string{"p0"}, 1)
		r.ArgValues("C12-K4", u, an.Call("rockredis.encodeDataTablePrefixToBuf"), 2, []string{"p1"}, 1)
	}
	if u := c.unit("C12-K4", "rockredis.encodeDataTablePrefixToBuf"); u != nil {
		// the type tag comes first, the separator last
		first := u.Match(an.StoreTerm("p0[pos]"))
		okf := len(first) == 2 && first[0].RHS != nil && u.C.Term(first[0].RHS) == "p1" && u.C.Term(first[1].RHS) == "rockredis.tableStartSep"
		r.Check("C12-K4", u.Name+": layout = type tag, [table length], table, separator", "", okf, "")
	}

	// K5
	if u := c.unit("C12-K5", "rockredis.encodeIntToCmpUint"); u != nil {
		r.ReturnTerm("C12-K5", u, 0, "(uint64(p0) ^ rockredis.signMask)")
	}
	// float codec: non-negative values (which include -0.0, whose sign bit is already set) get the sign bit SET, negative
	// values are inverted; the decoder clears / inverts under the matching test
	if u := c.unit("C12-K5", "rockredis.encodeFloatToCmpUint64"); u != nil {
		n := 0
		for _, s := range u.Match(an.LocalStore("u")) {
			if s.RHS == nil {
				continue
			}
			pc, t, tok := u.SitePC(s), u.C.Term(s.RHS), s.Tok.String()
			switch {
			case flow.Implies(pc, c.W.Parse("!(p0 < 0)")).Holds && !flow.Implies(pc, c.W.Parse("p0 < 0")).Holds && t != "math.Float64bits(p0)":
				n++
				ok := tok == "|=" && t == "rockredis.signMask" || tok == "=" && (t == "(rockredis.signMask | u)" || t == "(u | rockredis.signMask)")
				r.Check("C12-K5", u.Name+": for f >= 0 the sign bit is set (not flipped: -0.0 is >= 0 and has it set already)", u.Pos(s.Pos), ok, "u "+tok+" "+t)
			case flow.Implies(pc, c.W.Parse("p0 < 0")).Holds:
				n++
				r.Check("C12-K5", u.Name+": for f < 0 all bits are inverted", u.Pos(s.Pos), tok == "=" && t == "^u", "u "+tok+" "+t)
			}
		}
		// both transformations exist and are selected by the *float comparison* of the argument with zero: a test of the
		// sign bit puts -0.0 (equal to +0.0 as a score) on the negative side, and the order of the codes no longer is the
		// order of the scores
		r.Check("C12-K5", u.Name+": the two transformations are selected by comparing the float with 0", "", n >= 2,
			fmt.Sprintf("%d of the assignments to the code lie under f >= 0 / f < 0 (a bit test does not decide the sign of -0.0 the way the comparison does)", n))
	}
	if u := c.unit("C12-K5", "rockredis.decodeCmpUintToFloat"); u != nil {
		n := 0
		for _, s := range u.Match(an.LocalStore("u")) {
			if s.RHS == nil {
				continue
			}
			pc, t, tok := u.SitePC(s), u.C.Term(s.RHS), s.Tok.String()
			set := c.W.Parse("0 < (p0 & rockredis.signMask)")
			switch {
			case flow.Implies(pc, set).Holds:
				n++
				// flipping a bit that is known to be set also clears it
				ok := tok == "&=" && (t == "9223372036854775807" || t == "^rockredis.signMask") || (tok == "&^=" || tok == "^=") && t == "rockredis.signMask"
				r.Check("C12-K5", u.Name+": a set sign bit is cleared", u.Pos(s.Pos), ok, "u "+tok+" "+t)
			case flow.Implies(pc, flow.Not(set)).Holds:
				n++
				r.Check("C12-K5", u.Name+": otherwise all bits are inverted", u.Pos(s.Pos), tok == "=" && t == "^p0", "u "+tok+" "+t)
			}
		}
		r.Min("C12-K5", n, 2, "float decoder branches")
	}
	if u := c.unit("C12-K5", "rockredis.decodeCmpUintToInt"); u != nil {
		r.ReturnTerm("C12-K5", u, 0, "int64((p0 ^ rockredis.signMask))")
	}
	r.Check("C12-K5", "signMask is the sign bit", "", c.W.Const("rockredis.signMask") == "9223372036854775808", c.W.Const("rockredis.signMask"))

	// K6
	if u := c.unit("C12-K6", "rockredis.(*RockDB).hDeleteAll"); u != nil {
		per := u.Match(an.Call("engine.WriteBatch.Delete").Where("per element", func(u *an.Unit, s *an.Site) bool {
			return u.ArgTerm(s, 0) == "rawk" || strings.HasPrefix(u.ArgTerm(s, 0), "it.")
		}))
		rng := u.Match(an.Call("engine.WriteBatch.DeleteRange"))
		if len(per) != 1 || len(rng) != 1 {
			r.Unknown("C12-K6", u.Name+": per-element and range deletion sites", "", fmt.Sprintf("found %d and %d", len(per), len(rng)))
		} else {
			// project both path conditions on the size parameter and require them to cover every size
			proj := func(f *flow.F) *flow.F { return projectOn(f, "p2") }
			cover := flow.Or(proj(u.SitePC(per[0])), proj(u.SitePC(rng[0])))
			res := flow.Implies(flow.True(), cover)
			r.Check("C12-K6", u.Name+": for every size either the per-element deletion or the range deletion applies", u.Pos(rng[0].Pos), res.Holds && res.Undecided == "",
				"conditions on the size: "+cover.String()+"; uncovered: "+fmt.Sprint(res.Counter))
		}
	}
}

func atoi(s string) int {
	n := 0
	fmt.Sscanf(s, "%d", &n)
	return n
}

// projectOn keeps only the atoms that mention the term (or one of the terms separated by |); other atoms are replaced by true under an
// even number of negations and false under an odd number (an over-approximation of the formula).
func projectOn(f *flow.F, term string) *flow.F {
	var rec func(f *flow.F, pos bool) *flow.F
	rec = func(f *flow.F, pos bool) *flow.F {
		switch f.Op {
		case flow.OpAtom:
			for _, t := range strings.Split(term, "|") {
				if strings.Contains(f.Key, t) {
					return f
				}
			}
			if pos {
				return flow.True()
			}
			return flow.False()
		case flow.OpNot:
			return flow.Not(rec(f.Kids[0], !pos))
		case flow.OpAnd, flow.OpOr:
			var ks []*flow.F
			for _, k := range f.Kids {
				ks = append(ks, rec(k, pos))
			}
			if f.Op == flow.OpAnd {
				return flow.And(ks...)
			}
			return flow.Or(ks...)
		}
		return f
	}
	return rec(f, true)
}

// c12PrefixWithSeparator: a prefix test that keeps an iteration inside one table must compare against "table:" and not
// against the bare table name ("user" is a prefix of "user_ext:..."). For every bytes.HasPrefix in package rockredis whose
// prefix operand is a local built from a string conversion, some definition on the local's alias chain appends the
// table separator.
func c12PrefixWithSeparator(c *Ctx) {
	r := c.R
	n := 0
	for _, cs := range c.W.AllSites(an.Call("bytes.HasPrefix"), "HasPrefix", []string{"rockredis"}) {
		u := cs.U
		if strings.HasSuffix(c.P.Fset.Position(cs.S.Pos).Filename, "_test.go") || len(cs.S.Call.Args) != 2 {
			continue
		}
		id, ok := ast.Unparen(cs.S.Call.Args[1]).(*ast.Ident)
		if !ok {
			continue
		}
		// all definitions of the local and of the locals it is copied from, in this function and the enclosing ones
		seen := map[types.Object]bool{}
		var fromString, withSep bool
		var walk func(o types.Object, depth int)
		units := []*an.Unit{u}
		if top, err := c.W.Unit(u.Fn.Name); err == nil {
			units = append(units, top)
			units = append(units, top.Lits()...)
		}
		walk = func(o types.Object, depth int) {
			if o == nil || seen[o] || depth > 4 {
				return
			}
			seen[o] = true
			for _, uu := range units {
				for _, d := range uu.Sites {
					if d.Kind != flow.SStore || d.Local != o || d.RHS == nil {
						continue
					}
					rhs := ast.Unparen(d.RHS)
					if call, isCall := rhs.(*ast.CallExpr); isCall {
						if tv, ok := uu.Info().Types[call.Fun]; ok && tv.IsType() && len(call.Args) == 1 {
							if bt, ok := uu.Info().TypeOf(call.Args[0]).Underlying().(*types.Basic); ok && bt.Info()&types.IsString != 0 {
								fromString = true
							}
						}
						if fid, ok := call.Fun.(*ast.Ident); ok && fid.Name == "append" {
							for _, a := range call.Args[1:] {
								t := uu.C.Term(a)
								if strings.Contains(t, "NamespaceTableSeperator") || strings.Contains(t, "tableStartSep") || t == "58" || t == "':'" {
									withSep = true
								}
							}
							if aid, ok := ast.Unparen(call.Args[0]).(*ast.Ident); ok {
								walk(uu.Info().ObjectOf(aid), depth+1)
							}
						}
					}
					if aid, ok := rhs.(*ast.Ident); ok {
						walk(uu.Info().ObjectOf(aid), depth+1)
					}
				}
			}
		}
		walk(u.Info().ObjectOf(id), 0)
		if !fromString {
			continue // not built from a name: not judged here
		}
		n++
		r.Check("C12-K7", fmt.Sprintf("%s: the prefix %s that bounds the iteration ends with the table separator", u.Name, id.Name), u.Pos(cs.S.Pos), withSep,
			"the prefix is a bare name: keys of every table whose name merely starts with it pass the test")
	}
	r.Min("C12-K7", n, 1, "prefix tests against a name-derived prefix in package rockredis")
}

// c12LimitsFitPrefix: K1's length prefixes are 2 bytes wide (uint16(len(segment))); a segment longer than 65535 bytes wraps
// the prefix and lands inside another key's range. The limits enforced on keys, sub keys and table names must
// therefore stay below 65536, and nothing outside tests may raise them at run time.
func c12LimitsFitPrefix(c *Ctx) {
	r := c.R
	n := 0
	for _, name := range []string{"common.MaxKeySize", "common.MaxSubKeyLen", "rockredis.MaxTableNameLen"} {
		dot := strings.Index(name, ".")
		pkgShort, vname := name[:dot], name[dot+1:]
		found := false
		for _, pkg := range c.P.Pkgs {
			if load.ShortPkg(pkg.PkgPath) != pkgShort {
				continue
			}
			for _, f := range pkg.Syntax {
				for _, d := range f.Decls {
					gd, ok := d.(*ast.GenDecl)
					if !ok {
						continue
					}
					for _, sp := range gd.Specs {
						vs, ok := sp.(*ast.ValueSpec)
						if !ok {
							continue
						}
						for i, id := range vs.Names {
							if id.Name != vname || i >= len(vs.Values) {
								continue
							}
							found = true
							n++
							tv := pkg.TypesInfo.Types[vs.Values[i]]
							if tv.Value == nil {
								r.Unknown("C12-K1", name+" is a constant that fits the 2-byte length prefix", c.P.Pos(id.Pos()), "initialiser is not a constant expression")
								continue
							}
							v, _ := constant.Int64Val(tv.Value)
							r.Check("C12-K1", name+" fits the 2-byte length prefix of the key encoders (< 65536)", c.P.Pos(id.Pos()), v > 0 && v < 65536, fmt.Sprintf("value %d", v))
						}
					}
				}
			}
		}
		if !found {
			r.Unknown("C12-K1", name, "", "declaration not found")
		}
		// no run-time writer outside tests
		for _, fn := range c.P.Funcs() {
			if fn.Decl.Body == nil || strings.HasSuffix(c.P.Fset.Position(fn.Decl.Pos()).Filename, "_test.go") {
				continue
			}
			hit := false
			ast.Inspect(fn.Decl.Body, func(nd ast.Node) bool {
				as, ok := nd.(*ast.AssignStmt)
				if !ok {
					return true
				}
				for _, l := range as.Lhs {
					var o types.Object
					switch x := ast.Unparen(l).(type) {
					case *ast.Ident:
						o = fn.Pkg.TypesInfo.ObjectOf(x)
					case *ast.SelectorExpr:
						o = fn.Pkg.TypesInfo.ObjectOf(x.Sel)
					}
					if o != nil && o.Pkg() != nil && o.Parent() == o.Pkg().Scope() && o.Name() == vname && load.ShortPkg(o.Pkg().Path()) == pkgShort {
						hit = true
					}
				}
				return true
			})
			if hit {
				r.Bad("C12-K1", name+" is not changed at run time", c.P.Pos(fn.Decl.Pos()), fn.Name+" assigns it")
			}
		}
	}
	r.Min("C12-K1", n, 3, "size limits behind the length prefixes")
	// the rockredis aliases are the common limits
	for _, al := range [][2]string{{"MaxKeySize", "common.MaxKeySize"}, {"MaxSubKeyLen", "common.MaxSubKeyLen"}} {
		for _, pkg := range c.P.Pkgs {
			if load.ShortPkg(pkg.PkgPath) != "rockredis" {
				continue
			}
			for _, f := range pkg.Syntax {
				ast.Inspect(f, func(nd ast.Node) bool {
					vs, ok := nd.(*ast.ValueSpec)
					if !ok {
						return true
					}
					for i, id := range vs.Names {
						if id.Name == al[0] && i < len(vs.Values) {
							r.Check("C12-K1", "rockredis."+al[0]+" is the common limit", c.P.Pos(id.Pos()), types.ExprString(vs.Values[i]) == al[1], types.ExprString(vs.Values[i]))
						}
					}
					return true
				})
			}
		}
	}
}

// c12StartKeyIncluded: the start key of a collection's element range is itself a legal element key (the field / member
// with the empty name). An iteration over the whole collection built from the Start/Stop encoder pair must therefore
// be closed on the left: a left-open range skips that element (it survives a clear and reappears when the key is
// re-created).
func c12StartKeyIncluded(c *Ctx, rule string) {
	r := c.R
	n := 0
	lopen := atoi(c.W.Const("common.RangeLOpen"))
	for _, cs := range c.W.AllSites(an.Call("rockredis.(*RockDB).NewDBRangeIterator", "rockredis.(*RockDB).NewDBRangeLimitIterator"), "", []string{"rockredis"}) {
		u := cs.U
		if strings.HasSuffix(c.P.Fset.Position(cs.S.Pos).Filename, "_test.go") || len(cs.S.Call.Args) < 3 {
			continue
		}
		// the two ends of one collection's element range: the precomputed RangeStart/RangeEnd of a key info object,
		// or the Start/Stop pair of an element encoder (not the table / index / meta ranges, whose start key is a bare
		// prefix that no record can have)
		what := ""
		da, db := defExpr(u, cs.S.Call.Args[0]), defExpr(u, cs.S.Call.Args[1])
		if xa, ok := da.(*ast.SelectorExpr); ok {
			if xb, ok := db.(*ast.SelectorExpr); ok && xa.Sel.Name == "RangeStart" && xb.Sel.Name == "RangeEnd" && u.C.Term(xa.X) == u.C.Term(xb.X) {
				what = u.C.Term(xa.X) + ".RangeStart, .RangeEnd"
			}
		}
		if what == "" {
			a, b := defCall(u, cs.S.Call.Args[0]), defCall(u, cs.S.Call.Args[1])
			if a == nil || b == nil || !pairNames(an.CalleeName(a), an.CalleeName(b)) {
				continue
			}
			na := shortName(an.CalleeName(a))
			if strings.Contains(na, "Table") || strings.Contains(na, "Index") || strings.Contains(na, "Meta") {
				continue
			}
			what = na + ", " + shortName(an.CalleeName(b))
		}
		tv := u.Info().Types[cs.S.Call.Args[2]]
		construct := fmt.Sprintf("%s: iteration over [%s) includes the start key", u.Name, what)
		if tv.Value == nil {
			continue // a range type computed from the client's bounds (ZRANGEBYLEX ...): not a whole-collection walk
		}
		n++
		v, _ := constant.Int64Val(tv.Value)
		r.Check(rule, construct, u.Pos(cs.S.Pos), int(v)&lopen == 0, "range type "+u.C.Term(cs.S.Call.Args[2])+" is open on the left: the element whose name is empty is skipped")
	}
	r.Min(rule, n, 5, "whole-collection iterations")
}

// K8: an element key is built on the collection's *version key* (name + generation), never on the bare name: the
// generation is what keeps a re-created collection apart from the left-overs of its predecessor, and what keeps `k`
// apart from a key whose name merely continues it. Every call of an element-key encoder (first parameter `table`, second
// `key`: hEncodeHashKey, sEncodeStartKey, zEncodeStopSetKey, lEncodeListKey, ...) from a function that holds the key
// information of a collection (a value with a VerKey field) passes a term rooted in that VerKey as the second argument.
func c12K8(c *Ctx) {
	r := c.R
	r.Clause("C12-K8", "element keys are built on the version key of the collection")
	type enc struct {
		name string
		idx  int
	}
	var encs []enc
	for _, fn := range c.P.Funcs() {
		if load.ShortPkg(fn.Pkg.PkgPath) != "rockredis" || fn.Decl.Recv != nil || fn.Decl.Type.Params == nil {
			continue
		}
		n := fn.Decl.Name.Name
		if !(strings.HasPrefix(n, "hEncode") || strings.HasPrefix(n, "sEncode") || strings.HasPrefix(n, "zEncode") || strings.HasPrefix(n, "lEncode") || strings.HasPrefix(n, "encodeBitmap")) {
			continue
		}
		var names []string
		for _, f := range fn.Decl.Type.Params.List {
			for _, id := range f.Names {
				names = append(names, id.Name)
			}
		}
		for i := 0; i+1 < len(names); i++ {
			if names[i] == "table" && names[i+1] == "key" {
				encs = append(encs, enc{fn.Name, i + 1})
			}
		}
	}
	r.Min("C12-K8", len(encs), 10, "element-key encoders")
	n := 0
	for _, e := range encs {
		for _, sw := range c.W.AllSites(an.Call(e.name), "", []string{"rockredis"}) {
			u := sw.U
			// does the function hold key information? (a local or parameter with a VerKey field)
			holder := ""
			for _, s := range u.Sites {
				if s.Kind == flow.SStore && s.Local != nil {
					if st, ok := s.Local.Type().Underlying().(*types.Struct); ok {
						for i := 0; i < st.NumFields(); i++ {
							if st.Field(i).Name() == "VerKey" {
								holder = u.C.TermOfObj(s.Local)
							}
						}
					}
				}
			}
			if holder == "" {
				continue // works on a version key handed in by its caller
			}
			n++
			a := u.ArgTerm(sw.S, e.idx)
			if ds := u.Match(an.LocalStore(a)); len(ds) == 1 && ds[0].RHS != nil {
				a = u.C.Term(ds[0].RHS)
			}
			r.Check("C12-K8", u.Name+": "+e.name+" gets the version key", u.Pos(sw.S.Pos), strings.HasSuffix(a, ".VerKey"),
				"second argument "+a+" (the function holds "+holder+".VerKey)")
		}
	}
	r.Min("C12-K8", n, 20, "element-key encoder calls in functions holding key information")
}

func init() {
	old := registry["C12"].Run
	registry["C12"].Run = func(c *Ctx) { old(c); c12K8(c) }
}

// K9: the bounds of a table's meta range both start with the table name *and its separator*: `tbl:` … `tbl;`. A lower
// bound built from the bare name `tbl` also covers the tables whose name extends it with a byte below the separator
// (`tbl0`, `tbl-2`), and deleting the range of one table deletes theirs.
func c12K9(c *Ctx) {
	r := c.R
	r.Clause("C12-K9", "both bounds of a table's meta range carry the table separator")
	u := c.unit("C12-K9", "rockredis.getTableMetaRange")
	if u == nil {
		return
	}
	n := 0
	sep := atoi(c.W.Const("rockredis.tableStartSep"))
	withSep := func(t string) bool {
		for _, pre := range []string{"append(p1, rockredis.tableStartSep", "append(p1, (rockredis.tableStartSep", "rockredis.packRedisKey(p1, ",
			fmt.Sprintf("append(p1, %d)", sep), fmt.Sprintf("append(p1, %d)", sep+1)} {
			if sep > 0 && strings.HasPrefix(t, pre) {
				return true
			}
		}
		return false
	}
	for _, s := range u.Match(an.LocalStore("tableStart")) {
		if s.RHS == nil {
			continue
		}
		n++
		t := u.C.Term(s.RHS)
		ok := withSep(t) || strings.HasPrefix(t, "append(tableStart, ") || t == "tableStart[:0]"
		r.Check("C12-K9", u.Name+": the bound is the table name followed by its separator (then extended, or reset)", u.Pos(s.Pos), ok, "tableStart = "+t)
	}
	r.Min("C12-K9", n, 4, "stores to the bound under construction")
	enc := u.Match(an.Call("rockredis.encodeScanKey"))
	for _, s := range enc {
		r.Check("C12-K9", u.Name+": the encoded bound is the one under construction", u.Pos(s.Pos), u.ArgTerm(s, 1) == "tableStart", "encodes "+u.ArgTerm(s, 1))
		// and it was given the separator since the last reset: a separator store precedes on every path
		r.OrderSites("C12-K9", u, []*an.Site{s}, nil, []an.M{an.LocalStore("tableStart").Where("name + separator", func(u *an.Unit, d *an.Site) bool {
			if d.RHS == nil {
				return false
			}
			return withSep(u.C.Term(d.RHS))
		})}, an.OrderOpts{})
	}
	r.Min("C12-K9", len(enc), 2, "encoded bounds")
}

func init() {
	old := registry["C12"].Run
	registry["C12"].Run = func(c *Ctx) { old(c); c12K9(c) }
}
