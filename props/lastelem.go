package props

import (
	"fmt"
	"go/ast"
	"go/token"
	"strings"

	"verif/internal/an"
	"verif/internal/flow"
	"verif/internal/load"
)

// lastElemSites lists the expressions X[len(X)-k] (k a positive constant) of a unit with the condition under which
// each is evaluated (path condition of the statement plus the short-circuit context inside a condition).
type lastElem struct {
	U    *an.Unit
	Site *flow.Site
	X    string // canonical term of the indexed collection
	K    string
}

func lastElemSites(u *an.Unit) []lastElem {
	var out []lastElem
	for _, b := range u.G.Blocks {
		if !b.Reachable() {
			continue
		}
		for i, n := range b.Nodes {
			var walk func(n ast.Node, ctx *flow.F)
			walk = func(n ast.Node, ctx *flow.F) {
				if n == nil {
					return
				}
				switch x := n.(type) {
				case *ast.FuncLit:
					return
				case *flow.RangeHead:
					walk(x.Stmt.X, ctx)
					return
				case *ast.BinaryExpr:
					if x.Op == token.LAND {
						walk(x.X, ctx)
						walk(x.Y, flow.And(ctx, flow.FromExpr(x.X)))
						return
					}
					if x.Op == token.LOR {
						walk(x.X, ctx)
						walk(x.Y, flow.And(ctx, flow.Not(flow.FromExpr(x.X))))
						return
					}
				case *ast.IndexExpr:
					if be, ok := ast.Unparen(x.Index).(*ast.BinaryExpr); ok && be.Op == token.SUB {
						if k := u.C.ConstOf(be.Y); k != "" && k != "0" && !strings.HasPrefix(k, "-") {
							xt := u.C.Term(x.X)
							if u.C.Term(be.X) == "len("+xt+")" {
								out = append(out, lastElem{U: u, Site: &flow.Site{Kind: flow.SUse, Block: b, NodeIdx: i, Pos: x.Pos(), Ctx: ctx}, X: xt, K: k})
							}
						}
					}
				}
				ast.Inspect(n, func(c ast.Node) bool {
					if c == n || c == nil {
						return true
					}
					walk(c, ctx)
					return false
				})
			}
			walk(n, flow.True())
		}
	}
	return out
}

// lastElemGuarded: every X[len(X)-k] in the named packages is evaluated only where len(X) >= k follows from the path
// condition. An index of -1 panics; on the paths named in the rule a panic takes the process down.
func lastElemGuarded(c *Ctx, rule string, pkgs []string, only func(fn *load.Func) bool) int {
	r := c.R
	n := 0
	for _, fn := range c.P.Funcs() {
		if fn.Decl.Body == nil || !containsStr(pkgs, load.ShortPkg(fn.Pkg.PkgPath)) || strings.HasSuffix(c.P.Fset.Position(fn.Decl.Pos()).Filename, "_test.go") ||
			strings.HasSuffix(c.P.Fset.Position(fn.Decl.Pos()).Filename, ".pb.go") {
			continue
		}
		if only != nil && !only(fn) {
			continue
		}
		u, err := c.W.Unit(fn.Name)
		if err != nil {
			continue
		}
		for _, uu := range append([]*an.Unit{u}, u.Lits()...) {
			for _, le := range lastElemSites(uu) {
				n++
				goal := "0 < len(" + le.X + ")"
				if le.K != "1" {
					goal = "!(len(" + le.X + ") < " + le.K + ")"
				}
				pc := uu.SitePC(le.Site)
				res := flow.Implies(pc, c.W.Parse(goal))
				if !res.Holds && res.Undecided == "" {
					// a bound against a larger constant: !(len(X) < c) with c >= k, or c < len(X) with c >= k-1
					var k, cv int
					fmt.Sscan(le.K, &k)
					atoms := map[string]*flow.F{}
					pc.Atoms(atoms)
					for _, a := range atoms {
						if a.Cmp == nil || a.Cmp.Op != "<" {
							continue
						}
						if a.Cmp.L == "len("+le.X+")" && a.Cmp.RConst != "" {
							if _, err := fmt.Sscan(a.Cmp.RConst, &cv); err == nil && cv >= k && flow.Implies(pc, flow.Not(a)).Holds {
								res.Holds = true
							}
						}
						if a.Cmp.R == "len("+le.X+")" && a.Cmp.LConst != "" {
							if _, err := fmt.Sscan(a.Cmp.LConst, &cv); err == nil && cv >= k-1 && flow.Implies(pc, a).Holds {
								res.Holds = true
							}
						}
					}
				}
				construct := fmt.Sprintf("%s: %s[len-%s] is evaluated only when the collection has that many elements", uu.Name, le.X, le.K)
				switch {
				case res.Undecided != "":
					r.Unknown(rule, construct, uu.Pos(le.Site.Pos), res.Undecided)
				case res.Holds:
					r.Ok(rule, construct, uu.Pos(le.Site.Pos), "")
				default:
					r.Bad(rule, construct, uu.Pos(le.Site.Pos), "pc = "+pc.String())
				}
			}
		}
	}
	return n
}

func containsStr(l []string, s string) bool {
	for _, x := range l {
		if x == s {
			return true
		}
	}
	return false
}
