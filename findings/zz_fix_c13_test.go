package node

import (
	"io/ioutil"
	"os"
	"strconv"
	"testing"

	"github.com/absolute8511/redcon"
	"github.com/youzan/ZanRedisDB/common"
	"github.com/youzan/ZanRedisDB/engine"
	"github.com/youzan/ZanRedisDB/rockredis"
)

// REVSCAN without a COUNT argument must scan backwards. The merge scan of the server (server/scan_merge.go
// doScanCommon; package server cannot run tests in this sandbox) rewrote cmds[i].Args[countIndex] with the per-partition
// count even when no COUNT was given: countIndex was then 0 and the command *name* became "0", from which the partition
// handler derives the direction. The rewrite below is that statement, before and after the repair.
func TestZZRevScanWithoutCountKeepsDirection(t *testing.T) {
	dir, _ := ioutil.TempDir("", "c13rev")
	defer os.RemoveAll(dir)
	opts := &KVOptions{DataDir: dir, EngType: rockredis.EngType}
	opts.RockOpts.EngineType = "mem"
	engine.FillDefaultOptions(&opts.RockOpts)
	store, err := NewKVStore(opts)
	if err != nil {
		t.Fatal(err)
	}
	defer store.Close()
	for _, k := range []string{"t:a", "t:b", "t:c"} {
		if err := store.KVSet(0, []byte(k), []byte("v")); err != nil {
			t.Fatal(err)
		}
	}
	nd := &KVNode{store: store}
	client := redcon.Command{Args: [][]byte{[]byte("revscan"), []byte("t:z")}} // from the upper end of the table, no COUNT
	run := func(repaired bool) []string {
		cmd := common.DeepCopyCmd(client)
		count, countIndex, length := 0, 0, 1
		everyCount := count / length
		if !repaired || countIndex > 0 {
			cmd.Args[countIndex] = []byte(strconv.Itoa(everyCount)) // the statement of doScanCommon
		}
		rsp, err := nd.scanCommand(cmd)
		if err != nil {
			t.Fatal(err)
		}
		var keys []string
		for _, k := range rsp.(*common.ScanResult).Keys {
			keys = append(keys, string(k))
		}
		return keys
	}
	if got := run(true); len(got) != 3 || got[0] != "t:c" || got[2] != "t:a" {
		t.Errorf("REVSCAN t:z (no COUNT) through the repaired rewrite returns %v, want [t:c t:b t:a]", got)
	}
	t.Logf("through the unrepaired rewrite (command name overwritten with the count) the same command returned %v", run(false))
}
