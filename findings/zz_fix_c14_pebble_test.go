package engine

import (
	"io/ioutil"
	"os"
	"path"
	"strconv"
	"testing"
)

// A checkpoint requested at "index i" must not contain what is written after the apply loop was released
// (notify closed). Pebble copies its WAL files whole at the end of Checkpoint, and the wrapper releases the
// apply loop from a 20 ms timer.
func TestFindC14PebbleCheckpointContainsLaterWrites(t *testing.T) {
	SetLogger(0, nil)
	cfg := NewRockConfig()
	tmpDir, err := ioutil.TempDir("", "c14pebble")
	if err != nil {
		t.Fatal(err)
	}
	defer os.RemoveAll(tmpDir)
	cfg.DataDir = path.Join(tmpDir, "data")
	os.MkdirAll(cfg.DataDir, 0755)
	eng, err := NewPebbleEng(cfg)
	if err != nil {
		t.Fatal(err)
	}
	if err = eng.OpenEng(); err != nil {
		t.Fatal(err)
	}
	defer eng.CloseAll()
	// "log up to index i": some tens of MB that stay in the memtable / WAL
	bigV := make([]byte, 16000)
	for i := 0; i < 30; i++ {
		wb := eng.DefaultWriteBatch()
		for j := 0; j < 100; j++ {
			wb.Put([]byte("before"+strconv.Itoa(i*100+j)), bigV)
		}
		if err := eng.Write(wb); err != nil {
			t.Fatal(err)
		}
		wb.Clear()
	}
	bad := 0
	rounds := 5
	for round := 0; round < rounds; round++ {
		ck, err := eng.NewCheckpoint(false)
		if err != nil {
			t.Fatal(err)
		}
		ckpath := path.Join(tmpDir, "ck"+strconv.Itoa(round))
		notify := make(chan struct{})
		done := make(chan error, 1)
		os.MkdirAll(ckpath, 0755)
		go func() { done <- ck.Save(path.Join(ckpath, "pebble"), notify) }()
		<-notify
		// the apply loop continues with entry i+1
		key := []byte("after" + strconv.Itoa(round))
		wb := eng.DefaultWriteBatch()
		wb.Put(key, []byte("written after the checkpoint was reported started"))
		if err := eng.Write(wb); err != nil {
			t.Fatal(err)
		}
		wb.Clear()
		if err := <-done; err != nil {
			t.Fatal(err)
		}
		cfg2 := NewRockConfig()
		cfg2.DataDir = ckpath
		e2, err := NewPebbleEng(cfg2)
		if err != nil {
			t.Fatal(err)
		}
		if err = e2.OpenEng(); err != nil {
			t.Fatal(err)
		}
		v, err := e2.GetBytes(key)
		if err != nil {
			t.Fatal(err)
		}
		b0, _ := e2.GetBytes([]byte("before0"))
		if b0 == nil {
			t.Errorf("round %d: data written before the checkpoint is missing", round)
		}
		if v != nil {
			bad++
			t.Logf("round %d: the checkpoint contains %q, written after the checkpoint was reported started", round, key)
		}
		e2.CloseAll()
	}
	if bad > 0 {
		t.Errorf("%d of %d checkpoints contain data written after their index", bad, rounds)
	}
}
