package node

import (
	"fmt"
	"io/ioutil"
	"math/rand"
	"net/http"
	"net/url"
	"os"
	"strconv"
	"sync/atomic"
	"testing"
	"time"

	"github.com/youzan/ZanRedisDB/common"
	"github.com/youzan/ZanRedisDB/raft/raftpb"
	"github.com/youzan/ZanRedisDB/rockredis"
	"github.com/youzan/ZanRedisDB/stats"
	"github.com/youzan/ZanRedisDB/transport/rafthttp"
)

// A data node with a single-replica namespace must not answer a write before the entry is in its WAL: the leader
// of a one-member group commits an entry in the very Ready that asks to persist it, and processReady handed the
// committed entries to the apply loop (which answers the client) *before* persistRaftState. A kill -9 between the answer
// and the WAL write loses an acknowledged write (C06; the same defect as etcd issue 14370).
//
// The WAL of a running single-replica node is wrapped so that Save blocks until released. A write is sent; it must not be
// answered while Save is still held back.
type zzHeldStorage struct {
	IRaftPersistStorage
	hold    chan struct{} // closed to let Save through
	entered int32
	holding int32
}

func (s *zzHeldStorage) Save(st raftpb.HardState, ents []raftpb.Entry) error {
	if atomic.LoadInt32(&s.holding) == 1 && len(ents) > 0 {
		atomic.StoreInt32(&s.entered, 1)
		<-s.hold
	}
	return s.IRaftPersistStorage.Save(st, ents)
}

func TestZZSingleReplicaAnswersOnlyAfterWALWrite(t *testing.T) {
	dir, err := ioutil.TempDir("", fmt.Sprintf("c06ack-%d", time.Now().UnixNano()))
	if err != nil {
		t.Fatal(err)
	}
	defer os.RemoveAll(dir)
	rand.Seed(time.Now().UnixNano())
	raftAddr := "http://127.0.0.1:" + strconv.Itoa(int(rand.Int31n(2000))+39333)
	var replica ReplicaInfo
	replica.NodeID, replica.ReplicaID, replica.RaftAddr = 1, 1, raftAddr
	ts := &stats.TransportStats{}
	ts.Initialize()
	tr := &rafthttp.Transport{DialTimeout: time.Second * 5, ClusterID: "test", TrStats: ts, PeersStats: stats.NewPeersStats()}
	nsConf := NewNSConfig()
	nsConf.Name, nsConf.BaseName, nsConf.EngType = "default-0", "default", rockredis.EngType
	nsConf.PartitionNum, nsConf.Replicator, nsConf.SnapCount, nsConf.SnapCatchup = 1, 1, 1000, 500
	nsConf.RaftGroupConf.GroupID = 1000
	nsConf.RaftGroupConf.SeedNodes = append(nsConf.RaftGroupConf.SeedNodes, replica)
	nsConf.ExpirationPolicy = common.DefaultExpirationPolicy
	mconf := &MachineConfig{NodeID: 1, BroadcastAddr: "127.0.0.1", LocalRaftAddr: raftAddr, DataRootDir: dir, TickMs: 100, ElectionTick: 5, KeepBackup: 3}
	mconf.RocksDBOpts.EngineType = "mem"
	nsMgr := NewNamespaceMgr(tr, mconf)
	kvNode, err := nsMgr.InitNamespaceNode(nsConf, 1, false)
	if err != nil {
		t.Fatal(err)
	}
	tr.Raft, tr.Snapshotter = kvNode.Node, kvNode.Node
	tr.Start()
	u, _ := url.Parse(raftAddr)
	stopC := make(chan struct{})
	ln, err := common.NewStoppableListener(u.Host, stopC)
	if err != nil {
		t.Fatal(err)
	}
	go func() { (&http.Server{Handler: tr.Handler()}).Serve(ln) }()
	if err := kvNode.Start(false); err != nil {
		t.Fatal(err)
	}
	nsMgr.Start()
	defer func() { nsMgr.Stop(); tr.Stop(); close(stopC) }()
	nd := kvNode.Node
	for i := 0; i < 100 && !(nd.IsLead() && kvNode.IsReady() && nd.rn.IsReplayFinished()); i++ {
		time.Sleep(100 * time.Millisecond)
	}
	if !nd.IsLead() {
		t.Fatal("the node did not become leader of its one-member group")
	}
	write := func(args ...string) (interface{}, error) {
		var bs [][]byte
		for _, a := range args {
			bs = append(bs, []byte(a))
		}
		wh, _ := nd.router.GetWCmdHandler(args[0])
		rsp, err := wh(buildCommand(bs))
		if f, ok := rsp.(*FutureRsp); ok && err == nil {
			return f.WaitRsp()
		}
		return rsp, err
	}
	if _, err := write("set", "default:test:warm", "1"); err != nil {
		t.Fatal(err)
	}
	time.Sleep(300 * time.Millisecond)
	// hold the WAL back from now on
	held := &zzHeldStorage{IRaftPersistStorage: nd.rn.persistStorage, hold: make(chan struct{})}
	nd.rn.persistStorage = held
	atomic.StoreInt32(&held.holding, 1)
	answered := make(chan error, 1)
	go func() {
		_, err := write("set", "default:test:k", "v")
		answered <- err
	}()
	// wait until the raft loop is inside Save for the entry (or the answer arrives without it)
	early := false
	deadline := time.After(5 * time.Second)
wait:
	for {
		select {
		case <-answered:
			early = true
			break wait
		case <-deadline:
			break wait
		default:
			if atomic.LoadInt32(&held.entered) == 1 {
				// Save is being held: give an early answer 500 ms to show up
				select {
				case <-answered:
					early = true
				case <-time.After(500 * time.Millisecond):
				}
				break wait
			}
			time.Sleep(5 * time.Millisecond)
		}
	}
	atomic.StoreInt32(&held.holding, 0)
	close(held.hold)
	if early {
		t.Errorf("SET was answered while its entry was not yet written to the WAL (Save entered: %v): a crash now loses an acknowledged write", atomic.LoadInt32(&held.entered) == 1)
	} else {
		select {
		case err := <-answered:
			if err != nil {
				t.Errorf("write failed after the WAL was released: %v", err)
			}
		case <-time.After(5 * time.Second):
			t.Errorf("write not answered after the WAL was released")
		}
	}
}
