package engine

import (
	"fmt"
	"io/ioutil"
	"os"
	"testing"

	"github.com/youzan/ZanRedisDB/common"
)

// Keys that differ by trailing 0x00 bytes (one key a prefix of the next) must be iterated in byte order, in both
// directions and for every bound combination, on every engine: pebble is taken as the sorted-map reference.
func nulOrderScan(t *testing.T, engType string, mt memType) string {
	old := useMemType
	useMemType = mt
	defer func() { useMemType = old }()
	SetLogger(0, nil)
	cfg := NewRockConfig()
	dir, _ := ioutil.TempDir("", "c20ord")
	defer os.RemoveAll(dir)
	cfg.DataDir = dir
	cfg.EngineType = engType
	eng, _ := NewKVEng(cfg)
	eng.OpenEng()
	defer eng.CloseAll()
	wb := eng.DefaultWriteBatch()
	for _, k := range []string{"a", "a\x00", "a\x00\x00", "a\x01", "b", "", "\x00", "a\xff", "ab"} {
		wb.Put([]byte(k), []byte("v"))
	}
	eng.Write(wb)
	wb.Clear()
	out := ""
	for _, rev := range []bool{false, true} {
		for _, rg := range []Range{{}, {Min: []byte("a"), Max: []byte("a\x01"), Type: common.RangeClose}, {Min: []byte("a"), Max: []byte("a\x00"), Type: common.RangeClose}, {Min: []byte("a"), Max: []byte("b"), Type: common.RangeOpen},
			{Min: []byte(""), Max: []byte("a"), Type: common.RangeClose}, {Min: []byte("a\x00"), Max: []byte("ab"), Type: common.RangeROpen}, {Min: []byte("a\x00"), Max: []byte("ab"), Type: common.RangeLOpen}} {
			it, err := NewDBRangeIteratorWithOpts(eng, IteratorOpts{Range: rg, Reverse: rev})
			if err != nil {
				t.Fatal(err)
			}
			out += fmt.Sprintf("rev=%v [%q,%q]%d:", rev, rg.Min, rg.Max, rg.Type)
			for ; it.Valid(); it.Next() {
				out += fmt.Sprintf(" %q", it.Key())
			}
			it.Close()
			out += "\n"
		}
	}
	return out
}

func TestFindC20NulKeysOrder(t *testing.T) {
	ref := nulOrderScan(t, "pebble", memTypeRadix)
	for _, mt := range []memType{memTypeRadix, memTypeBtree, memTypeSkiplist} {
		got := nulOrderScan(t, "mem", mt)
		if got != ref {
			t.Errorf("memtype %v differs from pebble:\n--- pebble\n%s--- mem\n%s", mt, ref, got)
		}
	}
}
