module findings

go 1.23
