package rockredis

import (
	"os"
	"testing"
	"time"

	"github.com/stretchr/testify/assert"
	"github.com/youzan/ZanRedisDB/common"
)

func TestZZZFixKeySameLogSameResult(t *testing.T) {
	mk := func() *RockDB {
		dir, _ := os.MkdirTemp("", "zzfix")
		cfg := NewRockRedisDBConfig()
		cfg.EngineType = "mem"
		cfg.DataDir = dir
		cfg.ExpirationPolicy = 2
		cfg.DataVersion = 1
		db, err := OpenRockDB(cfg)
		assert.Nil(t, err)
		return db
	}
	a, b := mk(), mk()
	defer os.RemoveAll(a.cfg.DataDir)
	defer os.RemoveAll(b.cfg.DataDir)
	defer a.Close()
	defer b.Close()
	t0 := time.Now().UnixNano()
	apply := func(db *RockDB) int64 {
		k := []byte("test:z")
		db.ZAdd(t0, k, common.ScorePair{Score: 1, Member: []byte("a")}, common.ScorePair{Score: 2, Member: []byte("b")})
		db.ZExpire(t0, k, 3)
		assert.Nil(t, db.ZFixKey(t0+int64(time.Second), k))
		db.ZPersist(t0+int64(time.Second), k)
		n, _ := db.ZCard(k)
		return n
	}
	n1 := apply(a)
	time.Sleep(4 * time.Second)
	n2 := apply(b)
	assert.Equal(t, n1, n2)
}
