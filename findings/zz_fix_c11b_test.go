package rockredis

import (
	"os"
	"testing"

	"github.com/stretchr/testify/assert"
)

func TestZZSetExOverflowStoresNothing(t *testing.T) {
	dir, _ := os.MkdirTemp("", "zzfix")
	cfg := NewRockRedisDBConfig()
	cfg.EngineType = "mem"
	cfg.DataDir = dir
	cfg.ExpirationPolicy = 2
	cfg.DataVersion = 1
	db, err := OpenRockDB(cfg)
	assert.Nil(t, err)
	defer os.RemoveAll(dir)
	defer db.Close()
	_, err = db.KVSetWithOpts(1, []byte("test:k"), []byte("v"), 5000000000, false, false)
	assert.NotNil(t, err)
	db.AbortBatch()
	v, err := db.KVGet([]byte("test:k"))
	assert.Nil(t, err)
	assert.Nil(t, v)
	n, err := db.SetNX(2, []byte("test:k"), []byte("w"))
	assert.Nil(t, err)
	assert.Equal(t, int64(1), n)
}
