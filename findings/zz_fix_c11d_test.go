package node

import (
	"fmt"
	"io/ioutil"
	"os"
	"testing"

	"github.com/absolute8511/redcon"
	"github.com/youzan/ZanRedisDB/engine"
	"github.com/youzan/ZanRedisDB/rockredis"
)

// SCAN <table>: COUNT <negative> on a table with nothing left to return must answer (empty page, empty cursor), not
// panic: the per-partition scan handlers of SCAN/ADVSCAN run in goroutines of their own (server/scan_merge.go
// doScanCommon, no recover), so an index-out-of-range there takes the whole process down. The server divides COUNT by
// the number of partitions, so `SCAN ns:t: COUNT -3` on a 3-partition namespace reaches the handler with COUNT -1.
func TestZZScanNegativeCountEmptyPage(t *testing.T) {
	dir, _ := ioutil.TempDir("", "c11scan")
	defer os.RemoveAll(dir)
	opts := &KVOptions{DataDir: dir, EngType: rockredis.EngType}
	opts.RockOpts.EngineType = "mem"
	engine.FillDefaultOptions(&opts.RockOpts)
	store, err := NewKVStore(opts)
	if err != nil {
		t.Fatal(err)
	}
	defer store.Close()
	nd := &KVNode{store: store}
	call := func(name string, f func() (interface{}, error)) {
		defer func() {
			if e := recover(); e != nil {
				t.Errorf("%s panics: %v", name, e)
			}
		}()
		rsp, err := f()
		_ = fmt.Sprint(rsp, err)
	}
	mk := func(args ...string) redcon.Command {
		var c redcon.Command
		for _, a := range args {
			c.Args = append(c.Args, []byte(a))
		}
		return c
	}
	call("SCAN t: COUNT -1", func() (interface{}, error) { return nd.scanCommand(mk("scan", "t:", "count", "-1")) })
	call("REVSCAN t: COUNT -1", func() (interface{}, error) { return nd.scanCommand(mk("revscan", "t:", "count", "-1")) })
	call("ADVSCAN t: kv COUNT -1", func() (interface{}, error) {
		return nd.advanceScanCommand(mk("advscan", "t:", "kv", "count", "-1"))
	})
}
