package rockredis

import (
	"os"
	"testing"

	"github.com/stretchr/testify/assert"
	"github.com/youzan/ZanRedisDB/common"
)

func zzDB(t *testing.T) *RockDB {
	dir, _ := os.MkdirTemp("", "zzfix")
	return getTestDBWithDirType(t, dir, "mem")
}

func TestZZDupMembersCountedOnce(t *testing.T) {
	db := zzDB(t)
	defer os.RemoveAll(db.cfg.DataDir)
	defer db.Close()
	n, err := db.SAdd(1, []byte("test:s"), []byte("a"), []byte("a"), []byte("b"))
	assert.Nil(t, err)
	assert.Equal(t, int64(2), n)
	c, _ := db.SCard([]byte("test:s"))
	ms, _ := db.SMembers([]byte("test:s"))
	assert.Equal(t, int64(len(ms)), c)
	n, err = db.SRem(2, []byte("test:s"), []byte("a"), []byte("a"))
	assert.Nil(t, err)
	assert.Equal(t, int64(1), n)
	c, _ = db.SCard([]byte("test:s"))
	ms, _ = db.SMembers([]byte("test:s"))
	assert.Equal(t, int64(1), c)
	assert.Equal(t, 1, len(ms))

	err = db.HMset(3, []byte("test:h"), common.KVRecord{Key: []byte("f"), Value: []byte("1")}, common.KVRecord{Key: []byte("f"), Value: []byte("2")}, common.KVRecord{Key: []byte("g"), Value: []byte("3")})
	assert.Nil(t, err)
	hl, _ := db.HLen([]byte("test:h"))
	_, all, _ := db.HGetAll([]byte("test:h"))
	assert.Equal(t, int64(2), hl)
	assert.Equal(t, 2, len(all))
	v, _ := db.HGet([]byte("test:h"), []byte("f"))
	assert.Equal(t, "2", string(v))
	dn, err := db.HDel(4, []byte("test:h"), []byte("f"), []byte("f"))
	assert.Nil(t, err)
	assert.Equal(t, int64(1), dn)
	hl, _ = db.HLen([]byte("test:h"))
	assert.Equal(t, int64(1), hl)
	v, _ = db.HGet([]byte("test:h"), []byte("g"))
	assert.Equal(t, "3", string(v))

	zn, err := db.ZAdd(5, []byte("test:z"), common.ScorePair{Score: 1, Member: []byte("a")}, common.ScorePair{Score: 2, Member: []byte("a")})
	assert.Nil(t, err)
	assert.Equal(t, int64(1), zn)
	zc, _ := db.ZCard([]byte("test:z"))
	zr, _ := db.ZRange([]byte("test:z"), 0, -1)
	assert.Equal(t, int64(1), zc)
	assert.Equal(t, 1, len(zr))
	sc, _ := db.ZScore([]byte("test:z"), []byte("a"))
	assert.Equal(t, float64(2), sc)
	db.ZAdd(6, []byte("test:z"), common.ScorePair{Score: 3, Member: []byte("b")})
	rn, err := db.ZRem(7, []byte("test:z"), []byte("a"), []byte("a"))
	assert.Nil(t, err)
	assert.Equal(t, int64(1), rn)
	zc, _ = db.ZCard([]byte("test:z"))
	zr, _ = db.ZRange([]byte("test:z"), 0, -1)
	assert.Equal(t, int64(1), zc)
	assert.Equal(t, 1, len(zr))
}

func TestZZIncrByZeroKeepsScoreIndex(t *testing.T) {
	db := zzDB(t)
	defer os.RemoveAll(db.cfg.DataDir)
	defer db.Close()
	db.ZAdd(1, []byte("test:z"), common.ScorePair{Score: 1, Member: []byte("a")}, common.ScorePair{Score: 2, Member: []byte("b")})
	_, err := db.ZIncrBy(2, []byte("test:z"), 0, []byte("a"))
	assert.Nil(t, err)
	zc, _ := db.ZCard([]byte("test:z"))
	zr, _ := db.ZRange([]byte("test:z"), 0, -1)
	assert.Equal(t, int64(2), zc)
	assert.Equal(t, 2, len(zr))
}
