#!/bin/sh
# Demonstrations of the genuine defects the static checks reported (all repaired by "fix:" commits in /repo).
# They are NOT part of any check; they show that each report was a real failure of the real code.
# usage: findings/run.sh [<repo dir>]      default /repo. Nothing is written under the repo: the test files are mapped
# in with `go test -overlay`, the gorocksdb cgo binding is replaced by the generated stub through a derived -modfile.
# On the repaired tree every test passes; on the parent of the corresponding fix commit it fails.
set -u
HERE="$(cd "$(dirname "$0")" && pwd)"; V="$(dirname "$HERE")"
R="${1:-/repo}"
export GOFLAGS=-mod=mod GOPROXY=off GOSUMDB=off GOTOOLCHAIN=local GOWORK=off
[ -d "$V/.cache/gorocksdb-stub" ] || (cd "$V" && ./setup.sh >/dev/null) || exit 2
T=$(mktemp -d /tmp/findings.XXXXXX)
(cat "$R/go.mod"; echo; echo "replace github.com/youzan/gorocksdb => $V/.cache/gorocksdb-stub") > "$T/go.mod"; cp "$R/go.sum" "$T/go.sum"
rc=0
run() { # <pkg dir> <file> <regex>
  printf '{"Replace":{"%s/%s/%s":"%s/%s"}}' "$R" "$1" "$2" "$HERE" "$2" > "$T/ov.json"
  (cd "$R" && go test -modfile="$T/go.mod" -overlay="$T/ov.json" -vet=off -count=1 -run "$3" "./$1/" 2>&1 | grep -v '\[JOB' | tail -15) || rc=1
}
run rockredis zz_fix_c09_test.go 'TestZZDupMembersCountedOnce|TestZZIncrByZeroKeepsScoreIndex'
run rockredis zz_fix_c10_test.go TestZZAppendSetRangeOnExpired
run rockredis zz_fix_c11_test.go TestZZSetRangeNegativeOffset
run rockredis zz_fix_c11b_test.go TestZZSetExOverflowStoresNothing
run rockredis zz_fix_c11c_test.go TestZZSetRangeHugeOffset
run rockredis zz_fix_c07_test.go TestZZHClearSameLogSameResult
run rockredis zz_fix_c07b_test.go TestZZZFixKeySameLogSameResult
run transport/rafthttp zz_fix_c16_test.go TestZZMsgAppV2CorruptLength
run node zz_fix_c06_test.go TestZZSingleReplicaAnswersOnlyAfterWALWrite
run node zz_fix_c11d_test.go TestZZScanNegativeCountEmptyPage
run node zz_fix_c13_test.go TestZZRevScanWithoutCountKeepsDirection
run node zz_fix_c13b_test.go TestZZScanCountAboveStoreLimitIsNotTheLastPage
run engine zz_fix_c14_pebble_test.go TestFindC14PebbleCheckpointContainsLaterWrites
run engine zz_fix_c20_seekforprev_test.go TestFindC20Reverse
run engine zz_fix_c20_batchorder_test.go TestFindC20Batch
run engine zz_fix_c20_nulorder_test.go TestFindC20NulKeysOrder
rm -rf "$T"
exit $rc
