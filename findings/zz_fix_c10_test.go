package rockredis

import (
	"os"
	"testing"
	"time"

	"github.com/stretchr/testify/assert"
)

func TestZZAppendSetRangeOnExpired(t *testing.T) {
	dir, _ := os.MkdirTemp("", "zzfix")
	cfg := NewRockRedisDBConfig()
	cfg.EngineType = "mem"
	cfg.DataDir = dir
	cfg.ExpirationPolicy = 2 // common.WaitCompact
	cfg.DataVersion = 1      // common.ValueHeaderV1
	db, err := OpenRockDB(cfg)
	assert.Nil(t, err)
	defer os.RemoveAll(dir)
	defer db.Close()
	ts := time.Now().UnixNano()
	assert.Nil(t, db.SetEx(ts, []byte("test:k"), 1, []byte("old")))
	assert.Nil(t, db.SetEx(ts, []byte("test:k2"), 1, []byte("old")))
	later := ts + 3*int64(time.Second)
	n, err := db.Append(later, []byte("test:k"), []byte("new"))
	assert.Nil(t, err)
	assert.Equal(t, int64(3), n)
	n, err = db.SetRange(later, []byte("test:k2"), 0, []byte("N"))
	assert.Nil(t, err)
	assert.Equal(t, int64(1), n)
}
