package engine

import (
	"io/ioutil"
	"os"
	"testing"

	"github.com/youzan/ZanRedisDB/common"
)

// A reverse scan over [min, max] (closed on both ends) must start at the key equal to max when it exists,
// on every engine: the shared range iterator positions with SeekForPrev(max) = "last key <= max".
func testReverseClosedMax(t *testing.T, engType string) {
	SetLogger(0, nil)
	cfg := NewRockConfig()
	dir, _ := ioutil.TempDir("", "c20rev")
	defer os.RemoveAll(dir)
	cfg.DataDir = dir
	cfg.EngineType = engType
	eng, err := NewKVEng(cfg)
	if err != nil {
		t.Fatal(err)
	}
	if err = eng.OpenEng(); err != nil {
		t.Fatal(err)
	}
	defer eng.CloseAll()
	wb := eng.DefaultWriteBatch()
	for _, k := range []string{"a", "b", "c", "d"} {
		wb.Put([]byte(k), []byte("v"+k))
	}
	if err := eng.Write(wb); err != nil {
		t.Fatal(err)
	}
	wb.Clear()
	scan := func(min, max string, tp uint8) []string {
		opts := IteratorOpts{Range: Range{Min: []byte(min), Max: []byte(max), Type: tp}, Reverse: true}
		it, err := NewDBRangeIteratorWithOpts(eng, opts)
		if err != nil {
			t.Fatal(err)
		}
		defer it.Close()
		var got []string
		for ; it.Valid(); it.Next() {
			got = append(got, string(it.Key()))
		}
		return got
	}
	eq := func(a, b []string) bool {
		if len(a) != len(b) {
			return false
		}
		for i := range a {
			if a[i] != b[i] {
				return false
			}
		}
		return true
	}
	if got, want := scan("a", "c", common.RangeClose), []string{"c", "b", "a"}; !eq(got, want) {
		t.Errorf("%s: reverse [a,c]: got %v want %v", engType, got, want)
	}
	if got, want := scan("a", "c", common.RangeROpen), []string{"b", "a"}; !eq(got, want) {
		t.Errorf("%s: reverse [a,c): got %v want %v", engType, got, want)
	}
	if got, want := scan("a", "bb", common.RangeClose), []string{"b", "a"}; !eq(got, want) {
		t.Errorf("%s: reverse [a,bb]: got %v want %v", engType, got, want)
	}
	if got, want := scan("0", "0z", common.RangeClose), []string{}; !eq(got, want) {
		t.Errorf("%s: reverse [0,0z] below every key: got %v want %v", engType, got, want)
	}
}

func TestFindC20ReverseClosedMaxPebble(t *testing.T) { testReverseClosedMax(t, "pebble") }

func TestFindC20ReverseClosedMaxMemRadix(t *testing.T) {
	old := useMemType
	useMemType = memTypeRadix
	defer func() { useMemType = old }()
	testReverseClosedMax(t, "mem")
}

func TestFindC20ReverseClosedMaxMemBtree(t *testing.T) {
	old := useMemType
	useMemType = memTypeBtree
	defer func() { useMemType = old }()
	testReverseClosedMax(t, "mem")
}

func TestFindC20ReverseClosedMaxMemSkiplist(t *testing.T) {
	old := useMemType
	useMemType = memTypeSkiplist
	defer func() { useMemType = old }()
	testReverseClosedMax(t, "mem")
}
