package rockredis

import (
	"math"
	"os"
	"testing"

	"github.com/stretchr/testify/assert"
)

// SETRANGE k 9223372036854775807 x: len(value)+offset wraps to a negative number, passes the size test, and the
// slice expression realV[offset:] panics while the committed entry is applied.
func TestZZSetRangeHugeOffset(t *testing.T) {
	dir, _ := os.MkdirTemp("", "zzfix")
	db := getTestDBWithDirType(t, dir, "mem")
	defer os.RemoveAll(db.cfg.DataDir)
	defer db.Close()
	assert.Nil(t, db.KVSet(1, []byte("test:k"), []byte("hello")))
	for _, off := range []int{math.MaxInt64, math.MaxInt64 - 3, MaxValueSize, MaxValueSize + 1} {
		func() {
			defer func() {
				if e := recover(); e != nil {
					t.Errorf("SetRange offset %d panicked: %v", off, e)
				}
			}()
			_, err := db.SetRange(2, []byte("test:k"), off, []byte("xy"))
			assert.NotNil(t, err, "offset %d must be refused", off)
		}()
	}
	v, _ := db.KVGet([]byte("test:k"))
	assert.Equal(t, "hello", string(v))
}
