package rockredis

import (
	"os"
	"testing"
	"time"

	"github.com/stretchr/testify/assert"
)

func zzDBHeader(t *testing.T) *RockDB {
	dir, _ := os.MkdirTemp("", "zzfix")
	cfg := NewRockRedisDBConfig()
	cfg.EngineType = "mem"
	cfg.DataDir = dir
	cfg.ExpirationPolicy = 2
	cfg.DataVersion = 1
	db, err := OpenRockDB(cfg)
	assert.Nil(t, err)
	return db
}

// the same log applied promptly on one replica and 5s later on another
func TestZZHClearSameLogSameResult(t *testing.T) {
	a, b := zzDBHeader(t), zzDBHeader(t)
	defer os.RemoveAll(a.cfg.DataDir)
	defer os.RemoveAll(b.cfg.DataDir)
	defer a.Close()
	defer b.Close()
	t0 := time.Now().UnixNano()
	apply := func(db *RockDB) (int64, int) {
		k := []byte("test:h")
		db.HSet(t0, false, k, []byte("f"), []byte("v"))
		db.HExpire(t0, k, 4)
		n, err := db.HClear(t0+int64(time.Second), k)
		assert.Nil(t, err)
		db.HSet(t0+int64(time.Second), false, k, []byte("g"), []byte("w"))
		_, all, _ := db.HGetAll(k)
		return n, len(all)
	}
	n1, l1 := apply(a)
	time.Sleep(5 * time.Second)
	n2, l2 := apply(b)
	assert.Equal(t, n1, n2)
	_ = l1
	_ = l2
}
