package node

import (
	"fmt"
	"io/ioutil"
	"os"
	"testing"

	"github.com/absolute8511/redcon"
	"github.com/youzan/ZanRedisDB/common"
	"github.com/youzan/ZanRedisDB/engine"
	"github.com/youzan/ZanRedisDB/rockredis"
)

// A scan page holds at most MAX_BATCH_NUM (5000) elements whatever COUNT says. The handlers decided "this was the last
// page" by comparing the page with the client's COUNT: with COUNT 6000 a full page of 5000 looked short, the empty cursor
// was returned and the rest of the table was never listed.
func TestZZScanCountAboveStoreLimitIsNotTheLastPage(t *testing.T) {
	dir, _ := ioutil.TempDir("", "c13cnt")
	defer os.RemoveAll(dir)
	opts := &KVOptions{DataDir: dir, EngType: rockredis.EngType}
	opts.RockOpts.EngineType = "mem"
	engine.FillDefaultOptions(&opts.RockOpts)
	store, err := NewKVStore(opts)
	if err != nil {
		t.Fatal(err)
	}
	defer store.Close()
	const total = 5500
	for i := 0; i < total; i++ {
		if err := store.KVSet(0, []byte(fmt.Sprintf("t:k%05d", i)), []byte("v")); err != nil {
			t.Fatal(err)
		}
	}
	nd := &KVNode{store: store}
	seen := 0
	cursor := "t:"
	for page := 0; page < 10; page++ {
		rsp, err := nd.scanCommand(redcon.Command{Args: [][]byte{[]byte("scan"), []byte(cursor), []byte("count"), []byte("6000")}})
		if err != nil {
			t.Fatal(err)
		}
		res := rsp.(*common.ScanResult)
		seen += len(res.Keys)
		if len(res.NextCursor) == 0 {
			break
		}
		cursor = string(res.NextCursor)
	}
	if seen != total {
		t.Errorf("SCAN t: COUNT 6000 chained by cursor listed %d of %d keys", seen, total)
	}
}
