package rockredis

import (
	"os"
	"testing"

	"github.com/stretchr/testify/assert"
)

func TestZZSetRangeNegativeOffset(t *testing.T) {
	db := zzDB2(t)
	defer os.RemoveAll(db.cfg.DataDir)
	defer db.Close()
	assert.Nil(t, db.KVSet(1, []byte("test:k"), []byte("hello")))
	_, err := db.SetRange(2, []byte("test:k"), -5, []byte("x"))
	assert.NotNil(t, err)
	v, _ := db.KVGet([]byte("test:k"))
	assert.Equal(t, "hello", string(v))
}

func zzDB2(t *testing.T) *RockDB {
	dir, _ := os.MkdirTemp("", "zzfix")
	return getTestDBWithDirType(t, dir, "mem")
}
