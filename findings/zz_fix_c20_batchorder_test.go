package engine

import (
	"io/ioutil"
	"os"
	"testing"
)

// The operations of a write batch take effect in the order they were added: a DeleteRange that follows a Put of a
// key inside the range removes that key, on every engine (rocksdb and pebble batches are ordered logs; the btree and
// skiplist engines replay the operation list at commit). The reference is a sorted map.
func testBatchPutThenDeleteRange(t *testing.T, engType string) {
	SetLogger(0, nil)
	cfg := NewRockConfig()
	dir, _ := ioutil.TempDir("", "c20batch")
	defer os.RemoveAll(dir)
	cfg.DataDir = dir
	cfg.EngineType = engType
	eng, err := NewKVEng(cfg)
	if err != nil {
		t.Fatal(err)
	}
	if err = eng.OpenEng(); err != nil {
		t.Fatal(err)
	}
	defer eng.CloseAll()
	wb := eng.DefaultWriteBatch()
	wb.Put([]byte("a"), []byte("1"))
	if err := eng.Write(wb); err != nil {
		t.Fatal(err)
	}
	wb.Clear()
	// one batch: put b, put d, delete [a, c), put c
	wb.Put([]byte("b"), []byte("2"))
	wb.Put([]byte("d"), []byte("4"))
	wb.DeleteRange([]byte("a"), []byte("c"))
	wb.Put([]byte("c"), []byte("3"))
	if err := eng.Write(wb); err != nil {
		t.Fatal(err)
	}
	wb.Clear()
	want := map[string]string{"c": "3", "d": "4"} // a and b fall in [a, c) and were there when the range was deleted
	for _, k := range []string{"a", "b", "c", "d"} {
		v, err := eng.GetBytes([]byte(k))
		if err != nil {
			t.Fatal(err)
		}
		w, exists := want[k]
		if exists != (v != nil) || (exists && string(v) != w) {
			t.Errorf("%s: key %q = %q after {put b, put d, deleterange [a,c), put c}; the sorted-map reference has %q (present=%v)", engType, k, v, w, exists)
		}
	}
}

// A counter merge reads the value the batch itself has produced so far: put 5 then +1 is 6, delete then +1 is 1.
func testBatchMergeSeesBatch(t *testing.T, engType string) {
	SetLogger(0, nil)
	cfg := NewRockConfig()
	dir, _ := ioutil.TempDir("", "c20merge")
	defer os.RemoveAll(dir)
	cfg.DataDir = dir
	cfg.EngineType = engType
	eng, err := NewKVEng(cfg)
	if err != nil {
		t.Fatal(err)
	}
	if err = eng.OpenEng(); err != nil {
		t.Fatal(err)
	}
	defer eng.CloseAll()
	u64 := func(n uint64) []byte {
		b := make([]byte, 8)
		for i := 0; i < 8; i++ {
			b[i] = byte(n >> (8 * uint(i)))
		}
		return b
	}
	wb := eng.DefaultWriteBatch()
	wb.Put([]byte("k1"), u64(100))
	wb.Put([]byte("k2"), u64(100))
	wb.Put([]byte("k3"), u64(100))
	if err := eng.Write(wb); err != nil {
		t.Fatal(err)
	}
	wb.Clear()
	wb.Put([]byte("k1"), u64(5))
	wb.Merge([]byte("k1"), u64(1)) // 6
	wb.Delete([]byte("k2"))
	wb.Merge([]byte("k2"), u64(1)) // 1
	wb.Merge([]byte("k3"), u64(1)) // 101
	wb.Put([]byte("k3"), u64(7))
	wb.Merge([]byte("k3"), u64(1)) // 8
	if err := eng.Write(wb); err != nil {
		t.Fatal(err)
	}
	wb.Clear()
	for k, want := range map[string]uint64{"k1": 6, "k2": 1, "k3": 8} {
		v, err := eng.GetBytes([]byte(k))
		got, err := GetRocksdbUint64(v, err)
		if err != nil {
			t.Fatal(err)
		}
		if got != want {
			t.Errorf("%s: counter %s = %d, the sorted-map reference has %d", engType, k, got, want)
		}
	}
}

func TestFindC20BatchMergeMemRadix(t *testing.T) {
	old := useMemType
	useMemType = memTypeRadix
	defer func() { useMemType = old }()
	testBatchMergeSeesBatch(t, "mem")
}
func TestFindC20BatchMergeMemBtree(t *testing.T) {
	old := useMemType
	useMemType = memTypeBtree
	defer func() { useMemType = old }()
	testBatchMergeSeesBatch(t, "mem")
}
func TestFindC20BatchMergePebble(t *testing.T) { testBatchMergeSeesBatch(t, "pebble") }

func TestFindC20BatchOrderMemRadix(t *testing.T) {
	old := useMemType
	useMemType = memTypeRadix
	defer func() { useMemType = old }()
	testBatchPutThenDeleteRange(t, "mem")
}
func TestFindC20BatchOrderMemBtree(t *testing.T) {
	old := useMemType
	useMemType = memTypeBtree
	defer func() { useMemType = old }()
	testBatchPutThenDeleteRange(t, "mem")
}
func TestFindC20BatchOrderPebble(t *testing.T) { testBatchPutThenDeleteRange(t, "pebble") }
