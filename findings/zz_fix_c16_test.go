package rafthttp

import (
	"bytes"
	"encoding/binary"
	"testing"

	"github.com/youzan/ZanRedisDB/pkg/types"
)

func TestZZMsgAppV2CorruptLength(t *testing.T) {
	for _, size := range []uint64{1 << 62, 1 << 40} {
		var b bytes.Buffer
		b.WriteByte(msgTypeApp)
		binary.Write(&b, binary.BigEndian, size)
		b.Write(make([]byte, 64))
		dec := newMsgAppV2Decoder(&b, types.ID(1), types.ID(2))
		if _, err := dec.decode(); err == nil {
			t.Fatalf("corrupted size %d accepted", size)
		}
	}
}
