#!/bin/sh
# usage: seedtest.sh <patch.diff> <Cxx> [more Cxx...]  — apply a seeded change to /repo, run the checks, undo it
P=$1; shift
cd /repo || exit 2
if [ -n "$(git status --porcelain --untracked-files=no)" ]; then echo "repo not clean" >&2; exit 2; fi
git apply "$P" || { echo "patch does not apply" >&2; exit 2; }
for c in "$@"; do
  (cd /verif && bin/zrcheck -no-evidence check $c quick 2>&1 | grep -E "VIOLATION|rule |UNDECIDED|obligations" | cut -c1-260)
done
git -C /repo checkout -- . 
git -C /repo status --porcelain | grep -v "^??" 
